"""C11 — replaying the recorded tick log reproduces the live run state."""
from __future__ import annotations

from ..engine import monitors, suite
from ..runner import Env, Outcome

THEOREMS = ["C11_replay_invariant", "C11_rebuilt_wellformed", "C11_log_grows_only_by_drain"]
LEAN_TARGETS = ["WfProps.C11"]
EXPLANATION = (
    "Runner LTS: at every point of every run (any schedule, results, external ticks) the live reducer state equals "
    "the replay of the logged (tick, time) pairs from the rewound initial state; the log grows by exactly the processed "
    "tick in drain and by nothing else; the rebuilt state satisfies the slot invariant. Tie: runner correspondence. "
    "Search (this is where the real rebuild_state_from_ticks, which replays with the *current* clock, is exercised): "
    "after every tick of every generated run the state rebuilt by the real function from the adapter's tick log is "
    "compared with the live state, timestamps erased; ctx.to_dict() snapshots are compared with the live state."
)
ASSUMPTIONS = suite.ENGINE_ASSUMPTIONS + [
    "replay with a different clock equals the live state only 'timestamps aside' and only for policies that do not depend on elapsed time: "
    "stated as C11_time_erasure_statement, not proved; generated policies are attempt-based",
]


def _resumed_runs(env: Env, out: Outcome, n: int) -> None:
    """resumed runs: (a) snapshot at a quiet point mid-run, stop, resume from JSON; (b) snapshot AFTER the run ended (a StopEvent
    racing with other work leaves queued / in-progress invocations behind; is_running is False) and run the restored context
    again.  mon_c11 compares, after every tick of the resumed run, the state rebuilt from its tick log with the live state."""
    import copy
    import random

    from ..engine import live, specgen
    rng = random.Random(env.rng.randrange(1 << 30))
    jobs = []
    if env.replay is not None and isinstance(env.replay.get("payload", {}).get("case"), dict) and "resume" in env.replay["payload"]["case"]:
        c = env.replay["payload"]["case"]["resume"]
        jobs.append((c["spec"], c["seed"], c.get("actions1"), c.get("actions2")))
    for _ in range(n):
        spec = specgen.gen_spec(rng, family=rng.choice(["general", "fanin", "general"]), allow_timeout=False)
        for st in spec["steps"]:
            if (st.get("retry") or {}).get("kind") == "delay":
                st["retry"] = {"kind": "attempts", "n": 3, "wait": st["retry"].get("wait", 0)}
        spec["externals"] = [e for e in spec.get("externals", []) if e["op"] == "send"]
        spec.pop("timeout", None)
        if rng.random() < 0.5:
            spec["externals"].append({"op": "snapshot_stop", "after_quiet": rng.choice([0, 1, 1, 2, 3])})
        else:
            spec["snapshot_after_end"] = True
        jobs.append((spec, rng.randrange(1 << 30), None, None))
    resumed = []
    for spec, seed, a1, a2 in jobs:
        tr1 = live.run_spec(spec, seed=seed, replay_actions=a1)
        out.evaluations += 1
        snaps = [s for s in tr1.snapshots if s.get("stopped") or s.get("after_end")]
        if not snaps:
            out.count("resume:no_snapshot")
            continue
        d = snaps[0]["dict"]
        pend = sum(len(w.get("queue", [])) + len(w.get("in_progress", [])) for w in d.get("workers", {}).values()) if isinstance(d, dict) else 0
        kind = "after_end" if snaps[0].get("after_end") else "mid_run"
        out.count(f"resume:{kind}:pending:{min(pend, 3)}")
        if kind == "after_end" and not pend:
            continue
        spec2 = copy.deepcopy(spec)
        spec2.pop("snapshot_after_end", None)
        spec2["externals"] = copy.deepcopy([e for e in getattr(tr1, "remaining_externals", []) if e["op"] == "send"])
        spec2["_resumed"] = True
        tr2 = live.run_spec(spec2, seed=seed + 1, replay_actions=a2, resume_from=d)
        resumed.append(tr2)
        out.count("resume:outcome:" + tr2.outcome[0])
        if pend:
            out.nontrivial(("resume", kind, repr(spec), tuple(tr1.actions)))
        for v in monitors.mon_c11(tr2):
            v.replay = {"resume": {"spec": spec, "seed": seed, "actions1": tr1.actions, "actions2": tr2.actions}}
            out.violations.append(v)
    suite.runner_corr(out, resumed, "engine-runner-resumed")


def run(env: Env) -> Outcome:
    out = Outcome()
    out.rule = ("live scripted workflows incl. snapshots; after every processed tick the real rebuild_state_from_ticks is compared with the live state; "
                "non-trivial = more than 2 ticks; distinct by (spec, schedule)")
    suite.direct_corr(env, out, env.budget(1500, 30000))
    def attempt_based(spec: dict, rng) -> dict:
        for st in spec["steps"]:
            if (st.get("retry") or {}).get("kind") == "delay":
                # elapsed-time policies are outside the stated guard (the replay runs on a later clock)
                st["retry"] = {"kind": "attempts", "n": 3, "wait": st["retry"].get("wait", 0)}
        return spec

    suite.live_runs(env, out, env.budget(250, 5000), [monitors.mon_c11], extra_specs=suite.load_corpus("C11"), mutate_spec=attempt_based)

    def many_snapshots(spec: dict, rng) -> dict:
        # several ctx.to_dict() calls on one live handler, at different quiet points (work in flight in between)
        for st in spec["steps"]:
            if (st.get("retry") or {}).get("kind") == "delay":
                # elapsed-time policies are outside the stated guard (replay runs on a later clock)
                st["retry"] = {"kind": "attempts", "n": 3, "wait": st["retry"].get("wait", 0)}
        for _ in range(rng.randint(2, 4)):
            spec.setdefault("externals", []).append({"op": "snapshot", "after_quiet": rng.randint(0, 6)})
        return spec

    suite.live_runs(env, out, env.budget(120, 2400), [monitors.mon_c11], gen_kwargs={"family": "fanin"}, mutate_spec=many_snapshots)
    suite.live_runs(env, out, env.budget(80, 1600), [monitors.mon_c11], gen_kwargs={"family": "retry"}, mutate_spec=many_snapshots)
    _resumed_runs(env, out, env.budget(120, 2400))
    return out
