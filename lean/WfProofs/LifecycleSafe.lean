import WfProofs.LifecycleInv
/-!
M7 (A): tick accounting (every schedule) and the safety invariant under the two schedule
hypotheses `idleSoundAt` (C03) and `windowFreeAt`.
-/
set_option linter.unusedVariables false
set_option linter.unusedSimpArgs false
namespace Lifecycle

/-- ticks held in memory only by the registered loop -/
def S.inMem (s : S) : List Nat :=
  match s.cur with
  | some l => l.buf ++ l.mailbox
  | none => []

/-- every tick ever put into a mailbox is in exactly one place: persisted, in the live loop's memory, or lost -/
def Acct (s : S) : Prop := ∀ x, s.sent.count x = s.log.count x + s.inMem.count x + s.lost.count x

theorem Acct.init (tau : Nat) : Acct (init tau) := by intro x; simp [Lifecycle.init, S.inMem]

set_option hygiene false in
macro "acct_finish" : tactic =>
  `(tactic| (intro x; have hx := hacct x
             simp_all [S.inMem, List.count_append, List.count_cons, List.count_nil, release_lost]
             try (repeat' split)
             all_goals omega))

set_option hygiene false in
macro "acct_release" : tactic =>
  `(tactic| (intro x; have hx := hacct x
             simp only [release_sent, release_log, release_lost, S.inMem, release_cur] at hx ⊢
             cases hc : s.cur <;> simp_all [S.inMem, List.count_append] <;> omega))

theorem Acct.step (s s' : S) (a : Act) (h : step s a = some s') (hacct : Acct s) : Acct s' := by
  unfold Acct at hacct ⊢
  cases a
  all_goals destruct_step h
  all_goals (first | acct_finish | acct_release | (trace_state; fail))

theorem Acct.stepD (s : S) (a : Act) (h : Acct s) : Acct (stepD s a) := by
  rcases stepD_eq s a with e | e
  · rw [e]; exact h
  · exact h.step _ _ _ e

theorem Acct.run (s : S) (acts : List Act) (h : Acct s) : Acct (run s acts) := by
  induction acts generalizing s with
  | nil => exact h
  | cons a as ih => exact ih _ (h.stepD s a)

/-! ## safety under the schedule hypotheses -/

structure Safe (s : S) : Prop where
  k1 : s.idleSince.isSome = true → s.quiet = true
  k2 : ∀ i, s.lock = some (.sDeliver i) → s.idleSince = none
  k3 : s.cur = none → s.work = false
  k4 : ∀ j seen, s.lock = some (.tDecide j seen) → s.idleSince = seen
  lost : s.lost = []
  busy : s.busyReleases = 0
  early : s.earlyReleases = 0

theorem Safe.init (tau : Nat) : Safe (init tau) := by
  constructor <;> simp [Lifecycle.init]

set_option hygiene false in
macro "safe_finish" : tactic =>
  `(tactic| (
    first
    | (simp_all [S.quiet, Loop.quiet, S.inWindow, idleSoundAt, windowFreeAt]; done)
    | (intros; simp_all [S.quiet, Loop.quiet, S.inWindow, idleSoundAt, windowFreeAt]; done)
    | (trace_state; fail)))

theorem Safe.step_advance (s s' : S) (dt : Nat) (h : step s (.advance dt) = some s') (hs : Safe s) (hinv : Inv s)
    (h1 : idleSoundAt s (.advance dt) = true) (h2 : windowFreeAt s (.advance dt) = true) : Safe s' := by
  obtain ⟨k1, k2, k3, k4, hlost, hbusy, hearly⟩ := hs
  destruct_step h
  all_goals (refine ⟨?_, ?_, ?_, ?_, ?_, ?_, ?_⟩)
  all_goals safe_finish

theorem Safe.step_ePut (s s' : S) (t : Nat) (h : step s (.ePut t) = some s') (hs : Safe s) (hinv : Inv s)
    (h1 : idleSoundAt s (.ePut t) = true) (h2 : windowFreeAt s (.ePut t) = true) : Safe s' := by
  obtain ⟨k1, k2, k3, k4, hlost, hbusy, hearly⟩ := hs
  destruct_step h
  all_goals (refine ⟨?_, ?_, ?_, ?_, ?_, ?_, ?_⟩)
  all_goals safe_finish

theorem Safe.step_ePull (s s' : S) (h : step s (.ePull) = some s') (hs : Safe s) (hinv : Inv s)
    (h1 : idleSoundAt s (.ePull) = true) (h2 : windowFreeAt s (.ePull) = true) : Safe s' := by
  obtain ⟨k1, k2, k3, k4, hlost, hbusy, hearly⟩ := hs
  destruct_step h
  all_goals (refine ⟨?_, ?_, ?_, ?_, ?_, ?_, ?_⟩)
  all_goals safe_finish

theorem Safe.step_eReduce (s s' : S) (h : step s (.eReduce) = some s') (hs : Safe s) (hinv : Inv s)
    (h1 : idleSoundAt s (.eReduce) = true) (h2 : windowFreeAt s (.eReduce) = true) : Safe s' := by
  obtain ⟨k1, k2, k3, k4, hlost, hbusy, hearly⟩ := hs
  destruct_step h
  all_goals (refine ⟨?_, ?_, ?_, ?_, ?_, ?_, ?_⟩)
  all_goals safe_finish

theorem Safe.step_eDone (s s' : S) (h : step s (.eDone) = some s') (hs : Safe s) (hinv : Inv s)
    (h1 : idleSoundAt s (.eDone) = true) (h2 : windowFreeAt s (.eDone) = true) : Safe s' := by
  obtain ⟨k1, k2, k3, k4, hlost, hbusy, hearly⟩ := hs
  destruct_step h
  all_goals (refine ⟨?_, ?_, ?_, ?_, ?_, ?_, ?_⟩)
  all_goals safe_finish

theorem Safe.step_eTimerSet (s s' : S) (h : step s (.eTimerSet) = some s') (hs : Safe s) (hinv : Inv s)
    (h1 : idleSoundAt s (.eTimerSet) = true) (h2 : windowFreeAt s (.eTimerSet) = true) : Safe s' := by
  obtain ⟨k1, k2, k3, k4, hlost, hbusy, hearly⟩ := hs
  destruct_step h
  all_goals (refine ⟨?_, ?_, ?_, ?_, ?_, ?_, ?_⟩)
  all_goals safe_finish

theorem Safe.step_eTimerFire (s s' : S) (h : step s (.eTimerFire) = some s') (hs : Safe s) (hinv : Inv s)
    (h1 : idleSoundAt s (.eTimerFire) = true) (h2 : windowFreeAt s (.eTimerFire) = true) : Safe s' := by
  obtain ⟨k1, k2, k3, k4, hlost, hbusy, hearly⟩ := hs
  destruct_step h
  all_goals (refine ⟨?_, ?_, ?_, ?_, ?_, ?_, ?_⟩)
  all_goals safe_finish

theorem Safe.step_eMark (s s' : S) (h : step s (.eMark) = some s') (hs : Safe s) (hinv : Inv s)
    (h1 : idleSoundAt s (.eMark) = true) (h2 : windowFreeAt s (.eMark) = true) : Safe s' := by
  obtain ⟨k1, k2, k3, k4, hlost, hbusy, hearly⟩ := hs
  destruct_step h
  all_goals (refine ⟨?_, ?_, ?_, ?_, ?_, ?_, ?_⟩)
  all_goals safe_finish

theorem Safe.step_eSpawn (s s' : S) (j : Nat) (h : step s (.eSpawn j) = some s') (hs : Safe s) (hinv : Inv s)
    (h1 : idleSoundAt s (.eSpawn j) = true) (h2 : windowFreeAt s (.eSpawn j) = true) : Safe s' := by
  obtain ⟨k1, k2, k3, k4, hlost, hbusy, hearly⟩ := hs
  destruct_step h
  all_goals (refine ⟨?_, ?_, ?_, ?_, ?_, ?_, ?_⟩)
  all_goals safe_finish

theorem Safe.step_sCall (s s' : S) (i : Nat) (h : step s (.sCall i) = some s') (hs : Safe s) (hinv : Inv s)
    (h1 : idleSoundAt s (.sCall i) = true) (h2 : windowFreeAt s (.sCall i) = true) : Safe s' := by
  obtain ⟨k1, k2, k3, k4, hlost, hbusy, hearly⟩ := hs
  destruct_step h
  all_goals (refine ⟨?_, ?_, ?_, ?_, ?_, ?_, ?_⟩)
  all_goals safe_finish

theorem Safe.step_sAcq (s s' : S) (i : Nat) (h : step s (.sAcq i) = some s') (hs : Safe s) (hinv : Inv s)
    (h1 : idleSoundAt s (.sAcq i) = true) (h2 : windowFreeAt s (.sAcq i) = true) : Safe s' := by
  obtain ⟨k1, k2, k3, k4, hlost, hbusy, hearly⟩ := hs
  destruct_step h
  all_goals (refine ⟨?_, ?_, ?_, ?_, ?_, ?_, ?_⟩)
  all_goals safe_finish

theorem Safe.step_sClear (s s' : S) (i : Nat) (h : step s (.sClear i) = some s') (hs : Safe s) (hinv : Inv s)
    (h1 : idleSoundAt s (.sClear i) = true) (h2 : windowFreeAt s (.sClear i) = true) : Safe s' := by
  obtain ⟨k1, k2, k3, k4, hlost, hbusy, hearly⟩ := hs
  destruct_step h
  all_goals (refine ⟨?_, ?_, ?_, ?_, ?_, ?_, ?_⟩)
  all_goals safe_finish

theorem Safe.step_sQuery (s s' : S) (i : Nat) (h : step s (.sQuery i) = some s') (hs : Safe s) (hinv : Inv s)
    (h1 : idleSoundAt s (.sQuery i) = true) (h2 : windowFreeAt s (.sQuery i) = true) : Safe s' := by
  obtain ⟨k1, k2, k3, k4, hlost, hbusy, hearly⟩ := hs
  destruct_step h
  all_goals (refine ⟨?_, ?_, ?_, ?_, ?_, ?_, ?_⟩)
  all_goals safe_finish

theorem Safe.step_sLog (s s' : S) (i : Nat) (h : step s (.sLog i) = some s') (hs : Safe s) (hinv : Inv s)
    (h1 : idleSoundAt s (.sLog i) = true) (h2 : windowFreeAt s (.sLog i) = true) : Safe s' := by
  obtain ⟨k1, k2, k3, k4, hlost, hbusy, hearly⟩ := hs
  destruct_step h
  all_goals (refine ⟨?_, ?_, ?_, ?_, ?_, ?_, ?_⟩)
  all_goals safe_finish

theorem Safe.step_sStart (s s' : S) (i : Nat) (h : step s (.sStart i) = some s') (hs : Safe s) (hinv : Inv s)
    (h1 : idleSoundAt s (.sStart i) = true) (h2 : windowFreeAt s (.sStart i) = true) : Safe s' := by
  obtain ⟨k1, k2, k3, k4, hlost, hbusy, hearly⟩ := hs
  destruct_step h
  all_goals (refine ⟨?_, ?_, ?_, ?_, ?_, ?_, ?_⟩)
  all_goals safe_finish

theorem Safe.step_sRClear (s s' : S) (i : Nat) (h : step s (.sRClear i) = some s') (hs : Safe s) (hinv : Inv s)
    (h1 : idleSoundAt s (.sRClear i) = true) (h2 : windowFreeAt s (.sRClear i) = true) : Safe s' := by
  obtain ⟨k1, k2, k3, k4, hlost, hbusy, hearly⟩ := hs
  destruct_step h
  all_goals (refine ⟨?_, ?_, ?_, ?_, ?_, ?_, ?_⟩)
  all_goals safe_finish

theorem Safe.step_sDeliver (s s' : S) (i : Nat) (h : step s (.sDeliver i) = some s') (hs : Safe s) (hinv : Inv s)
    (h1 : idleSoundAt s (.sDeliver i) = true) (h2 : windowFreeAt s (.sDeliver i) = true) : Safe s' := by
  obtain ⟨k1, k2, k3, k4, hlost, hbusy, hearly⟩ := hs
  destruct_step h
  all_goals (refine ⟨?_, ?_, ?_, ?_, ?_, ?_, ?_⟩)
  all_goals safe_finish

theorem Safe.step_tAcq (s s' : S) (j : Nat) (h : step s (.tAcq j) = some s') (hs : Safe s) (hinv : Inv s)
    (h1 : idleSoundAt s (.tAcq j) = true) (h2 : windowFreeAt s (.tAcq j) = true) : Safe s' := by
  obtain ⟨k1, k2, k3, k4, hlost, hbusy, hearly⟩ := hs
  destruct_step h
  all_goals (refine ⟨?_, ?_, ?_, ?_, ?_, ?_, ?_⟩)
  all_goals safe_finish

theorem Safe.step_tQuery (s s' : S) (j : Nat) (h : step s (.tQuery j) = some s') (hs : Safe s) (hinv : Inv s)
    (h1 : idleSoundAt s (.tQuery j) = true) (h2 : windowFreeAt s (.tQuery j) = true) : Safe s' := by
  obtain ⟨k1, k2, k3, k4, hlost, hbusy, hearly⟩ := hs
  destruct_step h
  all_goals (refine ⟨?_, ?_, ?_, ?_, ?_, ?_, ?_⟩)
  all_goals safe_finish

theorem quiet_work (s : S) (h : s.quiet = true) : s.work = false := by
  unfold S.quiet at h; cases hc : s.cur <;> simp_all

theorem quiet_mem (s : S) (h : s.quiet = true) :
    (match s.cur with | some l => l.buf ++ l.mailbox | none => []) = [] := by
  unfold S.quiet at h; cases hc : s.cur <;> simp_all [Loop.quiet]

theorem Safe.step_tDecide (s s' : S) (j : Nat) (h : step s (.tDecide j) = some s') (hs : Safe s) (hinv : Inv s) :
    Safe s' := by
  obtain ⟨k1, k2, k3, k4, hlost, hbusy, hearly⟩ := hs
  destruct_step h
  all_goals (refine ⟨?_, ?_, ?_, ?_, ?_, ?_, ?_⟩)
  all_goals (try (first
    | (simp_all [S.quiet, Loop.quiet]; done)
    | (intros; simp_all [S.quiet, Loop.quiet]; done)))
  all_goals (
    rename_i x j' hj seen t0 heq he ha
    have hI : s.idleSince = some t0 := k4 _ _ heq
    have hq : s.quiet = true := k1 (by simp [hI])
    have hw := quiet_work s hq
    have hm := quiet_mem s hq
    have hle := hinv.idleLe t0 hI)
  · intro _; simp [S.quiet, hw]
  · intro _; simpa using hw
  · rw [release_lost]; simp only [hlost, List.nil_append]
    unfold S.quiet at hq
    cases hc : s.cur <;> simp_all [Loop.quiet]
  · rw [release_busy]
    have hq' : ∀ (s2 : S), s2.cur = s.cur → s2.work = s.work → s2.quiet = true := by
      intro s2 e1 e2; unfold S.quiet at hq ⊢; rw [e1, e2]; exact hq
    simp only [hbusy]; simp
    intro _; exact hq' _ rfl rfl
  · rw [release_early]; simp only [hle.2]
    simp only [GenLifecycle.elapsedTooShort, decide_eq_true_eq] at he
    have : ¬ (s.now < t0 + s.tau) := by omega
    simp [this, hearly]

theorem Safe.step (s s' : S) (a : Act) (h : step s a = some s') (hs : Safe s) (hinv : Inv s)
    (h1 : idleSoundAt s a = true) (h2 : windowFreeAt s a = true) : Safe s' := by
  cases a with
  | advance dt => exact Safe.step_advance s s' dt h hs hinv h1 h2
  | ePut t => exact Safe.step_ePut s s' t h hs hinv h1 h2
  | ePull => exact Safe.step_ePull s s' h hs hinv h1 h2
  | eReduce => exact Safe.step_eReduce s s' h hs hinv h1 h2
  | eDone => exact Safe.step_eDone s s' h hs hinv h1 h2
  | eTimerSet => exact Safe.step_eTimerSet s s' h hs hinv h1 h2
  | eTimerFire => exact Safe.step_eTimerFire s s' h hs hinv h1 h2
  | eMark => exact Safe.step_eMark s s' h hs hinv h1 h2
  | eSpawn j => exact Safe.step_eSpawn s s' j h hs hinv h1 h2
  | sCall i => exact Safe.step_sCall s s' i h hs hinv h1 h2
  | sAcq i => exact Safe.step_sAcq s s' i h hs hinv h1 h2
  | sClear i => exact Safe.step_sClear s s' i h hs hinv h1 h2
  | sQuery i => exact Safe.step_sQuery s s' i h hs hinv h1 h2
  | sLog i => exact Safe.step_sLog s s' i h hs hinv h1 h2
  | sStart i => exact Safe.step_sStart s s' i h hs hinv h1 h2
  | sRClear i => exact Safe.step_sRClear s s' i h hs hinv h1 h2
  | sDeliver i => exact Safe.step_sDeliver s s' i h hs hinv h1 h2
  | tAcq j => exact Safe.step_tAcq s s' j h hs hinv h1 h2
  | tQuery j => exact Safe.step_tQuery s s' j h hs hinv h1 h2
  | tDecide j => exact Safe.step_tDecide s s' j h hs hinv

theorem along_cons (p : S → Act → Bool) (s : S) (a : Act) (as : List Act) :
    Along p s (a :: as) ↔ p s a = true ∧ Along p (stepD s a) as := by
  simp [Along, alongB]

theorem Safe.run (acts : List Act) (s : S) (hs : Safe s) (hinv : Inv s)
    (h1 : Along idleSoundAt s acts) (h2 : Along windowFreeAt s acts) : Safe (run s acts) := by
  induction acts generalizing s with
  | nil => exact hs
  | cons a as ih =>
    rw [along_cons] at h1 h2
    have hs' : Safe (stepD s a) := by
      rcases stepD_eq s a with e | e
      · rw [e]; exact hs
      · exact hs.step _ _ _ e hinv h1.1 h2.1
    exact ih _ hs' (hinv.stepD s a) h1.2 h2.2

/-! ## a finished send has put its tick into a mailbox -/

def DoneSent (s : S) : Prop := ∀ i, s.senders i = .done → i ∈ s.sent

theorem DoneSent.init (tau : Nat) : DoneSent (init tau) := by intro i; simp [Lifecycle.init]

theorem DoneSent.step (s s' : S) (a : Act) (h : step s a = some s') (hd : DoneSent s) : DoneSent s' := by
  unfold DoneSent at hd ⊢
  cases a
  all_goals destruct_step h
  all_goals (intro k hk; have hk' := hd k)
  all_goals (first
    | (simp_all [upd_apply]; done)
    | (simp only [upd_apply, release_senders, release_sent] at hk ⊢; split at hk <;> simp_all; done)
    | (simp only [upd_apply, release_senders, release_sent] at hk ⊢; simp_all; done))

theorem DoneSent.run (acts : List Act) (s : S) (hd : DoneSent s) : DoneSent (run s acts) := by
  induction acts generalizing s with
  | nil => exact hd
  | cons a as ih =>
    refine ih _ ?_
    rcases stepD_eq s a with e | e
    · rw [e]; exact hd
    · exact hd.step _ _ _ e

/-- `Acct` as a permutation -/
theorem Acct.perm (s : S) (h : Acct s) : List.Perm s.sent (s.log ++ s.inMem ++ s.lost) := by
  rw [List.perm_iff_count]
  intro x
  simp only [List.count_append]
  exact h x

end Lifecycle
