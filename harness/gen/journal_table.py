"""The journal TABLE and the journal's initial state -> lean/WfModel/GenJournalTable.lean  (C27, extension).

Re-read from /repo's current sources on every run (text / `ast`; nothing is imported).  What the history theorems of
C27 (`C27_journal_table_all_lives`, `C27_mirror_every_call`, `C27_observed_order_is_journal_prefix`) take from the code
beyond the shapes of `gen/journal.py`:

* the DDL of `workflow_journal` in both dialects (`_store/{sqlite,postgres}/migrations/*.sql`): the columns, that `id` is
  the auto-incremented primary key (model: `Db.insert` numbers rows by `nextId`; `ORDER BY seq_num` ties fall back to it),
  and that NO uniqueness constraint covers `(run_id, seq_num)` (model: `Db.rows` is a plain list, duplicates of a
  `seq_num` are storable - the row-numbering invariant `WF` is therefore a theorem about the writers, not a gift of the
  schema); which migration files touch the table at all;
* the initial state of a process life, the `{}` adapter of `runCalls` / `runLives`: `TaskJournal.__init__`
  (`_entries = None`, `_replay_index = 0`), `InternalDBOSAdapter.__init__` (`_journal = None`,
  `_orphan_purge_done = False`), and `_get_or_create_journal` (one `TaskJournal(self._run_id, crud)` per adapter, cached);
* durability of the writes before the `await` returns (write-order hypothesis): every writing method of
  `SqliteJournalCrud` commits inside its own connection (`execute ; commit`), `_connect` opens and closes one per call;
* the table name plumbing: `JOURNAL_TABLE_NAME`, `DEFAULT_JOURNAL_TABLE_NAME`, the identifier whitelist and quoting.
"""
from __future__ import annotations

import ast
import os
import re

from ..boot import repo_path
from ..translate import lean_str

LEAN_MODULE = "GenJournalTable"
DBOS = "packages/llama-agents-dbos/src/llama_agents/dbos"
RUNTIME = f"{DBOS}/runtime.py"
TASKJ = f"{DBOS}/journal/task_journal.py"
CRUD = f"{DBOS}/journal/crud.py"
MIG = {"sqlite": f"{DBOS}/_store/sqlite/migrations", "pg": f"{DBOS}/_store/postgres/migrations"}
TABLE = "workflow_journal"


def _norm(s: str) -> str:
    return re.sub(r"\s+", " ", s).strip()


def _parse(rel: str, notes: list[str]) -> ast.Module | None:
    try:
        return ast.parse(open(repo_path(rel)).read())
    except (OSError, SyntaxError) as e:
        notes.append(f"gen/journal_table: cannot parse {rel}: {e!r}")
        return None


def _func(tree: ast.AST | None, cls: str | None, name: str) -> ast.AST | None:
    if tree is None:
        return None
    scope = tree.body if cls is None else next((n.body for n in ast.walk(tree) if isinstance(n, ast.ClassDef) and n.name == cls), [])
    for n in scope:
        if isinstance(n, (ast.FunctionDef, ast.AsyncFunctionDef)) and n.name == name:
            return n
    return None


def _body(fn: ast.AST | None, what: str, notes: list[str]) -> str:
    if fn is None:
        notes.append(f"gen/journal_table: {what} not found")
        return "<missing>"
    body = [s for s in fn.body if not (isinstance(s, ast.Expr) and isinstance(s.value, ast.Constant))]
    return " ; ".join(_norm(ast.unparse(s)) for s in body)


def _self_assigns(fn: ast.AST | None, names: list[str], what: str, notes: list[str]) -> list[str]:
    """`self.<name> = <value>` statements of a constructor, for the given attribute names, in source order"""
    if fn is None:
        notes.append(f"gen/journal_table: {what} not found")
        return ["<missing>"]
    res = []
    for s in fn.body:
        tgt = val = None
        if isinstance(s, ast.Assign) and len(s.targets) == 1:
            tgt, val = s.targets[0], s.value
        elif isinstance(s, ast.AnnAssign) and s.value is not None:
            tgt, val = s.target, s.value
        if isinstance(tgt, ast.Attribute) and isinstance(tgt.value, ast.Name) and tgt.value.id == "self" and tgt.attr in names:
            res.append(f"{tgt.attr}={_norm(ast.unparse(val))}")
    if sorted(r.split("=")[0] for r in res) != sorted(names):
        notes.append(f"gen/journal_table: {what}: expected exactly one assignment to each of {names}, found {res}")
    return res


def _const(tree: ast.AST | None, name: str, notes: list[str]) -> str:
    if tree is not None:
        for n in tree.body:
            if isinstance(n, ast.Assign) and len(n.targets) == 1 and ast.unparse(n.targets[0]) == name:
                return _norm(ast.unparse(n.value))
    notes.append(f"gen/journal_table: module constant {name} not found")
    return "<missing>"


def ddl(dialect: str, notes: list[str]) -> dict:
    """columns of CREATE TABLE workflow_journal, every statement of every migration file that mentions the table"""
    d = repo_path(MIG[dialect])
    cols: list[str] = ["<missing>"]
    creates = 0
    others: list[str] = []
    files: list[str] = []
    try:
        names = sorted(f for f in os.listdir(d) if f.endswith(".sql"))
    except OSError as e:
        notes.append(f"gen/journal_table: {MIG[dialect]}: {e!r}")
        names = []
    for f in names:
        text = open(os.path.join(d, f)).read()
        text = re.sub(r"--[^\n]*", "", text)
        touched = False
        for stmt in (s.strip() for s in text.split(";")):
            if not stmt or not re.search(rf"\b{TABLE}\b", stmt):
                continue
            touched = True
            m = re.match(rf"CREATE TABLE (?:IF NOT EXISTS )?{TABLE}\s*\((.*)\)\s*$", stmt, re.S | re.I)
            if m:
                creates += 1
                cols = [_norm(c) for c in m.group(1).split(",")]
            else:
                others.append(_norm(stmt))
        if touched:
            files.append(f)
    if creates != 1:
        notes.append(f"gen/journal_table: expected exactly one CREATE TABLE {TABLE} in {MIG[dialect]}, found {creates}")
        cols = ["<missing>"]
    uniq = [c for c in cols if re.search(r"\bUNIQUE\b", c, re.I) or (re.search(r"\bPRIMARY KEY\b", c, re.I) and not c.lower().startswith("id "))]
    uniq += [s for s in others if re.search(r"\bUNIQUE\b", s, re.I)]
    return {"cols": cols, "others": others, "files": files, "unique": uniq}


def sqlite_write_shape(tree: ast.AST | None, meth: str, notes: list[str]) -> str:
    """`with self._connect() as conn: conn.execute(...) ; conn.commit()` -> "connect:execute,commit" """
    fn = _func(tree, "SqliteJournalCrud", meth)
    if fn is None:
        notes.append(f"gen/journal_table: SqliteJournalCrud.{meth} not found")
        return "<missing>"
    body = [s for s in fn.body if not (isinstance(s, ast.Expr) and isinstance(s.value, ast.Constant))]
    if len(body) != 1 or not isinstance(body[0], ast.With) or len(body[0].items) != 1:
        notes.append(f"gen/journal_table: SqliteJournalCrud.{meth}: expected a single `with` block")
        return "<unexpected>"
    w = body[0]
    ctx = _norm(ast.unparse(w.items[0].context_expr))
    var = ast.unparse(w.items[0].optional_vars) if w.items[0].optional_vars is not None else "_"
    calls = []
    for s in w.body:
        if isinstance(s, ast.Expr) and isinstance(s.value, ast.Call) and isinstance(s.value.func, ast.Attribute) \
                and ast.unparse(s.value.func.value) == var:
            calls.append(s.value.func.attr)
        else:
            calls.append("other:" + type(s).__name__)
    return f"{ctx}:{','.join(calls)}"


def extract(notes: list[str]) -> dict:
    rt, tj, cr = _parse(RUNTIME, notes), _parse(TASKJ, notes), _parse(CRUD, notes)
    res: dict = {}
    for tag in ("sqlite", "pg"):
        d = ddl(tag, notes)
        res[f"{tag}Columns"], res[f"{tag}OtherStatements"], res[f"{tag}Files"], res[f"{tag}Unique"] = d["cols"], d["others"], d["files"], d["unique"]
    res["tjInit"] = _self_assigns(_func(tj, "TaskJournal", "__init__"), ["_entries", "_replay_index"], "TaskJournal.__init__", notes)
    res["adapterInit"] = _self_assigns(_func(rt, "InternalDBOSAdapter", "__init__"), ["_journal", "_orphan_purge_done"],
                                       "InternalDBOSAdapter.__init__", notes)
    res["getOrCreateJournalBody"] = _body(_func(rt, "InternalDBOSAdapter", "_get_or_create_journal"), "_get_or_create_journal", notes)
    res["sqliteWriteShapes"] = [f"{m}={sqlite_write_shape(cr, m, notes)}" for m in ("insert", "delete", "truncate_from", "purge_operations_from")]
    res["sqliteConnectBody"] = _body(_func(cr, "SqliteJournalCrud", "_connect"), "SqliteJournalCrud._connect", notes)
    res["sqliteCrudInit"] = _self_assigns(_func(cr, "SqliteJournalCrud", "__init__"), ["_db_path", "_table_ref", "_ops_table_ref"],
                                          "SqliteJournalCrud.__init__", notes)
    res["pgCrudInit"] = _self_assigns(_func(cr, "PostgresJournalCrud", "__init__"), ["_pool", "_table_ref", "_ops_table_ref"],
                                      "PostgresJournalCrud.__init__", notes)
    res["journalTableName"] = _const(cr, "JOURNAL_TABLE_NAME", notes)
    res["defaultJournalTableName"] = _const(rt, "DEFAULT_JOURNAL_TABLE_NAME", notes)
    res["validIdentifier"] = _const(cr, "_VALID_IDENTIFIER", notes)
    res["quoteIdentifierBody"] = _body(_func(cr, None, "_quote_identifier"), "_quote_identifier", notes)
    res["qualifiedTableRefBody"] = _body(_func(cr, None, "_qualified_table_ref"), "_qualified_table_ref", notes)
    return res


def generate(notes: list[str]) -> list[str]:
    r = extract(notes)
    ls = lambda xs: "[" + ", ".join(lean_str(x) for x in xs) + "]"  # noqa: E731
    out = ["namespace GenJournalTable"]
    for k in ("sqliteColumns", "sqliteOtherStatements", "sqliteFiles", "sqliteUnique", "pgColumns", "pgOtherStatements", "pgFiles",
              "pgUnique", "tjInit", "adapterInit", "sqliteWriteShapes", "sqliteCrudInit", "pgCrudInit"):
        out.append(f"def {k} : List String := {ls(r[k])}")
    for k in ("getOrCreateJournalBody", "sqliteConnectBody", "journalTableName", "defaultJournalTableName", "validIdentifier",
              "quoteIdentifierBody", "qualifiedTableRefBody"):
        out.append(f"def {k} : String := {lean_str(r[k])}")
    out.append("end GenJournalTable")
    return out
