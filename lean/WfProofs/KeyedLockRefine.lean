import WfModel.KeyedLockSpec
import WfProofs.KeyedLockGlobal
/-! M6 refines the FIFO ticket lock of `WfModel/KeyedLockSpec.lean`. -/
namespace KeyedLock
open GenKeyedLock

theorem c25x_tfind_map (a : Nat) (ws : List (Nat × Fut)) : tfind a (ws.map absW) = (findW a ws).map Fut.abs := by
  induction ws with
  | nil => rfl
  | cons w r ih => simp only [List.map_cons, tfind, findW, absW]; split <;> simp [ih, absW]

theorem c25x_tremove_map (a : Nat) (ws : List (Nat × Fut)) : tremove a (ws.map absW) = (removeW a ws).map absW := by
  induction ws with
  | nil => rfl
  | cons w r ih => simp only [List.map_cons, tremove, removeW, absW]; split <;> simp [ih, absW]

theorem c25x_tset_map (a : Nat) (f : Fut) (ws : List (Nat × Fut)) :
    tset a f.abs (ws.map absW) = (setW a f ws).map absW := by
  induction ws with
  | nil => rfl
  | cons w r ih => simp only [List.map_cons, tset, setW, absW]; split <;> simp [ih, absW]

theorem c25x_map_wakeFirst (ws : List (Nat × Fut)) : (wakeFirst ws).map absW = ws.map absW := by
  unfold wakeFirst; split <;> simp [absW, Fut.abs]

theorem c25x_all_map (ws : List (Nat × Fut)) :
    (ws.map absW).all (fun w => w.2 == TW.cancelled) = ws.all (fun w => w.2.futCancelled) := by
  induction ws with
  | nil => rfl
  | cons w r ih =>
    simp only [List.map_cons, List.all_cons, ih]
    congr 1
    obtain ⟨b, f⟩ := w
    cases f <;> rfl

theorem c25x_thead_of_find {a : Nat} {f : Fut} {ws : List (Nat × Fut)} (h : findW a ws = some f)
    (ht : thead a (ws.map absW) = true) : ∃ r, ws = (a, f) :: r := by
  cases ws with
  | nil => simp [findW] at h
  | cons w r =>
    obtain ⟨b, g⟩ := w
    simp [thead, absW] at ht
    subst ht
    simp [findW] at h
    subst h
    exact ⟨r, rfl⟩

/-- a pending waiter is never entitled: it is not the head, or somebody holds the lock -/
theorem c25x_pending_not_entitled {l : Lock} {n : Int} {ins : List Nat} {a : Nat}
    (hl : LInv ⟨some l, some n, ins⟩ l) (hf : findW a l.waiters = some .pending) :
    (absK ⟨some l, some n, ins⟩).entitled a = false := by
  apply Bool.eq_false_iff.mpr
  intro he
  simp only [TSt.entitled, absK, Bool.and_eq_true] at he
  obtain ⟨r, hws⟩ := c25x_thead_of_find hf he.2
  have hm := hl.mutex; simp only at hm
  have hins : ins = [] := by cases ins <;> simp at he <;> rfl
  have hlk : l.locked = false := by
    cases h : l.locked
    · rfl
    · simp [h, hins] at hm
  exact (hl.head (a, .pending) (by simp [hws])).2 hlk rfl

/-- a woken waiter is entitled: it is the head and nobody holds the lock -/
theorem c25x_woken_entitled {l : Lock} {n : Int} {ins : List Nat} {a : Nat} {f : Fut}
    (hl : LInv ⟨some l, some n, ins⟩ l) (hf : findW a l.waiters = some f) (hw : f.isWoken = true) :
    ins = [] ∧ l.locked = false ∧ ∃ r, l.waiters = (a, f) :: r := by
  obtain ⟨r, hws⟩ := woken_is_head hl.tail hf hw
  have hlk : l.locked = false := (hl.head (a, f) (by simp [hws])).1 hw
  have hm := hl.mutex; simp only [hlk] at hm
  exact ⟨List.eq_nil_of_length_eq_zero (by simpa using hm), hlk, r, hws⟩

/-- Every action of the implementation model, in an invariant state, is the same action
of the ticket lock on the abstracted state; it is enabled in one iff in the other. -/
theorem c25x_refines_step {st : KeySt} (x : KAct) (hi : Inv st) :
    tstep (absK st) x = (match kstep false st x with | .ok st' => some (absK st') | .error _ => none) := by
  rcases Inv.shape hi with hs | ⟨l, ins, hs, hl⟩
  · subst hs
    cases x <;> simp [kstep, present, mainSection, register, acquire, Lock.fastPath, tstep, absK, tfind, refInit, refInc]
  · subst hs
    generalize hn : ((ins.length + l.waiters.length : Nat) : Int) = n at hl
    have hm := hl.mutex; simp only at hm
    have hpos := hl.pos; simp only at hpos
    cases x with
    | exit a =>
      cases hlk : l.locked with
      | false =>
        have hins : ins = [] := List.eq_nil_of_length_eq_zero (by simpa [hlk] using hm)
        subst hins
        simp [kstep, tstep, absK]
      | true =>
        simp only [hlk, if_true] at hm
        match ins, hm with
        | [b], _ =>
          by_cases hb : b = a
          · subst hb
            simp only [kstep, mainSection, deregister_some, hlk]
            simp only [tstep, absK]
            simp
            split
            · rename_i h0
              have : l.waiters = [] := List.eq_nil_of_length_eq_zero (by simp at hn; omega)
              simp [absK, this]
            · simp [absK, c25x_map_wakeFirst]
          · have hb' : ¬ a = b := fun h => hb h.symm
            simp [kstep, tstep, absK, hb, hb']
    | enter a =>
      have hcont : ins.contains a = (ins.head? == some a) := by
        have : ins.length ≤ 1 := by split at hm <;> omega
        match ins, this with
        | [], _ => simp
        | [b], _ =>
          by_cases h : b = a
          · simp [h]
          · have : ¬ a = b := fun h' => h h'.symm
            simp [h, this]
      have hlk : l.locked = !ins.head?.isNone := by
        cases h : l.locked <;> simp only [h, if_true, Bool.false_eq_true, if_false] at hm
        · have := List.eq_nil_of_length_eq_zero hm; subst this; rfl
        · match ins, hm with
          | [b], _ => rfl
      by_cases hp : present a ⟨some l, some n, ins⟩ = true
      · have hp' := hp
        simp only [present, hcont] at hp'
        simp only [kstep, hp, if_true, tstep, absK, c25x_tfind_map]
        simp only [Option.isSome_map, hp', if_true]
      · have hp' := hp
        simp only [present, hcont] at hp'
        simp only [kstep, hp, if_false, Bool.false_eq_true, mainSection, register, acquire, refInc,
          tstep, absK, c25x_tfind_map, Option.isSome_map, hp', Lock.fastPath, hlk, c25x_all_map, Bool.not_not]
        split
        · rename_i hfp
          have hnil : ins = [] := by
            cases ins with
            | nil => rfl
            | cons b r => simp at hfp
          subst hnil; simp
        · simp [absW, Fut.abs]
    | cancel a =>
      simp only [kstep, tstep, absK, c25x_tfind_map]
      cases hf : findW a l.waiters with
      | none => simp
      | some f =>
        cases f with
        | pending =>
          have hne := c25x_pending_not_entitled hl hf
          simp only [absK] at hne
          simp only [Option.map_some, Fut.abs, hne]
          simp [← c25x_tset_map, Fut.abs]
        | woken =>
          obtain ⟨hins, hlk, r, hws⟩ := c25x_woken_entitled hl hf rfl
          have he : (absK ⟨some l, some n, ins⟩).entitled a = true := by
            simp [TSt.entitled, absK, hins, hws, thead, absW]
          simp only [absK] at he
          simp only [Option.map_some, Fut.abs, he]
          simp [← c25x_tset_map, Fut.abs]
        | cancelled => simp [Fut.abs]
        | wokenCancelled => simp [Fut.abs]
    | resume a =>
      have hcanc : ∀ f, findW a l.waiters = some f → (f = .cancelled ∨ f = .wokenCancelled) →
          (match (mainSection false (deregister ⟨some ⟨l.locked, if l.locked then removeW a l.waiters
              else wakeFirst (removeW a l.waiters)⟩, some n, ins⟩) : Except Err KeySt) with
            | .ok st' => some (absK st') | .error _ => none) =
          some ⟨ins.head?, (removeW a l.waiters).map absW⟩ := by
        intro f hf _
        have hlen := length_removeW hf
        simp only [mainSection, Bool.false_eq_true, if_false, deregister_some]
        split
        · rename_i h0
          have : removeW a l.waiters = [] := List.eq_nil_of_length_eq_zero (by omega)
          simp [absK, this]
        · simp only [absK]
          split <;> simp [c25x_map_wakeFirst]
      simp only [kstep, tstep, c25x_tfind_map]
      cases hf : findW a l.waiters with
      | none => simp [absK, c25x_tfind_map, hf]
      | some f =>
        cases f with
        | pending =>
          have hne := c25x_pending_not_entitled hl hf
          simp only [absK] at hne
          simp [absK, c25x_tfind_map, hf, Fut.abs, hne]
        | woken =>
          obtain ⟨hins, hlk, r, hws⟩ := c25x_woken_entitled hl hf rfl
          subst hins
          have he : (absK ⟨some l, some n, []⟩).entitled a = true := by
            simp [TSt.entitled, absK, hws, thead, absW]
          simp only [absK, List.head?_nil] at he
          simp [absK, c25x_tfind_map, hf, Fut.abs, he, c25x_tremove_map]
        | cancelled =>
          have := hcanc _ hf (Or.inl rfl)
          simp only [absK] at this
          simp only [absK, c25x_tfind_map, hf, Option.map_some, Fut.abs]
          rw [this]; simp [c25x_tremove_map]
        | wokenCancelled =>
          have := hcanc _ hf (Or.inr rfl)
          simp only [absK] at this
          simp only [absK, c25x_tfind_map, hf, Option.map_some, Fut.abs]
          rw [this]; simp [c25x_tremove_map]

theorem c25x_refines_kstepD {st : KeySt} (x : KAct) (hi : Inv st) :
    absK (kstepD st x) = tstepD (absK st) x := by
  have h := c25x_refines_step x hi
  unfold kstepD tstepD
  rw [h]
  cases kstep false st x <;> rfl

theorem c25x_refines_stepD {s : KL} (x : Act) (k : Nat) (hg : GInv s) :
    absK ((stepD s x).slot k) = if x.key == k then tstepD (absK (s.slot k)) x.act else absK (s.slot k) := by
  by_cases hk : x.key = k
  · subst hk
    rw [stepD_slot s x hg.1, c25x_refines_kstepD _ (hg.2 _).1]; simp
  · rw [stepD_frame s x (fun h => hk h.symm)]
    simp [hk]

theorem c25x_refines_run {s : KL} (acts : List Act) (k : Nat) (hg : GInv s) :
    absK ((run acts s).slot k) =
      ((acts.filter fun x => x.key == k).map (·.act)).foldl tstepD (absK (s.slot k)) := by
  induction acts generalizing s with
  | nil => rfl
  | cons x xs ih =>
    rw [run_cons, ih (ginv_stepD x hg), c25x_refines_stepD x k hg]
    by_cases hk : (x.key == k) = true
    · simp [List.filter, hk]
    · simp [List.filter, hk]

end KeyedLock
