import WfModel.GenVersion
/-!
M15 — release-tooling versions (`src/dev_cli/changesets.py`:
`semver_to_pep440`, `pep440_to_semver`, `is_rc_version`;
`src/dev_cli/versioning.py`: `detect_change_type`; and the part of
`packaging.version.Version` those functions go through: parsing, `release`, `pre`,
`__str__`, the comparison key).

Strings are `List Char` (Unicode code points).  A structured version `Ver` is a
release tuple of any length plus an optional `a`/`b`/`rc` pre-release number --
exactly what the property quantifies over.  `parsePep` transcribes the PEP 440
pattern of the installed `packaging` restricted to the syntax `v? release pre?`
(every spelling: `alpha`, `c`, `pre`, `preview`, upper case, `.`/`-`/`_`
separators, missing number, surrounding white space, leading zeros).  A string that
is not of that shape -- either invalid, or using an epoch / post / dev / local
segment, which the property does not quantify over -- is answered `outside`
explicitly; the correspondence harness classifies the implementation's behaviour
the same way (exception, or one of those segments present).

`semverToPep` is total: it transcribes `_SEMVER_PRERELEASE_RE.match` on any string,
including CPython's Unicode `\d` (table regenerated from the runtime) and `$`
matching before a final newline.

The label set, the character tables, the pre-release spellings and ranks come from
`Gen.Version` (regenerated on every run).
-/
namespace Version

/-! ## characters -/

/-- `[0-9]` -/
def isDig (c : Char) : Bool := decide (48 ≤ c.toNat) && decide (c.toNat ≤ 57)
/-- `[a-zA-Z]` -/
def isLetter (c : Char) : Bool :=
  (decide (65 ≤ c.toNat) && decide (c.toNat ≤ 90)) || (decide (97 ≤ c.toNat) && decide (c.toNat ≤ 122))
/-- `\s` of a `str` pattern -/
def isSpace (c : Char) : Bool := Gen.Version.spaceChars.contains c.toNat
/-- `\d` of a `str` pattern (Unicode decimal digits) -/
def isDecimal (c : Char) : Bool := Gen.Version.decimalRanges.any fun r => decide (r.1 ≤ c.toNat) && decide (c.toNat ≤ r.2)
/-- `[._-]` -/
def isSep (c : Char) : Bool := c == '.' || c == '_' || c == '-'
/-- ASCII lower-casing of a code point (`re.IGNORECASE` under `(?a:…)`) -/
def lowerNat (n : Nat) : Nat := if 65 ≤ n ∧ n ≤ 90 then n + 32 else n
/-- does input character `c` match the lower-case pattern letter `w` ignoring ASCII case? -/
def eqCI (w c : Char) : Bool := lowerNat c.toNat == w.toNat

/-! ## structured versions and their two spellings -/

inductive Label | a | b | rc
deriving DecidableEq, Repr

def Label.chars : Label → List Char
  | .a => ['a']
  | .b => ['b']
  | .rc => ['r', 'c']

def Label.ofChars (cs : List Char) : Option Label :=
  if cs = ['a'] then some .a else if cs = ['b'] then some .b else if cs = ['r', 'c'] then some .rc else none

/-- `_PRE_RANK` -/
def Label.rank : Label → Nat
  | .a => 0
  | .b => 1
  | .rc => 2

structure Ver where
  release : List Nat
  pre : Option (Label × Nat)
deriving DecidableEq, Repr

/-- `str(int)` -/
def natDigits (n : Nat) : List Char := Nat.toDigits 10 n
/-- `int(str)` on ASCII digits (leading zeros allowed; `""` ↦ 0 as in `int(number or 0)`) -/
def digitsVal (ds : List Char) : Nat := Nat.ofDigitChars 10 ds 0

def dotTail : List (List Char) → List Char
  | [] => []
  | x :: xs => '.' :: x ++ dotTail xs

/-- `".".join(parts)` -/
def joinDot : List (List Char) → List Char
  | [] => []
  | x :: xs => x ++ dotTail xs

def showRelease (r : List Nat) : List Char := joinDot (r.map natDigits)

/-- `str(Version)` for release + pre -/
def showPep (v : Ver) : List Char :=
  showRelease v.release ++ match v.pre with
    | none => []
    | some (l, n) => l.chars ++ natDigits n

/-- what `pep440_to_semver` prints: `f"{base}-{label}.{num}"` or `base` -/
def showSemver (v : Ver) : List Char :=
  showRelease v.release ++ match v.pre with
    | none => []
    | some (l, n) => '-' :: l.chars ++ '.' :: natDigits n

/-! ## scanning `D+(?:\.D+)*` greedily (possessive in packaging, followed by a
character that cannot continue it in the semver regex) -/

/-- State: finished components `acc`, current non-empty run `cur`, `dot` = a `.`
has been read whose continuation is not yet known. -/
def scanGo (isD : Char → Bool) : List Char → Bool → List (List Char) → List Char → List (List Char) × List Char
  | [], dot, acc, cur => (acc ++ [cur], if dot then ['.'] else [])
  | c :: cs, false, acc, cur =>
    if isD c then scanGo isD cs false acc (cur ++ [c])
    else if c = '.' then scanGo isD cs true acc cur
    else (acc ++ [cur], c :: cs)
  | c :: cs, true, acc, cur =>
    if isD c then scanGo isD cs false (acc ++ [cur]) [c]
    else (acc ++ [cur], '.' :: c :: cs)

/-- components (as digit strings) and the unread rest; `none` when the input does
not start with a digit -/
def scanRel (isD : Char → Bool) : List Char → Option (List (List Char) × List Char)
  | [] => none
  | c :: cs => if isD c then some (scanGo isD cs false [] [c]) else none

/-! ## `packaging.version.Version(s)` restricted to `v? release pre?` -/

def stripSpace (s : List Char) : List Char :=
  ((s.dropWhile isSpace).reverse.dropWhile isSpace).reverse

/-- `v?+` (case-insensitive) -/
def dropV : List Char → List Char
  | [] => []
  | c :: cs => if eqCI 'v' c then cs else c :: cs

/-- `[._-]?+` -/
def dropSep : List Char → List Char
  | [] => []
  | c :: cs => if isSep c then cs else c :: cs

/-- pattern word `w` (lower case) as a case-insensitive prefix of the input -/
def stripPrefixCI : List Char → List Char → Option (List Char)
  | [], s => some s
  | _ :: _, [] => none
  | w :: ws, c :: cs => if eqCI w c then stripPrefixCI ws cs else none

/-- `(?P<pre_l>alpha|a|beta|b|preview|pre|c|rc)`: the first alternative, in the
pattern's order, that is a prefix; normalised by `_LETTER_NORMALIZATION`.  (The
enclosing group is possessive, so no other alternative is tried afterwards.) -/
def matchLabel (s : List Char) : Option (Label × List Char) :=
  Gen.Version.preAlts.findSome? fun alt =>
    match stripPrefixCI alt.1 s, Label.ofChars alt.2 with
    | some rest, some l => some (l, rest)
    | _, _ => none

/-- the optional pre-release group followed by the end of the string.
`none` = not of this shape; `some none` = no pre-release. -/
def parsePre (s : List Char) : Option (Option (Label × Nat)) :=
  match s with
  | [] => some none
  | _ :: _ =>
    match matchLabel (dropSep s) with
    | none => none
    | some (l, rest) =>
      let num := dropSep rest
      if num.all isDig then some (some (l, digitsVal num)) else none

def parsePep (s : List Char) : Option Ver :=
  match scanRel isDig (dropV (stripSpace s)) with
  | none => none
  | some (comps, rest) =>
    match parsePre rest with
    | none => none
    | some pre => some { release := comps.map digitsVal, pre := pre }

/-! ## the two conversions -/

inductive Res
  | ok (s : List Char)
  /-- `ValueError("Unsupported pre-release label …")` -/
  | labelError
  /-- `InvalidVersion`, or a version with epoch / post / dev / local segment -/
  | outside
deriving DecidableEq, Repr

/-- `pep440_to_semver` -/
def pepToSemver (s : List Char) : Res :=
  match parsePep s with
  | some v => .ok (showSemver v)
  | none => .outside

/-- `str(Version(s))` — "the normalized original" -/
def normalize (s : List Char) : Res :=
  match parsePep s with
  | some v => .ok (showPep v)
  | none => .outside

/-- `_SEMVER_PRERELEASE_RE.match(s)` = `^(\d+(?:\.\d+)*)-([a-zA-Z]+)\.(\d+)$`:
the three groups.  Every quantifier is followed by a character outside its own
class, so the greedy match is the only candidate; `$` also matches before a final
newline. -/
def semverMatch (s : List Char) : Option (List Char × List Char × List Char) :=
  match scanRel isDecimal s with
  | some (comps, '-' :: r1) =>
    let label := r1.takeWhile isLetter
    match label, r1.dropWhile isLetter with
    | _ :: _, '.' :: r3 =>
      let num := r3.takeWhile isDecimal
      let r4 := r3.dropWhile isDecimal
      if num ≠ [] ∧ (r4 = [] ∨ r4 = ['\n']) then some (joinDot comps, label, num) else none
    | _, _ => none
  | _ => none

/-- `semver_to_pep440` -/
def semverToPep (s : List Char) : Res :=
  match semverMatch s with
  | none => .ok s
  | some (base, label, num) =>
    if Gen.Version.labels.contains label then .ok (base ++ label ++ num) else .labelError

/-! ## `is_rc_version`: `re.search(r"(-rc|-a|-b|rc\d|a\d|b\d)", s)` -/

def digitAfter (w s : List Char) : Bool :=
  w.isPrefixOf s && match s.drop w.length with
    | d :: _ => isDecimal d
    | [] => false

def rcAt (s : List Char) : Bool :=
  ['-', 'r', 'c'].isPrefixOf s || ['-', 'a'].isPrefixOf s || ['-', 'b'].isPrefixOf s ||
  digitAfter ['r', 'c'] s || digitAfter ['a'] s || digitAfter ['b'] s

def isRc : List Char → Bool
  | [] => false
  | c :: cs => rcAt (c :: cs) || isRc cs

/-! ## comparison (`Version.__le__` through `_cmpkey`) -/

/-- trailing zeros stripped -/
def trimZeros : List Nat → List Nat
  | [] => []
  | a :: as => if a = 0 ∧ trimZeros as = [] then [] else a :: trimZeros as

/-- Python `<=` on tuples of ints: the first differing position decides, otherwise
the shorter tuple is the smaller. -/
def tupleLe : List Nat → List Nat → Bool
  | [], _ => true
  | _ :: _, [] => false
  | a :: as, b :: bs => if a = b then tupleLe as bs else decide (a < b)

/-- `(pre_rank, pre_n)`; the rest of the suffix is the constant `(0, 0, 1, 0)` and
the epoch is 0 for the versions modelled here -/
def preKey : Option (Label × Nat) → Nat × Nat
  | none => (Gen.Version.preRankStable, 0)
  | some (l, n) => (l.rank, n)

/-- `a._key <= b._key` -/
def verLe (a b : Ver) : Bool :=
  let ra := trimZeros a.release
  let rb := trimZeros b.release
  if ra ≠ rb then tupleLe ra rb
  else if (preKey a.pre).1 ≠ (preKey b.pre).1 then decide ((preKey a.pre).1 < (preKey b.pre).1)
  else decide ((preKey a.pre).2 ≤ (preKey b.pre).2)

/-! ## the PEP 440 order, stated independently of the key construction
(component-wise on the release with missing components read as 0; then a
pre-release before the final release, `a < b < rc`, then the number).  Used as the
specification in the theorems and exposed to the correspondence as `cmp`. -/

def relCmp : List Nat → List Nat → Ordering
  | [], bs => if bs.all (· == 0) then .eq else .lt
  | a :: as, [] => if a = 0 ∧ as.all (· == 0) then .eq else .gt
  | a :: as, b :: bs => if a = b then relCmp as bs else if a < b then .lt else .gt

def preCmp (x y : Option (Label × Nat)) : Ordering :=
  if (preKey x).1 < (preKey y).1 then .lt
  else if (preKey x).1 > (preKey y).1 then .gt
  else if (preKey x).2 < (preKey y).2 then .lt
  else if (preKey x).2 > (preKey y).2 then .gt
  else .eq

def verCmp (a b : Ver) : Ordering :=
  match relCmp a.release b.release with
  | .eq => preCmp a.pre b.pre
  | o => o

/-! ## `detect_change_type` -/

inductive Change | none | major | minor | patch
deriving DecidableEq, Repr

/-- `(release + (0, 0, 0))[:3]` -/
def pad3 (r : List Nat) : List Nat := (r ++ [0, 0, 0]).take 3

def classify (c p : Ver) : Change :=
  if verLe c p then .none
  else if (pad3 c.release).getD 0 0 > (pad3 p.release).getD 0 0 then .major
  else if (pad3 c.release).getD 1 0 > (pad3 p.release).getD 1 0 then .minor
  else if (pad3 c.release).getD 2 0 > (pad3 p.release).getD 2 0 then .patch
  else .minor

inductive DRes
  | ok (c : Change)
  | outside
deriving DecidableEq, Repr

/-- `detect_change_type(current_version, previous_version)`; `prev = none` is
Python's `None`. -/
def detect (cur : List Char) (prev : Option (List Char)) : DRes :=
  match prev with
  | none => .ok .major
  | some p =>
    if p = [] then .ok .major
    else match parsePep cur, parsePep p with
      | some c, some q => .ok (classify c q)
      | _, _ => .outside

end Version
