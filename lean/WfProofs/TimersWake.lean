import WfModel.Runner
import WfProofs.RunnerTicks
/-!
C14 — the timer heap inside one incarnation of the control loop: what `next_wakeup_timeout` tells the loop to sleep
until (`Runner.nextWakeup` = the earliest entry, `minAt`) and what `pop_due_ticks` takes out (`Act.timer`).
A pending retry / waiter timeout can only "still take effect" if the loop it lives in wakes up for it.
-/
set_option linter.unusedVariables false

namespace Engine

theorem minAt_none {l : List Timer} : minAt l = none ↔ l = [] := by
  cases l with
  | nil => simp [minAt]
  | cons t ts =>
    simp only [minAt]
    cases minAt ts <;> simp

theorem minAt_mem : ∀ {l : List Timer} {m : Int}, minAt l = some m → ∃ t, t ∈ l ∧ t.at_ = m := by
  intro l
  induction l with
  | nil => intro m h; simp [minAt] at h
  | cons t ts ih =>
    intro m h
    simp only [minAt] at h
    cases hm : minAt ts with
    | none =>
      rw [hm] at h
      simp only [Option.some.injEq] at h
      exact ⟨t, List.mem_cons_self, h⟩
    | some m' =>
      rw [hm] at h
      simp only [Option.some.injEq] at h
      by_cases hle : t.at_ ≤ m'
      · rw [if_pos hle] at h
        exact ⟨t, List.mem_cons_self, h⟩
      · rw [if_neg hle] at h
        obtain ⟨u, hu, hue⟩ := ih hm
        exact ⟨u, List.mem_cons_of_mem _ hu, by omega⟩

theorem minAt_le : ∀ {l : List Timer} {m : Int}, minAt l = some m → ∀ t, t ∈ l → m ≤ t.at_ := by
  intro l
  induction l with
  | nil => intro m h; simp [minAt] at h
  | cons t ts ih =>
    intro m h u hu
    simp only [minAt] at h
    cases hm : minAt ts with
    | none =>
      rw [hm] at h
      simp only [Option.some.injEq] at h
      have : ts = [] := minAt_none.mp hm
      subst this
      simp only [List.mem_cons, List.not_mem_nil, or_false] at hu
      subst hu
      omega
    | some m' =>
      rw [hm] at h
      simp only [Option.some.injEq] at h
      have hrest := ih hm
      rcases List.mem_cons.mp hu with rfl | hu'
      · by_cases hle : u.at_ ≤ m'
        · rw [if_pos hle] at h; omega
        · rw [if_neg hle] at h; omega
      · have := hrest u hu'
        by_cases hle : t.at_ ≤ m'
        · rw [if_pos hle] at h; omega
        · rw [if_neg hle] at h; omega

/-- the `timer` action on a loop that is waiting (empty buffer, not ended) -/
theorem step_timer_eq (cfg : Cfg) (pol : Policy) (r : Runner) (hb : r.buf = []) (ho : r.outcome = none) :
    r.step cfg pol .timer =
      { r with buf := (sortTimers (r.heap.filter (fun t => t.at_ ≤ r.now))).map (·.tick),
               heap := r.heap.filter (fun t => !(t.at_ ≤ r.now)) } := by
  simp [Runner.step, ho, hb]

theorem step_advance_eq (cfg : Cfg) (pol : Policy) (r : Runner) (dt : Nat) (ho : r.outcome = none) :
    r.step cfg pol (.advance dt) = { r with now := r.now + dt } := by
  simp [Runner.step, ho]

theorem mem_sortTimers_iff {t : Timer} {l : List Timer} : t ∈ sortTimers l ↔ t ∈ l :=
  (sortTimers_perm l).mem_iff

/-- one round of a control loop that has nothing else to do: sleep until `next_wakeup_timeout` expires, then
`pop_due_ticks` -/
def Runner.sleepAndFire (cfg : Cfg) (pol : Policy) (r : Runner) : Runner :=
  match r.nextWakeup with
  | none => r
  | some w => (r.step cfg pol (.advance (w - r.now).toNat)).step cfg pol .timer

end Engine
