"""C05: one failed execution, ONE successor.

`_process_step_result_tick` must not let one result list both leave its execution in progress (a stale `collect_events`
snapshot: `CommandRunWorker` for the same worker, same retry number) and queue a retry of it (`CommandQueueEvent(delay=…,
attempts+1)`): the invocation would continue twice and run beyond its retry budget while the failure report keeps saying
`attempts = n`.  Theorems: `C05_failed_execution_one_successor` (the reducer as it is), the reducer before the repair in
`C05_refuted_failed_execution_one_successor_unrepaired` / `C05_fork_run_exceeds_budget_unrepaired`.

`mon_fork` states it on the real reducer's calls of every live run (signature
`C05/failed_execution_forked:collect_rerun_and_retry`); the regression case is
`harness/corpus/c05_collect_rerun_forks_retry.json`, and `budget_after_reruns` adds, for collecting steps, the count that
the forked lineages broke: failed executions that were NOT followed by an in-place re-run are numbered by the engine
1, 2, … without repetition and never exceed the policy's budget.
"""
from __future__ import annotations

from workflows.runtime.types import commands as C
from workflows.runtime.types import results as R
from workflows.runtime.types import ticks as T

from ..runner import Violation
from . import monitors
from .live import Trace


def fork_ticks(tr: Trace) -> list[int]:
    """indices of the reducer calls whose tick is a step result with a failure that is both re-run in place and retried"""
    hits = []
    for i, c in enumerate(tr.calls):
        if c.caller not in ("run", "_process_tick") or c.error is not None or not isinstance(c.tick, T.TickStepResult):
            continue
        if not any(isinstance(r, R.StepWorkerFailed) for r in c.tick.result):
            continue
        rerun = any(isinstance(x, C.CommandRunWorker) and x.step_name == c.tick.step_name and x.id == c.tick.worker_id and
                    x.event is c.tick.event for x in c.cmds)
        retry = any(isinstance(x, C.CommandQueueEvent) and x.delay is not None and x.attempts for x in c.cmds)
        if rerun and retry:
            hits.append(i)
    return hits


def mon_fork(tr: Trace) -> list[Violation]:
    out: list[Violation] = []
    hits = fork_ticks(tr)
    if hits:
        c = tr.calls[hits[0]]
        uid = getattr(c.tick.event, "uid", None)
        out.append(Violation("C05/failed_execution_forked:collect_rerun_and_retry",
                             f"{c.tick.step_name} uid={uid}: one step result ({[type(r).__name__ for r in c.tick.result]}) both scheduled the invocation to run "
                             f"again on a refreshed collect_events snapshot (same retry number) and queued retry "
                             f"{[x.attempts for x in c.cmds if isinstance(x, C.CommandQueueEvent) and x.delay is not None]} of it "
                             f"({len(hits)} such tick(s) in this run): the input event continues twice and runs beyond its retry budget", monitors._replay(tr)))
    # the count the fork broke, on collecting steps (which mon_c05's budget rule leaves out): retries the reducer hands out for
    # one input event carry the numbers 1, 2, … each at most once, and none beyond the budget
    sdefs = {s["name"]: s for s in tr.spec["steps"]}
    seen: dict[tuple, list[int]] = {}
    for c in tr.calls:
        if c.caller not in ("run", "_process_tick") or c.error is not None or not isinstance(c.tick, T.TickStepResult):
            continue
        for x in c.cmds:
            if isinstance(x, C.CommandQueueEvent) and x.delay is not None and x.attempts:
                seen.setdefault((c.tick.step_name, repr(getattr(c.tick.event, "uid", None))), []).append(x.attempts)
    for (step, uid), nums in seen.items():
        sd = sdefs.get(step)
        if sd is None or tr.spec.get("eq_events") or tr.spec.get("_resumed") or tr.spec.get("same_uid_sends"):
            continue
        if not any(a[0] == "collect" for a in sd["script"]) or any(a[0] == "wait" for a in sd["script"]):
            continue
        budget = monitors._budget(sd.get("retry"))
        if len(set(nums)) != len(nums) and not hits:
            out.append(Violation("C05/retry_number_granted_twice:collecting_step", f"{step} uid={uid}: retries granted with numbers {nums}", monitors._replay(tr)))
        elif budget is not None and nums and max(nums) >= budget and not hits:
            out.append(Violation("C05/retry_beyond_budget:collecting_step", f"{step} uid={uid}: retry numbers {nums} under a budget of {budget} executions", monitors._replay(tr)))
    return out
