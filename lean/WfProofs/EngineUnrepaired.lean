import WfModel.Runner
/-!
The reducer **before** the repair "a step result schedules at most one collect_events
re-run of its invocation" (`_process_step_result_tick`: `if not step_no_longer_in_progress:
continue` at the head of the `AddCollectedEvent` branch), kept as a variant so that
`WfProps/C01.lean` can state what the repair prevents.

Only `applyRes` differs, and only on `addCollected` when a re-run is already scheduled in
the same tick.  The functions above it (`processStepResult`, `reduce`, `Runner.step`,
`Runner.run`) are re-stated with the changed part as a parameter; instantiating the
parameter with the model's own function gives back the model definitionally (`rfl`), so
the copies cannot drift.
-/
namespace Engine

/-- `applyRes` as it was: an `AddCollectedEvent` is compared against the snapshot even when an
earlier result of the same tick already scheduled a re-run (and refreshed the snapshot) -/
def applyResUnrepaired (cfg : Cfg) (pol : Policy) (step : Nat) (tickEv : Ev) (didComplete : Bool)
    (acc : ResAcc) : Res → ResAcc
  | .addCollected buf ev =>
    let ss := acc.st.workers step
    let coll := ss.collected.touch buf
    let st1 := acc.st.set step { ss with collected := coll }
    if (coll.get buf).length > (acc.exec.snapEvents.get buf).length then
      { acc with
        st := st1, stillInProgress := true,
        exec := { acc.exec with snapEvents := coll },
        cmds := acc.cmds ++ [.runWorker step ev acc.exec.wid] }
    else
      { acc with st := acc.st.set step { ss with collected := coll.append buf ev } }
  | r => applyRes cfg pol step tickEv didComplete acc r

/-- the two agree on every result unless a re-run is already scheduled -/
theorem applyResUnrepaired_eq (cfg : Cfg) (pol : Policy) (step : Nat) (tickEv : Ev) (dc : Bool)
    (acc : ResAcc) (r : Res) (h : acc.stillInProgress = false) :
    applyResUnrepaired cfg pol step tickEv dc acc r = applyRes cfg pol step tickEv dc acc r := by
  cases r <;> simp [applyResUnrepaired, applyRes, h]

/-- `processStepResult` with the per-result function as a parameter -/
def processStepResultWith (cfg : Cfg) (ap : Nat → Ev → Bool → ResAcc → Res → ResAcc)
    (step worker : Nat) (tickEv : Ev) (res : List Res) (st : State) (now : Int) : State × List Cmd :=
  if !cfg.hasStep step then (st, [.crash]) else
  match (st.workers step).inProg.find? (fun w => w.wid == worker) with
  | none => (st, [.crash])
  | some exec =>
    let acc := res.foldl (ap step tickEv (res.any isResult)) { st := st, exec := exec }
    let r1 := settle acc step worker tickEv
    if acc.cmds.any Cmd.isExit then (acc.st.set step r1.1, r1.2)
    else
      let r := drain step (cfg.nw step) now r1.1.queue.length r1.1
      (acc.st.set step r.1, r1.2 ++ r.2)

theorem processStepResultWith_model (cfg : Cfg) (pol : Policy) :
    processStepResultWith cfg (applyRes cfg pol) = processStepResult cfg pol := rfl

/-- `reduce` with the step-result branch as a parameter -/
def reduceWith (cfg : Cfg) (pol : Policy)
    (psr : Nat → Nat → Ev → List Res → State → Int → State × List Cmd)
    (tick : Tick) (st : State) (now : Int) : State × List Cmd :=
  match tick with
  | .stepResult step worker ev res =>
    let r := psr step worker ev res st now
    if checkIdle cfg r.1 then (r.1, r.2 ++ [.scheduleIdleCheck]) else r
  | t => reduce cfg pol t st now

theorem reduceWith_model (cfg : Cfg) (pol : Policy) (tick : Tick) (st : State) (now : Int) :
    reduceWith cfg pol (processStepResult cfg pol) tick st now = reduce cfg pol tick st now := by
  cases tick <;> rfl

/-- `Runner.step` with the reducer as a parameter -/
def Runner.stepWith (red : Tick → State → Int → State × List Cmd) (r : Runner) (a : Act) : Runner :=
  if r.outcome.isSome then r else
  match a with
  | .drain =>
    match r.buf with
    | [] => r
    | t :: rest =>
      let r1 := { r with buf := rest, idlePending := if t = Tick.idleCheck then false else r.idlePending }
      let res := red t r1.st r1.now
      if res.2.contains .crash then r1.finish .crashed
      else execCmds { r1 with st := res.1, log := r1.log ++ [(t, r1.now)] } res.2
  | .workerDone s w res =>
    if !r.buf.isEmpty then r else
    match r.running.find? (fun x => x.step == s && x.wid == w) with
    | none => r
    | some x =>
      let running := r.running.eraseP (fun y => y.step == s && y.wid == w)
      { r with running := if hasStopResult res then [] else running,
               buf := [.stepResult s w x.ev res] }
  | .pull =>
    if !r.buf.isEmpty then r else
    match r.mailbox with
    | [] => r
    | t :: m => { r with buf := [t], mailbox := m }
  | .timer =>
    if !r.buf.isEmpty then r else
    let due := sortTimers (r.heap.filter (fun t => t.at_ ≤ r.now))
    { r with buf := due.map (·.tick), heap := r.heap.filter (fun t => !(t.at_ ≤ r.now)) }
  | .advance dt => { r with now := r.now + dt }
  | .external t => if t.isExternal then { r with mailbox := r.mailbox ++ [t] } else r
  | .stepWrite p => { r with stream := r.stream ++ [p] }

theorem Runner.stepWith_model (cfg : Cfg) (pol : Policy) :
    Runner.stepWith (reduce cfg pol) = Runner.step cfg pol := rfl

/-- the reducer before the repair -/
def reduceUnrepaired (cfg : Cfg) (pol : Policy) : Tick → State → Int → State × List Cmd :=
  reduceWith cfg pol (processStepResultWith cfg (applyResUnrepaired cfg pol))

/-- runs of the runner over the reducer before the repair -/
def Runner.runUnrepaired (cfg : Cfg) (pol : Policy) (r : Runner) (acts : List Act) : Runner :=
  acts.foldl (Runner.stepWith (reduceUnrepaired cfg pol)) r

/-- the same construction over the model's own reducer is the model's `Runner.run` -/
theorem Runner.runWith_model (cfg : Cfg) (pol : Policy) (r : Runner) (acts : List Act) :
    acts.foldl (Runner.stepWith (reduceWith cfg pol (processStepResultWith cfg (applyRes cfg pol)))) r
      = Runner.run cfg pol r acts := by
  have : reduceWith cfg pol (processStepResultWith cfg (applyRes cfg pol)) = reduce cfg pol := by
    funext tick st now
    rw [processStepResultWith_model]; exact reduceWith_model cfg pol tick st now
  rw [this, Runner.stepWith_model]; rfl

end Engine
