import WfModel.Version
import Driver.Util
open Version Drv

namespace Drv.Version

def showRes : Res → String
  | .ok s => "ok " ++ showChars s
  | .labelError => "label-error"
  | .outside => "outside"

def showChange : Change → String
  | .none => "none"
  | .major => "major"
  | .minor => "minor"
  | .patch => "patch"

def showVer (v : Ver) : String :=
  "rel=" ++ ",".intercalate (v.release.map toString) ++ ";pre=" ++
    match v.pre with
    | none => "-"
    | some (l, n) => String.ofList l.chars ++ ":" ++ toString n

def showOrd : Ordering → String
  | .lt => "lt"
  | .eq => "eq"
  | .gt => "gt"

def range (lo hi : Nat) : List Nat := (List.range (hi - lo)).map (· + lo)

def step (_ : Unit) (line : String) : Unit × String :=
  match line.splitOn "|" with
  | ["p2s", s] =>
    match parseChars? s with
    | some cs => ((), showRes (pepToSemver cs))
    | none => ((), "bad-op")
  | ["s2p", s] =>
    match parseChars? s with
    | some cs => ((), showRes (semverToPep cs))
    | none => ((), "bad-op")
  | ["norm", s] =>
    match parseChars? s with
    | some cs => ((), showRes (normalize cs))
    | none => ((), "bad-op")
  | ["parse", s] =>
    match parseChars? s with
    | some cs => ((), match parsePep cs with | some v => showVer v | none => "outside")
    | none => ((), "bad-op")
  | ["isrc", s] =>
    match parseChars? s with
    | some cs => ((), toString (isRc cs))
    | none => ((), "bad-op")
  | ["detect", cur, prev] =>
    let prev? : Option (Option (List Char)) := if prev == "~" then some none else (parseChars? prev).map some
    match parseChars? cur, prev? with
    | some c, some p =>
      match detect c p with
      | .ok ch => ((), showChange ch)
      | .outside => ((), "outside")
    | _, _ => ((), "bad-op")
  | ["le", a, b] =>
    match parseChars? a, parseChars? b with
    | some x, some y =>
      match parsePep x, parsePep y with
      | some v, some w => ((), toString (verLe v w))
      | _, _ => ((), "outside")
    | _, _ => ((), "bad-op")
  | ["cmp", a, b] =>
    match parseChars? a, parseChars? b with
    | some x, some y =>
      match parsePep x, parsePep y with
      | some v, some w => ((), showOrd (verCmp v w))
      | _, _ => ((), "outside")
    | _, _ => ((), "bad-op")
  | ["str", n] =>
    match parseNat? n with
    | some k => ((), showChars (natDigits k))
    | none => ((), "bad-op")
  | ["cls", lo, hi] =>
    match parseNat? lo, parseNat? hi with
    | some l, some h =>
      if l ≤ h ∧ h ≤ 0x110000 then
        let cps := (range l h).filter fun n => Nat.isValidChar n
        let sp := cps.filter fun n => isSpace (Char.ofNat n)
        let de := cps.filter fun n => isDecimal (Char.ofNat n)
        ((), "s:" ++ ",".intercalate (sp.map toString) ++ ";d:" ++ ",".intercalate (de.map toString))
      else ((), "bad-op")
    | _, _ => ((), "bad-op")
  | _ => ((), "bad-op")

end Drv.Version
