"""Tables and control shape of the restart path -> lean/WfModel/GenReplay.lean.

Re-read from /repo's current sources on every run:

* `PersistenceDecorator._on_server_start`: the `HandlerQuery(...)` it issues (status_in, is_idle, workflow filter);
* `handler_status_from_exit_command`: the status string of every `return`, in source order;
* `replay_ticks_stream`: rewinds before the loop, one `_reduce_tick` per tick, no early exit from the loop, the
  classes it remembers as exit commands;
* `_ControlLoopRunner._process_tick`: `adapter.on_tick(tick)` is awaited before the loop that executes the commands;
* `TickPersistenceDecorator.context_from_ticks`: validates the workflow (builds the catch_error tables) before replay.

`WfProps/C13.lean` (`C13_source_shape`) pins these to what the model `WfModel/Replay.lean` does.
"""
from __future__ import annotations

import ast

from ..boot import repo_path

LEAN_MODULE = "GenReplay"
PERSIST = "packages/llama-agents-server/src/llama_agents/server/_runtime/persistence_runtime.py"
LOOP = "packages/llama-index-workflows/src/workflows/runtime/control_loop.py"


def _find_def(tree: ast.AST, name: str, cls: str | None = None) -> ast.AST | None:
    for n in ast.walk(tree):
        if cls is not None:
            if isinstance(n, ast.ClassDef) and n.name == cls:
                for f in n.body:
                    if isinstance(f, (ast.FunctionDef, ast.AsyncFunctionDef)) and f.name == name:
                        return f
        elif isinstance(n, (ast.FunctionDef, ast.AsyncFunctionDef)) and n.name == name:
            return n
    return None


def _lstr(xs: list[str]) -> str:
    return "[" + ", ".join('"%s"' % x for x in xs) + "]"


def _call_name(n: ast.AST) -> str | None:
    if isinstance(n, ast.Call):
        f = n.func
        if isinstance(f, ast.Name):
            return f.id
        if isinstance(f, ast.Attribute):
            return f.attr
    return None


def extract(notes: list[str]) -> dict:
    res: dict = {"startStatusIn": ["<missing>"], "startIsIdle": "none", "startFiltersWorkflow": False,
                 "exitStatuses": ["<missing>"], "exitClasses": ["<missing>"], "replayRewindsFirst": False,
                 "replayReducesPerTick": 999, "replayLoopHasEarlyExit": True, "persistBeforeCommands": False,
                 "validatesBeforeReplay": False}
    try:
        ptree = ast.parse(open(repo_path(PERSIST)).read())
        ltree = ast.parse(open(repo_path(LOOP)).read())
    except (OSError, SyntaxError) as e:
        notes.append(f"gen/replay: cannot parse sources: {e!r}")
        return res
    # ---- _on_server_start's query
    fn = _find_def(ptree, "_on_server_start", "PersistenceDecorator")
    if fn is None:
        notes.append("gen/replay: PersistenceDecorator._on_server_start not found")
    else:
        q = next((c for c in ast.walk(fn) if _call_name(c) == "HandlerQuery"), None)
        if q is None:
            notes.append("gen/replay: no HandlerQuery(...) in _on_server_start")
        else:
            res["startStatusIn"] = []
            res["startIsIdle"] = "none"
            for kw in q.keywords:
                if kw.arg == "status_in" and isinstance(kw.value, ast.List):
                    res["startStatusIn"] = [e.value for e in kw.value.elts if isinstance(e, ast.Constant) and isinstance(e.value, str)]
                elif kw.arg == "is_idle" and isinstance(kw.value, ast.Constant):
                    res["startIsIdle"] = {True: "some true", False: "some false", None: "none"}.get(kw.value.value, "none")
                elif kw.arg == "workflow_name_in":
                    res["startFiltersWorkflow"] = True
    # ---- handler_status_from_exit_command
    fn = _find_def(ptree, "handler_status_from_exit_command")
    if fn is None:
        notes.append("gen/replay: handler_status_from_exit_command not found")
    else:
        sts: list[str] = []
        rets = sorted((n for n in ast.walk(fn) if isinstance(n, ast.Return)), key=lambda n: (n.lineno, n.col_offset))
        for r in rets:
            v = r.value
            if v is None or (isinstance(v, ast.Constant) and v.value is None):
                sts.append("none")
            elif isinstance(v, ast.Tuple) and v.elts and isinstance(v.elts[0], ast.Constant) and isinstance(v.elts[0].value, str):
                sts.append(v.elts[0].value)
            else:
                sts.append("<other>")
        res["exitStatuses"] = sts
    # ---- context_from_ticks validates first
    fn = _find_def(ptree, "context_from_ticks", "TickPersistenceDecorator")
    if fn is None:
        notes.append("gen/replay: TickPersistenceDecorator.context_from_ticks not found")
    else:
        val = [n.lineno for n in ast.walk(fn) if _call_name(n) in ("_validate", "validate")]
        rep = [n.lineno for n in ast.walk(fn) if _call_name(n) in ("replay_ticks_stream", "from_workflow", "from_serialized")]
        res["validatesBeforeReplay"] = bool(val) and bool(rep) and min(val) < min(rep)
    # ---- replay_ticks_stream
    fn = _find_def(ltree, "replay_ticks_stream")
    if fn is None:
        notes.append("gen/replay: replay_ticks_stream not found")
    else:
        loop = next((n for n in fn.body if isinstance(n, (ast.AsyncFor, ast.For))), None)
        if loop is None:
            notes.append("gen/replay: replay_ticks_stream has no top-level loop over the ticks")
        else:
            before = [n for n in fn.body if n.lineno < loop.lineno]
            res["replayRewindsFirst"] = any(_call_name(c) == "rewind_in_progress" for b in before for c in ast.walk(b))
            res["replayReducesPerTick"] = sum(1 for c in ast.walk(loop) if _call_name(c) == "_reduce_tick")
            res["replayLoopHasEarlyExit"] = any(isinstance(c, (ast.Break, ast.Return, ast.Continue)) for c in ast.walk(loop))
            classes: list[str] = []
            for c in ast.walk(loop):
                if _call_name(c) == "isinstance" and len(c.args) == 2:
                    a = c.args[1]
                    elts = a.elts if isinstance(a, ast.Tuple) else [a]
                    classes += [e.id for e in elts if isinstance(e, ast.Name)]
                elif _call_name(c) == "indicates_exit":
                    classes += ["CommandCompleteRun", "CommandFailWorkflow", "CommandHalt"]
            res["exitClasses"] = sorted(set(classes))
    # ---- _process_tick: persist before executing the commands
    fn = _find_def(ltree, "_process_tick", "_ControlLoopRunner")
    if fn is None:
        notes.append("gen/replay: _ControlLoopRunner._process_tick not found")
    else:
        on_tick = [n.lineno for n in ast.walk(fn) if _call_name(n) == "on_tick"]
        loops = [n for n in fn.body if isinstance(n, ast.For)]
        cmd_loop = next((l for l in loops if any(_call_name(c) == "process_command" for c in ast.walk(l))), None)
        res["persistBeforeCommands"] = (len(on_tick) == 1 and cmd_loop is not None and on_tick[0] < cmd_loop.lineno)
    return res


def generate(notes: list[str]) -> list[str]:
    r = extract(notes)
    b = lambda x: "true" if x else "false"  # noqa: E731
    return [
        "namespace Engine.GenReplay",
        "",
        "/-- `HandlerQuery(status_in=…)` of `_on_server_start` -/",
        f"def startStatusIn : List String := {_lstr(r['startStatusIn'])}",
        "/-- `HandlerQuery(is_idle=…)` of `_on_server_start` -/",
        f"def startIsIdle : Option Bool := {r['startIsIdle']}",
        f"def startFiltersWorkflow : Bool := {b(r['startFiltersWorkflow'])}",
        "/-- status of every `return` of `handler_status_from_exit_command`, in source order -/",
        f"def exitStatuses : List String := {_lstr(r['exitStatuses'])}",
        "/-- the command classes `replay_ticks_stream` remembers -/",
        f"def exitClasses : List String := {_lstr(r['exitClasses'])}",
        f"def replayRewindsFirst : Bool := {b(r['replayRewindsFirst'])}",
        f"def replayReducesPerTick : Nat := {int(r['replayReducesPerTick'])}",
        f"def replayLoopHasEarlyExit : Bool := {b(r['replayLoopHasEarlyExit'])}",
        "/-- `_process_tick` awaits `adapter.on_tick(tick)` exactly once, before the loop that executes the commands -/",
        f"def persistBeforeCommands : Bool := {b(r['persistBeforeCommands'])}",
        "/-- `context_from_ticks` validates the workflow (catch_error tables) before it builds the replay state -/",
        f"def validatesBeforeReplay : Bool := {b(r['validatesBeforeReplay'])}",
        "",
        "end Engine.GenReplay",
    ]
