"""Name-only stand-in for starlette (absent from the sandbox).

Only the import surface that `llama_agents.server._api` touches at import time
and inside the endpoint coroutines the harness calls directly with a fake
`Request`.  No routing, no ASGI, no HTTP framing: nothing below the endpoint
coroutine is exercised.
"""
