"""Direct correspondence of the reducer: generated (state, tick) pairs are fed to the
real `_reduce_tick` / `rewind_in_progress` and to the Lean model; canonical
outputs are compared line by line.  Includes ill-formed inputs (unknown worker,
unknown step, duplicate worker ids) so that error branches are compared too."""
from __future__ import annotations

import random
from typing import Any

from workflows.decorators import CatchErrorHandler, StepConfig
from workflows.runtime import control_loop as CL
from workflows.runtime.types import results as R
from workflows.runtime.types import ticks as T
from workflows.runtime.types.internal_state import (
    BrokerConfig,
    BrokerState,
    EventAttempt,
    InProgressState,
    InternalStepConfig,
    InternalStepWorkerState,
)

from . import enc
from . import evtypes as ET


import dataclasses as _dc

#: the tree under test keeps the suspended invocation's attempt record in the waiter (it does since the repair of
#: C08/handler_entered_beyond_budget:lineage_suspended_in_wait; an older tree is still generated for, without records)
WAITER_HAS_RECORD = {"attempts", "first_attempt_at", "last_exception", "last_failed_at", "recovery_counts"} <= {
    f.name for f in _dc.fields(R.StepWorkerWaiter)}


class OraclePolicy:
    """Retry policy whose decisions are scripted; records calls for the oracle table."""

    def __init__(self, rng: random.Random, step: str, log: list):
        self.rng = rng
        self.step = step
        self.log = log

    def next(self, elapsed_time: float, attempts: int, error: Exception, seed: int | None = None) -> float | None:
        r = self.rng.random()
        delay: float | None
        if r < 0.08:
            self.log.append((self.step, elapsed_time, attempts, error, "RAISE"))
            raise RuntimeError("policy bug")
        if r < 0.35:
            delay = None
        elif r < 0.5:
            delay = 0.0
        else:
            delay = float(self.rng.randint(1, 5))
        self.log.append((self.step, elapsed_time, attempts, error, delay))
        return delay


class Gen:
    def __init__(self, rng: random.Random, span_snapshots: bool = False):
        self.rng = rng
        self.uid = 0
        self.pol_log: list = []
        #: opt-in (C09): also generate in-progress snapshots that are NOT prefixes of the live buffer (an invocation that
        #: outlived a completed collection: the buffer was deleted and refilled since its snapshot was taken), and aim
        #: more collect results at buffers whose snapshot is stale
        self.span_snapshots = span_snapshots

    def fresh(self) -> int:
        self.uid += 1
        return self.uid

    def event(self, ty: int | None = None) -> Any:
        rng = self.rng
        if ty is None:
            ty = rng.choice([0, 1, 2, 3, 5, 5, 6, 6, 7, 8, 12, 13])
        k = rng.choice([None, None, 1, 2, 3])
        return ET.mk(ty, self.fresh(), k)

    def step_failed_event(self, steps: list[str]) -> Any:
        from datetime import datetime, timezone

        from workflows.events import StepFailedEvent

        return StepFailedEvent(step_name=self.rng.choice(steps), input_event=self.event(5), exception=ET.Boom(f"e{self.rng.randint(1, 5)}"),
                               attempts=self.rng.randint(1, 3), elapsed_seconds=float(self.rng.randint(0, 9)),
                               failed_at=datetime.fromtimestamp(1000 + self.rng.randint(0, 50), tz=timezone.utc))

    def rc(self, handler_names: list[str]) -> dict[str, int]:
        if not handler_names or self.rng.random() < 0.6:
            return {}
        return {h: self.rng.randint(1, 3) for h in self.rng.sample(handler_names, self.rng.randint(1, len(handler_names)))}

    def attempt(self, hn: list[str], ty: int | None = None) -> EventAttempt:
        rng = self.rng
        if rng.random() < 0.6:
            return EventAttempt(event=self.event(ty), recovery_counts=self.rc(hn))
        return EventAttempt(event=self.event(ty), attempts=rng.choice([None, 0, 1, 2]),
                            first_attempt_at=rng.choice([None, 0.0, 990.0, 1000.0]),
                            last_exception=rng.choice([None, ET.Boom("e3")]),
                            last_failed_at=rng.choice([None, 995.0]), recovery_counts=self.rc(hn))

    def waiter(self, wid: str | None = None, hn: list[str] | None = None) -> R.StepWorkerWaiter:
        rng = self.rng
        wty = rng.choice([5, 6, 7, 3])
        reqs = {} if rng.random() < 0.5 else {"k": rng.choice([1, 2])}
        resolved = None
        if rng.random() < 0.3:
            resolved = ET.mk(wty, self.fresh(), reqs.get("k"))
        has_req = bool(reqs) or (rng.random() < 0.15)
        # the attempt record of the invocation suspended in the wait (retry counters, recovery counts of its lineage)
        rec: dict[str, Any] = {}
        if WAITER_HAS_RECORD and rng.random() < 0.6:
            rec = dict(attempts=rng.choice([0, 0, 1, 2]), first_attempt_at=rng.choice([None, 0.0, 990.0, 995.0, 1000.0]),
                       last_exception=rng.choice([None, ET.Boom("e2")]), last_failed_at=rng.choice([None, 996.0]),
                       recovery_counts=self.rc(hn or []))
        return R.StepWorkerWaiter(waiter_id=wid or f"w{rng.randint(0, 4):02d}", event=self.event(rng.choice([0, 5, 6])),
                                  waiting_for_event=ET.TYPES[wty], requirements=reqs, has_requirements=has_req,
                                  resolved_event=resolved, timed_out=(resolved is None and rng.random() < 0.15), **rec)

    def collected(self) -> dict[str, list]:
        rng = self.rng
        d: dict[str, list] = {}
        for _ in range(rng.choice([0, 0, 1, 1, 2])):
            d[rng.choice(["default", "b01", "b02"])] = [self.event(rng.choice([5, 6, 7])) for _ in range(rng.randint(0, 3))]
        return d

    def config(self) -> tuple[BrokerConfig, dict[str, StepConfig]]:
        rng = self.rng
        n = rng.randint(1, 4)
        names = rng.sample([f"s{i:02d}" for i in range(8)], n)
        n_handlers = rng.choice([0, 0, 1, 1, 2]) if n >= 2 else 0
        handler_names = names[:n_handlers]
        steps: dict[str, InternalStepConfig] = {}
        scs: dict[str, StepConfig] = {}
        for nm in names:
            if nm in handler_names:
                acc = [ET.T4]
                nw = 1
                pol = None
            else:
                acc = [ET.TYPES[t] for t in rng.sample([0, 3, 5, 6, 7, 8, 12], rng.randint(1, 3))]
                nw = rng.randint(1, 4)
                pol = OraclePolicy(rng, nm, self.pol_log) if rng.random() < 0.6 else None
            steps[nm] = InternalStepConfig(accepted_events=acc, retry_policy=pol, num_workers=nw)
            scs[nm] = StepConfig(accepted_events=acc, event_name="ev", return_types=[], context_parameter=None,
                                 num_workers=nw, retry_policy=pol, resources=[])
        handlers = {h: CatchErrorHandler(step_name=h, for_steps=None, max_recoveries=rng.randint(1, 3)) for h in handler_names}
        hfs: dict[str, str] = {}
        for nm in names:
            if nm not in handler_names and handler_names and rng.random() < 0.7:
                hfs[nm] = rng.choice(handler_names)
        if rng.random() < 0.05 and names:
            hfs[names[-1]] = "s99"  # dangling handler name: `.get` returns None
        return BrokerConfig(steps=steps, timeout=None, catch_error_handlers=handlers, handler_for_step=hfs), scs

    def state(self, illformed: bool) -> BrokerState:
        rng = self.rng
        cfg, scs = self.config()
        hn = list(cfg.catch_error_handlers.keys())
        workers: dict[str, InternalStepWorkerState] = {}
        for nm, sc in cfg.steps.items():
            acc_ids = [ET.TY_ID[c] for c in sc.accepted_events if c is not ET.T4]
            coll = self.collected()
            waiters = []
            used: set[str] = set()
            for _ in range(rng.choice([0, 0, 1, 2, 3])):
                w = self.waiter(hn=hn)
                if w.waiter_id in used and not illformed:
                    continue
                used.add(w.waiter_id)
                waiters.append(w)
            nw = sc.num_workers
            k = rng.randint(0, nw)
            ids = rng.sample(range(nw), k)
            if illformed and rng.random() < 0.5 and k >= 1:
                ids = ids + [rng.choice(ids + [nw, nw + 1])]
            inprog = []
            for wid in ids:
                if rng.random() < 0.6:
                    snap_c = {b: list(v) for b, v in coll.items()}
                    snap_w = [R.StepWorkerWaiter(**vars(w)) for w in waiters]
                else:
                    snap_c = {b: list(v)[: rng.randint(0, len(v))] for b, v in coll.items() if rng.random() < 0.8}
                    snap_w = [R.StepWorkerWaiter(**vars(w)) for w in waiters if rng.random() < 0.6]
                if self.span_snapshots and rng.random() < 0.4:
                    # a snapshot from an EARLIER round: other events (of the finished round), possibly followed by a
                    # part of the live buffer, of any length (shorter = stale for the reducer, equal/longer = not)
                    for b, v in coll.items():
                        if rng.random() < 0.7:
                            old = [self.event(rng.choice([5, 6, 7])) for _ in range(rng.randint(1, 2))]
                            snap_c[b] = (old + list(v)[len(old): rng.randint(0, len(v))]) if rng.random() < 0.5 else old
                evt = self.step_failed_event(list(cfg.steps)) if (nm in hn) else self.event(rng.choice(acc_ids) if acc_ids else 5)
                inprog.append(InProgressState(
                    event=evt, worker_id=wid,
                    shared_state=R.StepWorkerState(step_name=nm, collected_events=snap_c, collected_waiters=snap_w),
                    attempts=rng.choice([0, 0, 1, 2]), first_attempt_at=float(rng.choice([990, 995, 1000])),
                    last_exception=rng.choice([None, ET.Boom("e2")]), last_failed_at=rng.choice([None, 996.0]),
                    recovery_counts=self.rc(hn)))
            qlen = rng.choice([0, 0, 1, 2, 3]) if (k == nw or rng.random() < 0.3) else 0
            queue = [self.attempt(hn, rng.choice(acc_ids) if acc_ids else 5) for _ in range(qlen)]
            workers[nm] = InternalStepWorkerState(queue=queue, config=scs[nm], in_progress=inprog,
                                                  collected_events=coll, collected_waiters=waiters)
        return BrokerState(is_running=rng.random() < 0.8, config=cfg, workers=workers)

    def results(self, st: BrokerState, step: str, ip: Any = None) -> list:
        rng = self.rng
        ws = st.workers.get(step)
        wids = [w.waiter_id for w in ws.collected_waiters] if ws else []
        out: list = []
        mode = rng.random()
        if self.span_snapshots and ws is not None and ip is not None and rng.random() < 0.5 and any(
                len(v) > len(ip.shared_state.collected_events.get(b, [])) for b, v in ws.collected_events.items()):
            mode = 0.55  # the invocation's snapshot is stale: let it report a collect result
        if mode < 0.30:
            out.append(R.StepWorkerResult(result=rng.choice([None, self.event(rng.choice([5, 6, 7, 2, 13, 3])), self.event(1)])))
        elif mode < 0.50:
            out.append(R.StepWorkerFailed(exception=ET.Boom(f"e{rng.randint(1, 5)}"), failed_at=float(rng.choice([1000, 1003, 1010]))))
        elif mode < 0.65:
            bid = rng.choice(["default", "b01", "b02"])
            if self.span_snapshots and ws is not None and ip is not None and rng.random() < 0.6:
                stale_b = [b for b, v in ws.collected_events.items() if len(v) > len(ip.shared_state.collected_events.get(b, []))]
                if stale_b:
                    bid = rng.choice(stale_b)
            out.append(R.AddCollectedEvent(event_id=bid, event=self.event(rng.choice([5, 6, 7]))))
            out.append(R.StepWorkerResult(result=None))
        elif mode < 0.75:
            out.append(R.DeleteCollectedEvent(event_id=rng.choice(["default", "b01"])))
            out.append(R.StepWorkerResult(result=rng.choice([None, self.event(6), self.event(1)])))
        elif mode < 0.88:
            wid = rng.choice(wids + ["w00", "w03", "w04"])
            out.append(R.AddWaiter(waiter_id=wid, waiter_event=rng.choice([None, self.event(2)]),
                                   requirements=rng.choice([{}, {"k": 1}]), timeout=rng.choice([None, 5.0, 2000.0]),
                                   event_type=ET.TYPES[rng.choice([5, 6, 3])]))
        else:
            wid = rng.choice(wids + ["w00"])
            out.append(R.DeleteWaiter(waiter_id=wid))
            out.append(rng.choice([R.StepWorkerResult(result=self.event(6)),
                                   R.StepWorkerFailed(exception=ET.Boom("e4"), failed_at=1001.0)]))
        if rng.random() < 0.1:
            # unusual but legal combinations
            out.insert(0, rng.choice([R.DeleteCollectedEvent(event_id="default"),
                                      R.AddCollectedEvent(event_id="default", event=self.event(5))]))
        if rng.random() < 0.08:
            # one invocation that called collect_events two to four times on the same buffer: against a stale
            # snapshot (or after its own first add) the first one schedules the re-run; the rest of the tick's
            # collect results must then be skipped (C01: at most one CommandRunWorker per slot and tick)
            live = ws.collected_events if ws else {}
            snap = ip.shared_state.collected_events if ip is not None else {}
            stale = [b for b, v in live.items() if len(v) > len(snap.get(b, []))]
            buf = rng.choice(stale) if (stale and rng.random() < 0.7) else rng.choice(["default", "b01", "b02"])
            own = ip.event if (ip is not None and rng.random() < 0.7) else self.event(rng.choice([5, 6, 7]))
            adds = [R.AddCollectedEvent(event_id=buf, event=own) for _ in range(rng.choice([2, 3, 3, 4]))]
            if rng.random() < 0.3:
                adds.insert(rng.randint(1, len(adds)), R.AddCollectedEvent(event_id=rng.choice(["default", "b01"]), event=own))
            out[0:0] = adds
        return out

    def tick(self, st: BrokerState, illformed: bool) -> Any:
        rng = self.rng
        names = list(st.config.steps.keys())
        hn = list(st.config.catch_error_handlers.keys())
        r = rng.random()
        if r < 0.40:
            busy = [(n, ip) for n in names for ip in st.workers[n].in_progress]
            if busy and not (illformed and rng.random() < 0.3):
                n, ip = rng.choice(busy)
                return T.TickStepResult(step_name=n, worker_id=ip.worker_id, event=ip.event, result=self.results(st, n, ip))
            n = rng.choice(names + (["s77"] if illformed else []))
            return T.TickStepResult(step_name=n, worker_id=rng.randint(0, 4), event=self.event(5), result=self.results(st, n))
        if r < 0.75:
            a = self.attempt(hn)
            if rng.random() < 0.15 and hn:
                a = EventAttempt(event=self.step_failed_event(names), recovery_counts=self.rc(hn))
            # bias towards events some waiter is waiting for
            ws = [w for n in names for w in st.workers[n].collected_waiters]
            if ws and rng.random() < 0.5:
                w = rng.choice(ws)
                kreq = w.requirements.get("k") if w.requirements else rng.choice([None, 1])
                a = EventAttempt(event=ET.mk(ET.TY_ID[w.waiting_for_event], self.fresh(), rng.choice([kreq, kreq, 2])))
            tgt = rng.choice([None, None, None] + names)
            return T.TickAddEvent(event=a.event, step_name=tgt, attempts=a.attempts, first_attempt_at=a.first_attempt_at,
                                  last_exception=a.last_exception, last_failed_at=a.last_failed_at,
                                  recovery_counts=dict(a.recovery_counts))
        if r < 0.79:
            return T.TickCancelRun()
        if r < 0.82:
            return T.TickIdleRelease()
        if r < 0.85:
            return T.TickPublishEvent(event=self.event(5))
        if r < 0.89:
            return T.TickTimeout(timeout=float(rng.randint(1, 30)))
        if r < 0.96:
            cands = [(n, w.waiter_id) for n in names for w in st.workers[n].collected_waiters]
            if cands and rng.random() < 0.8:
                n, w = rng.choice(cands)
            else:
                n, w = rng.choice(names + ["s66"]), "w00"
            return T.TickWaiterTimeout(step_name=n, waiter_id=w)
        return T.TickIdleCheck()


def oracle_tokens(log: list) -> str:
    seen = []
    for (step, el, att, err, delay) in log:
        ent = f"{enc.step_id(step)} {enc.num(el)} {att} {enc.exc(err)} {'X' if delay == 'RAISE' else enc.num(delay)}"
        if ent not in seen:
            seen.append(ent)
    return "P " + enc.lst(seen)


def run_pair(g: Gen, illformed: bool) -> tuple[list[str], list[str], dict]:
    """One (state, tick) pair (or a rewind) -> (ops, expected impl outputs, info)."""
    rng = g.rng
    st = g.state(illformed)
    ops = ["cfg " + enc.cfg(st), "state " + enc.state(st)]
    outs = ["ok", enc.state(st)]
    now = float(rng.choice([1000, 1001, 1005, 1010]))
    info: dict[str, Any] = {"illformed": illformed}
    if rng.random() < 0.12:
        try:
            st2, cmds = CL.rewind_in_progress(st, now)
            out = enc.result_line(st2, cmds)
        except (ValueError, KeyError, IndexError):
            out = "crash"
        ops.append(f"rewind {enc.num(now)}")
        outs.append(out)
        info["tick"] = "rewind"
        return ops, outs, info
    tk = g.tick(st, illformed)
    g.pol_log.clear()
    try:
        st2, cmds = CL._reduce_tick(tk, st, now, run_id="r")
        out = enc.result_line(st2, cmds)
        info["cmds"] = [type(c).__name__ for c in cmds]
    except (ValueError, KeyError, IndexError):
        out = "crash"
    except RuntimeError as e:
        # an exception of the retry policy escaping the reducer (the tree before the repair of
        # C04/engine_side_failure_no_terminal_event): the model catches it, so this is a divergence
        if "policy bug" not in str(e):
            raise
        out = "crash"
        info["policy_escaped"] = True
    if any(x[-1] == "RAISE" for x in g.pol_log):
        info["policy_raised"] = True
    ops.append(f"reduce {enc.num(now)} {oracle_tokens(g.pol_log)} {enc.tick(tk)}")
    outs.append(out)
    info["tick"] = type(tk).__name__
    info["out"] = "crash" if out == "crash" else "ok"
    info["pair"] = (st, tk, None if out == "crash" else st2, [] if out == "crash" else cmds)
    if isinstance(tk, T.TickStepResult):
        info["res"] = [type(r).__name__ for r in tk.result]
        bufs = [r.event_id for r in tk.result if isinstance(r, R.AddCollectedEvent)]
        if len(bufs) != len(set(bufs)):
            # several collect results for one buffer in one tick: the at-most-one-re-run branch (C01)
            nrun = sum(1 for c in (cmds if out != "crash" else []) if type(c).__name__ == "CommandRunWorker" and c.step_name == tk.step_name and c.id == tk.worker_id)
            info["multi_collect"] = "rerun" if nrun else "no-rerun"
    return ops, outs, info
