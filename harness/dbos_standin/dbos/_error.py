"""Error names imported by llama_agents.dbos (stand-in)."""
from __future__ import annotations


class DBOSException(Exception):
    pass


class DBOSNonExistentWorkflowError(DBOSException):
    def __init__(self, destination_id: str = "") -> None:
        super().__init__(f"Sent to non-existent destination workflow ID: {destination_id}")
        self.destination_id = destination_id


class DBOSUnexpectedStepError(DBOSException):
    """a recorded output exists at this function_id but under a different function name:
    the workflow did not make the same calls in the same order (non-determinism)"""

    def __init__(self, workflow_id: str, step_id: int, expected_name: str, recorded_name: str) -> None:
        super().__init__(
            f"During execution of workflow {workflow_id} step {step_id}, function {recorded_name} was recorded "
            f"when {expected_name} was expected. Check that your workflow is deterministic.")
        self.workflow_id = workflow_id
        self.step_id = step_id
        self.expected_name = expected_name
        self.recorded_name = recorded_name
