"""Generator for lean/WfModel/GenVersion.lean (property C34).

Two groups of facts, both re-extracted on every run:

* from /repo's *current* sources (``src/dev_cli/changesets.py``,
  ``src/dev_cli/versioning.py``): the pre-release label set, the semver
  pre-release regex, and a *symbolic summary* of ``semver_to_pep440``,
  ``pep440_to_semver``, ``is_rc_version`` and ``detect_change_type`` -- the ordered
  list of ``(guard, action)`` rules of each function with every single-assignment
  local substituted by its definition (the two module constants stay names; their
  values are emitted separately).  Renaming a
  local or reordering independent assignments leaves the summary unchanged; changing
  a comparison, an index, a format string, the regex or the label set changes it and
  breaks ``C34_source_shape``.
* from the Python runtime the tooling runs on (``packaging``, ``re``): the PEP 440
  pattern and its flags, the ordered pre-release spellings with their normal forms,
  the pre-release ranks used by the comparison key, and the code points matched by
  ``\\s`` and ``\\d`` in a ``str`` pattern (computed by running the real ``re`` over
  every code point).
"""
from __future__ import annotations

import ast
import copy
import re
from typing import Any

from ..boot import repo_path

LEAN_MODULE = "GenVersion"

CHANGESETS = "src/dev_cli/changesets.py"
VERSIONING = "src/dev_cli/versioning.py"


def lean_str(s: str) -> str:
    out = ['"']
    for ch in s:
        if ch == '"':
            out.append('\\"')
        elif ch == "\\":
            out.append("\\\\")
        elif ch == "\n":
            out.append("\\n")
        elif ch == "\t":
            out.append("\\t")
        elif 32 <= ord(ch) < 127:
            out.append(ch)
        else:
            out.append("\\u{%x}" % ord(ch))
    out.append('"')
    return "".join(out)


def lean_chars(s: str) -> str:
    """A `List Char` literal (only printable ASCII is expected here)."""
    items = []
    for ch in s:
        if ch == "'":
            items.append("'\\''")
        elif ch == "\\":
            items.append("'\\\\'")
        elif 32 <= ord(ch) < 127:
            items.append(f"'{ch}'")
        else:
            items.append("Char.ofNat %d" % ord(ch))
    return "[" + ", ".join(items) + "]"


# --------------------------------------------------------------------------
# symbolic summary of a straight-line function


class _Subst(ast.NodeTransformer):
    def __init__(self, env: dict[str, ast.expr]):
        self.env = env

    def visit_Name(self, node: ast.Name) -> Any:
        if isinstance(node.ctx, ast.Load) and node.id in self.env:
            return copy.deepcopy(self.env[node.id])
        return node


def _canon_const_sets(node: ast.AST) -> ast.AST:
    """Sort the elements of set displays of constants (iteration order is irrelevant)."""
    for n in ast.walk(node):
        if isinstance(n, ast.Set) and all(isinstance(e, ast.Constant) for e in n.elts):
            n.elts.sort(key=lambda e: repr(e.value))  # type: ignore[attr-defined]
    return node


def _src(node: ast.AST) -> str:
    return re.sub(r"\s+", " ", ast.unparse(_canon_const_sets(node)))


def _module_env(tree: ast.Module, names: list[str]) -> dict[str, ast.expr]:
    env: dict[str, ast.expr] = {}
    for n in tree.body:
        if isinstance(n, ast.Assign) and len(n.targets) == 1 and isinstance(n.targets[0], ast.Name) and n.targets[0].id in names:
            env[n.targets[0].id] = n.value
    return env


def summarize(fn: ast.FunctionDef, module_env: dict[str, ast.expr], notes: list[str]) -> list[tuple[str, str]]:
    env: dict[str, ast.expr] = dict(module_env)
    rules: list[tuple[str, str]] = []

    def sub(e: ast.expr) -> ast.expr:
        return _Subst(env).visit(copy.deepcopy(e))

    def action(st: ast.stmt) -> str | None:
        if isinstance(st, ast.Return):
            return "return " + (_src(sub(st.value)) if st.value is not None else "None")
        if isinstance(st, ast.Raise) and st.exc is not None:
            exc = st.exc.func if isinstance(st.exc, ast.Call) else st.exc
            return "raise " + _src(exc)
        return None

    for st in fn.body:
        if isinstance(st, ast.Expr) and isinstance(st.value, ast.Constant) and isinstance(st.value.value, str):
            continue  # docstring
        if isinstance(st, ast.Assign) and len(st.targets) == 1:
            tgt = st.targets[0]
            val = sub(st.value)
            if isinstance(tgt, ast.Name):
                env[tgt.id] = val
                continue
            if isinstance(tgt, ast.Tuple) and all(isinstance(e, ast.Name) for e in tgt.elts):
                for i, e in enumerate(tgt.elts):
                    env[e.id] = ast.Subscript(value=copy.deepcopy(val), slice=ast.Constant(i), ctx=ast.Load())  # type: ignore[attr-defined]
                continue
        if isinstance(st, ast.If) and not st.orelse and len(st.body) == 1 and action(st.body[0]) is not None:
            rules.append((_src(sub(st.test)), action(st.body[0])))  # type: ignore[arg-type]
            continue
        a = action(st)
        if a is not None:
            rules.append(("otherwise", a))
            break
        rules.append(("<unsupported>", _src(st)[:120]))
        notes.append(f"translate: gen/version: unsupported statement in {fn.name}: {_src(st)[:80]}")
    return rules


def _fn(tree: ast.Module | None, name: str) -> ast.FunctionDef | None:
    if tree is None:
        return None
    for n in tree.body:
        if isinstance(n, ast.FunctionDef) and n.name == name:
            return n
    return None


def _parse(rel: str) -> ast.Module | None:
    try:
        return ast.parse(open(repo_path(rel)).read())
    except (OSError, SyntaxError):
        return None


def _rules_lean(name: str, rules: list[tuple[str, str]]) -> list[str]:
    L = [f"def {name} : List (String × String) := ["]
    for i, (g, a) in enumerate(rules):
        L.append(f"  ({lean_str(g)}, {lean_str(a)})" + ("," if i < len(rules) - 1 else ""))
    L.append("]")
    return L


# --------------------------------------------------------------------------
# runtime facts (packaging, re)


def _pre_alternatives(pattern: str) -> list[str]:
    m = re.search(r"\(\?P<pre_l>([^)]*)\)", pattern)
    return m.group(1).split("|") if m else []


def _ranges(points: list[int]) -> list[tuple[int, int]]:
    out: list[list[int]] = []
    for c in points:
        if out and out[-1][1] == c - 1:
            out[-1][1] = c
        else:
            out.append([c, c])
    return [(a, b) for a, b in out]


def generate(notes: list[str]) -> list[str]:
    L = ["namespace Gen.Version", ""]
    # ---- /repo
    cs = _parse(CHANGESETS)
    vs = _parse(VERSIONING)
    labels: list[str] = []
    regex = "<missing>"
    menv: dict[str, ast.expr] = {}
    if cs is not None:
        menv = _module_env(cs, ["_PEP440_LABELS", "_SEMVER_PRERELEASE_RE"])
        lab = menv.get("_PEP440_LABELS")
        if isinstance(lab, (ast.Set, ast.List, ast.Tuple)) and all(isinstance(e, ast.Constant) and isinstance(e.value, str) for e in lab.elts):
            labels = sorted(e.value for e in lab.elts)  # type: ignore[attr-defined]
        else:
            notes.append("translate: gen/version: _PEP440_LABELS is not a display of string constants")
        rx = menv.get("_SEMVER_PRERELEASE_RE")
        if isinstance(rx, ast.Call) and rx.args and isinstance(rx.args[0], ast.Constant) and isinstance(rx.args[0].value, str) \
                and _src(rx.func) == "re.compile" and len(rx.args) == 1 and not rx.keywords:
            regex = rx.args[0].value
        else:
            notes.append("translate: gen/version: _SEMVER_PRERELEASE_RE is not re.compile(<constant>) without flags")
    L.append("/-! from /repo: src/dev_cli/changesets.py, src/dev_cli/versioning.py -/")
    L.append("def labels : List (List Char) := [" + ", ".join(lean_chars(x) for x in labels) + "]")
    L.append(f"def semverPrereleaseRe : String := {lean_str(regex)}")
    for lean_name, tree, fname in (
        ("semverToPepRules", cs, "semver_to_pep440"),
        ("pepToSemverRules", cs, "pep440_to_semver"),
        ("isRcRules", cs, "is_rc_version"),
        ("detectRules", vs, "detect_change_type"),
    ):
        fn = _fn(tree, fname)
        if fn is None:
            notes.append(f"translate: gen/version: {fname} not found")
            rules = [("<missing>", "<missing>")]
        else:
            rules = summarize(fn, {}, notes)
        L += _rules_lean(lean_name, rules)
    # which Version class do the two modules use?
    imports = []
    for tree in (cs, vs):
        got = "<missing>"
        if tree is not None:
            for n in tree.body:
                if isinstance(n, ast.ImportFrom) and any(a.name == "Version" for a in n.names):
                    got = f"from {n.module} import " + ", ".join(a.name + (f" as {a.asname}" if a.asname else "") for a in n.names)
        imports.append(got)
    L.append("def versionImports : List String := [" + ", ".join(lean_str(x) for x in imports) + "]")
    L.append("")
    # ---- runtime
    L.append("/-! from the Python runtime: packaging.version and re -/")
    try:
        import packaging
        import packaging.version as pv

        pat = pv.VERSION_PATTERN
        pat_nc = re.sub(r"\s+", "", re.sub(r"#[^\n]*", "", pat))
        rx = pv.Version._regex  # type: ignore[attr-defined]
        flags = "|".join(sorted(f.name for f in re.RegexFlag if f.name and rx.flags & f and f.name in ("IGNORECASE", "VERBOSE", "ASCII", "UNICODE", "MULTILINE", "DOTALL")))
        wrap = rx.pattern.replace(pat, "{VERSION_PATTERN}")
        alts = _pre_alternatives(pat_nc)
        norm = dict(getattr(pv, "_LETTER_NORMALIZATION", {}))
        rank = dict(getattr(pv, "_PRE_RANK", {}))
        stable = getattr(pv, "_PRE_RANK_STABLE", None)
        simple = "".join(sorted(getattr(pv, "_SIMPLE_VERSION_INDICATORS", ())))
        L.append(f"def packagingVersion : String := {lean_str(packaging.__version__)}")
        L.append(f"def versionPattern : String := {lean_str(pat_nc)}")
        L.append(f"def versionRegexWrap : String := {lean_str(wrap)}")
        L.append(f"def versionRegexFlags : String := {lean_str(flags)}")
        L.append(f"def simpleVersionChars : String := {lean_str(simple)}")
        L.append("def preAlts : List (List Char × List Char) := [" + ", ".join(
            f"({lean_chars(a)}, {lean_chars(norm.get(a, a))})" for a in alts) + "]")
        L.append("def preRank : List (List Char × Nat) := [" + ", ".join(
            f"({lean_chars(k)}, {int(v)})" for k, v in sorted(rank.items(), key=lambda kv: kv[1])) + "]")
        L.append(f"def preRankStable : Nat := {int(stable) if isinstance(stable, int) and stable >= 0 else 0}")
        if not alts or not rank or stable is None:
            notes.append("translate: gen/version: packaging.version internals (_PRE_RANK, pre_l alternatives) not found")
    except Exception as e:  # pragma: no cover - packaging is part of the environment
        notes.append(f"translate: gen/version: packaging introspection failed: {e!r}")
        L.append('def packagingVersion : String := "<missing>"')
    ws = re.compile(r"\s")
    dg = re.compile(r"\d")
    W = [c for c in range(0x110000) if ws.fullmatch(chr(c))]
    D = [c for c in range(0x110000) if dg.fullmatch(chr(c))]
    L.append("/-- code points matched by `\\s` in a `str` pattern (CPython `re`) -/")
    L.append("def spaceChars : List Nat := [" + ", ".join(str(c) for c in W) + "]")
    L.append("/-- inclusive code point ranges matched by `\\d` in a `str` pattern (CPython `re`) -/")
    L.append("def decimalRanges : List (Nat × Nat) := [" + ", ".join(f"({a}, {b})" for a, b in _ranges(D)) + "]")
    L.append("")
    L.append("end Gen.Version")
    return L
