import WfProofs.LifecycleInv
/-!
M7 (A): the liveness invariant of idle release — whenever the handler row says "idle since t"
and a control loop is registered, a deferred-release task that will act on this very `t` is
pending (or the announcement is still being written, or a reloading sender is about to clear it).
Holds for every schedule.
-/
set_option linter.unusedVariables false
set_option linter.unusedSimpArgs false
namespace Lifecycle

def S.marking (s : S) : Bool :=
  match s.cur with
  | some l => l.marking
  | none => false

/-- a release decision based on `idle_since = t`, at a time ≥ t + idle_timeout, is still to come -/
def Covered (s : S) (t : Nat) : Prop :=
  s.marking = true ∨
  (∃ j due, s.timers j = .sleeping due ∧ t + s.tau ≤ due) ∨
  (∃ j, s.lock = some (.tQuery j) ∧ t + s.tau ≤ s.now) ∨
  (∃ j, s.lock = some (.tDecide j (some t)) ∧ t + s.tau ≤ s.now) ∨
  (∃ i, s.lock = some (.sRClear i))

structure CoverInv (s : S) : Prop where
  tl : ∀ j, (s.lock = some (.tQuery j) ∨ ∃ seen, s.lock = some (.tDecide j seen)) → s.timers j = .locked
  cov : ∀ t, s.idleSince = some t → s.cur.isSome = true → Covered s t

theorem CoverInv.init (tau : Nat) : CoverInv (init tau) := by
  constructor <;> simp [Lifecycle.init]

/-- actions that leave the announcement flag, the release tasks, the lock and `idle_since` alone -/
theorem CoverInv.frame (s s' : S) (h : CoverInv s) (hm : s'.marking = s.marking) (ht : s'.timers = s.timers)
    (hl : s'.lock = s.lock) (htau : s'.tau = s.tau) (hn : s.now ≤ s'.now) (hi : s'.idleSince = s.idleSince)
    (hc : s'.cur.isSome = s.cur.isSome) : CoverInv s' := by
  refine ⟨?_, ?_⟩
  · intro j; rw [hl, ht]; exact h.tl j
  · intro t h1 h2
    rw [hi] at h1; rw [hc] at h2
    rcases h.cov t h1 h2 with c | ⟨j, due, c1, c2⟩ | ⟨j, c1, c2⟩ | ⟨j, c1, c2⟩ | ⟨i, c⟩
    · exact Or.inl (hm ▸ c)
    · exact Or.inr (Or.inl ⟨j, due, ht ▸ c1, htau ▸ c2⟩)
    · exact Or.inr (Or.inr (Or.inl ⟨j, hl ▸ c1, by rw [htau]; omega⟩))
    · exact Or.inr (Or.inr (Or.inr (Or.inl ⟨j, hl ▸ c1, by rw [htau]; omega⟩)))
    · exact Or.inr (Or.inr (Or.inr (Or.inr ⟨i, hl ▸ c⟩)))

/-- the lock moves between sender positions (or is free); nothing else that matters changes -/
theorem CoverInv.relock (s s' : S) (h : CoverInv s)
    (o1 : ∀ j, s.lock ≠ some (.tQuery j)) (o2 : ∀ j seen, s.lock ≠ some (.tDecide j seen))
    (o3 : ∀ i, s.lock ≠ some (.sRClear i))
    (n1 : ∀ j, s'.lock ≠ some (.tQuery j)) (n2 : ∀ j seen, s'.lock ≠ some (.tDecide j seen))
    (hm : s'.marking = s.marking) (ht : s'.timers = s.timers)
    (htau : s'.tau = s.tau) (hi : s'.idleSince = s.idleSince)
    (hc : s'.cur.isSome = s.cur.isSome) : CoverInv s' := by
  refine ⟨?_, ?_⟩
  · intro j hj
    rcases hj with hj | ⟨seen, hj⟩
    · exact absurd hj (n1 j)
    · exact absurd hj (n2 j seen)
  · intro t h1 h2
    rw [hi] at h1; rw [hc] at h2
    rcases h.cov t h1 h2 with c | ⟨j, due, c1, c2⟩ | ⟨j, c1, c2⟩ | ⟨j, c1, c2⟩ | ⟨i, c⟩
    · exact Or.inl (hm ▸ c)
    · exact Or.inr (Or.inl ⟨j, due, ht ▸ c1, htau ▸ c2⟩)
    · exact absurd c1 (o1 j)
    · exact absurd c1 (o2 j _)
    · exact absurd c (o3 i)

/-- `idle_since` is cleared: nothing to cover -/
theorem CoverInv.cleared (s s' : S) (h : CoverInv s)
    (n1 : ∀ j, s'.lock ≠ some (.tQuery j)) (n2 : ∀ j seen, s'.lock ≠ some (.tDecide j seen))
    (hi : s'.idleSince = none) : CoverInv s' := by
  refine ⟨?_, ?_⟩
  · intro j hj
    rcases hj with hj | ⟨seen, hj⟩
    · exact absurd hj (n1 j)
    · exact absurd hj (n2 j seen)
  · intro t h1; rw [hi] at h1; cases h1

theorem CoverInv.step (s s' : S) (a : Act) (h : step s a = some s') (hc : CoverInv s) (hinv : Inv s) : CoverInv s' := by
  cases a with
  | advance dt => destruct_step h; exact hc.frame _ _ rfl rfl rfl rfl (by simp) rfl rfl
  | ePut t => destruct_step h; exact hc.frame _ _ (by simp_all [S.marking]) rfl rfl rfl (by simp) rfl (by simp_all)
  | ePull => destruct_step h; exact hc.frame _ _ (by simp_all [S.marking]) rfl rfl rfl (by simp) rfl (by simp_all)
  | eReduce => destruct_step h; exact hc.frame _ _ (by simp_all [S.marking]) rfl rfl rfl (by simp) rfl (by simp_all)
  | eDone => destruct_step h; exact hc.frame _ _ (by simp_all [S.marking]) rfl rfl rfl (by simp) rfl (by simp_all)
  | eTimerSet => destruct_step h; exact hc.frame _ _ (by simp_all [S.marking]) rfl rfl rfl (by simp) rfl (by simp_all)
  | eTimerFire => destruct_step h; exact hc.frame _ _ (by simp_all [S.marking]) rfl rfl rfl (by simp) rfl (by simp_all)
  | sCall i => destruct_step h; exact hc.frame _ _ rfl rfl rfl rfl (by simp) rfl rfl
  | eMark =>
    destruct_step h
    refine ⟨?_, ?_⟩
    · intro j hj; exact hc.tl j hj
    · intro t _ _; exact Or.inl (by simp [S.marking])
  | sAcq i =>
    destruct_step h
    all_goals (rename_i hcond _; simp only [Bool.and_eq_true, beq_iff_eq] at hcond)
    all_goals exact hc.relock _ _ (by simp [hcond.2]) (by simp [hcond.2]) (by simp [hcond.2]) (by simp) (by simp) rfl rfl rfl rfl rfl
  | sClear i => destruct_step h; exact hc.cleared _ _ (by simp) (by simp) rfl
  | sRClear i => destruct_step h; exact hc.cleared _ _ (by simp) (by simp) rfl
  | sQuery i =>
    destruct_step h
    rename_i hcond; simp only [beq_iff_eq] at hcond
    exact hc.relock _ _ (by simp [hcond]) (by simp [hcond]) (by simp [hcond]) (by simp) (by simp) rfl rfl rfl rfl rfl
  | sLog i =>
    destruct_step h
    rename_i hcond; simp only [beq_iff_eq] at hcond
    exact hc.relock _ _ (by simp [hcond]) (by simp [hcond]) (by simp [hcond]) (by simp) (by simp) rfl rfl rfl rfl rfl
  | sDeliver i =>
    destruct_step h
    · rename_i hcond x hcur; simp only [beq_iff_eq] at hcond
      exact hc.relock _ _ (by simp [hcond]) (by simp [hcond]) (by simp [hcond]) (by simp) (by simp)
        (by simp_all [S.marking]) rfl rfl rfl (by simp_all)
    · rename_i hcond x l hcur; simp only [beq_iff_eq] at hcond
      exact hc.relock _ _ (by simp [hcond]) (by simp [hcond]) (by simp [hcond]) (by simp) (by simp)
        (by simp_all [S.marking]) rfl rfl rfl (by simp_all)
  | sStart i =>
    destruct_step h
    · -- run id already registered: the exception leaves the section
      rename_i x i' snap heq hi' y l hcur
      exact hc.relock _ _ (by simp [heq]) (by simp [heq]) (by simp [heq]) (by simp) (by simp)
        (by simp_all [S.marking]) rfl rfl rfl (by simp_all)
    · rename_i x i' snap heq hi' y hcur
      refine ⟨?_, ?_⟩
      · intro j hj; simp at hj
      · intro t _ _; exact Or.inr (Or.inr (Or.inr (Or.inr ⟨i, rfl⟩)))
  | eSpawn j =>
    destruct_step h
    rename_i x l hcur hcond
    simp only [Bool.and_eq_true, beq_iff_eq] at hcond
    refine ⟨?_, ?_⟩
    · intro j' hj'
      have := hc.tl j' hj'
      by_cases e : j' = j
      · subst e; rw [hcond.2] at this; cases this
      · simp [upd_apply, e, this]
    · intro t h1 _
      have hle := (hinv.idleLe t h1).1
      refine Or.inr (Or.inl ⟨j, s.now + s.tau, by simp [upd_apply], ?_⟩)
      simp only; omega
  | tAcq j =>
    destruct_step h
    rename_i x due hts hcond
    simp only [Bool.and_eq_true, decide_eq_true_eq, beq_iff_eq] at hcond
    refine ⟨?_, ?_⟩
    · intro j' hj'
      simp only [Option.some.injEq, Hold.tQuery.injEq, reduceCtorEq, exists_false, or_false] at hj'
      subst hj'; simp [upd_apply]
    · intro t h1 h2
      rcases hc.cov t h1 h2 with c | ⟨j', due', c1, c2⟩ | ⟨j', c1, c2⟩ | ⟨j', c1, c2⟩ | ⟨i, c⟩
      · exact Or.inl c
      · by_cases e : j' = j
        · subst e; rw [hts] at c1; cases c1
          exact Or.inr (Or.inr (Or.inl ⟨j', rfl, by simp only; omega⟩))
        · exact Or.inr (Or.inl ⟨j', due', by simp [upd_apply, e, c1], c2⟩)
      · rw [hcond.2] at c1; cases c1
      · rw [hcond.2] at c1; cases c1
      · rw [hcond.2] at c; cases c
  | tQuery j =>
    destruct_step h
    rename_i hcond; simp only [beq_iff_eq] at hcond
    refine ⟨?_, ?_⟩
    · intro j' hj'
      simp only [reduceCtorEq, Option.some.injEq, Hold.tDecide.injEq, false_or] at hj'
      obtain ⟨seen, hj', _⟩ := hj'
      subst hj'; exact hc.tl _ (Or.inl hcond)
    · intro t h1 h2
      rcases hc.cov t h1 h2 with c | ⟨j', due', c1, c2⟩ | ⟨j', c1, c2⟩ | ⟨j', c1, c2⟩ | ⟨i, c⟩
      · exact Or.inl c
      · exact Or.inr (Or.inl ⟨j', due', c1, c2⟩)
      · exact Or.inr (Or.inr (Or.inr (Or.inl ⟨j, by simp only at h1 ⊢; rw [h1], c2⟩)))
      · rw [hcond] at c1; cases c1
      · rw [hcond] at c; cases c
  | tDecide j =>
    -- the holder leaves: either it was not the covering task (some other cover remains), or it was, and then it releases
    have key : ∀ (s1 : S) (seen : Option Nat), s.lock = some (.tDecide j seen) →
        s1.lock = none → s1.timers = upd s.timers j .done → s1.tau = s.tau → s1.now = s.now →
        s1.idleSince = s.idleSince → s1.cur = s.cur →
        (∀ t, seen = some t → t + s.tau ≤ s.now → s.idleSince = some t → s.cur.isSome = true → False) → CoverInv s1 := by
      intro s1 seen hl l1 t1 tau1 now1 i1 c1 hno
      have hlocked := hc.tl j (Or.inr ⟨seen, hl⟩)
      refine ⟨?_, ?_⟩
      · intro j' hj'; rw [l1] at hj'; simp at hj'
      · intro t h1 h2
        rw [i1] at h1; rw [c1] at h2
        rcases hc.cov t h1 h2 with c | ⟨j', due', d1, d2⟩ | ⟨j', d1, d2⟩ | ⟨j', d1, d2⟩ | ⟨i, c⟩
        · exact Or.inl (by simpa [S.marking, c1] using c)
        · by_cases e : j' = j
          · subst e; rw [hlocked] at d1; cases d1
          · exact Or.inr (Or.inl ⟨j', due', by rw [t1]; simp [upd_apply, e, d1], by rw [tau1]; exact d2⟩)
        · rw [hl] at d1; cases d1
        · rw [hl] at d1; simp only [Option.some.injEq, Hold.tDecide.injEq] at d1
          exact (hno t d1.2 d2 h1 h2).elim
        · rw [hl] at c; cases c
    destruct_step h
    · rename_i x j' hj seen heq
      subst hj
      exact key _ none heq rfl rfl rfl rfl rfl rfl (by intro t e; cases e)
    · rename_i x j' hj seen t0 heq hshort
      subst hj
      refine key _ (some t0) heq rfl rfl rfl rfl rfl rfl ?_
      intro t e hle _ _
      cases e
      simp only [GenLifecycle.elapsedTooShort, decide_eq_true_eq] at hshort
      omega
    · rename_i x j' hj seen t0 heq hshort hact
      subst hj
      refine key _ (some t0) heq rfl rfl rfl rfl rfl rfl ?_
      intro t e hle _ hcur
      have := hinv.act
      simp_all
    · -- released: no loop is registered any more
      rename_i x j' hj seen t0 heq hshort hact
      refine ⟨?_, ?_⟩
      · intro j' hj'; simp at hj'
      · intro t _ h2; simp at h2

theorem CoverInv.stepD (s : S) (a : Act) (hc : CoverInv s) (hinv : Inv s) : CoverInv (stepD s a) := by
  rcases stepD_eq s a with e | e
  · rw [e]; exact hc
  · exact hc.step _ _ _ e hinv

theorem CoverInv.run (acts : List Act) (s : S) (hc : CoverInv s) (hinv : Inv s) : CoverInv (run s acts) := by
  induction acts generalizing s with
  | nil => exact hc
  | cons a as ih => exact ih _ (hc.stepD s a hinv) (hinv.stepD s a)

end Lifecycle
