import WfModel.GenHandlerStatus
/-!
M4b — the stored handler record's status machine, as the in-process server stack drives it.

One handler row (`PersistentHandler`: run id, status, error, result, `completed_at`,
`updated_at`, `idle_since`) plus what the adapters leave behind (event log, live stream,
back-off slept).  Operations, each mirroring one piece of code **as it is**:

* `uhs`        — `AbstractWorkflowStore.update_handler_status` (neither store overrides it): load by
                 run id, *no look at the stored status*, overwrite the given fields, `completed_at`
                 stamped for the statuses of the generated tuple; run not found → skipped;
* `retry`      — `ServerRuntimeDecorator._retry_store_write`: one attempt plus one per back-off entry,
                 the last failure propagates;
* `start`      — `run_workflow_handler`: upsert of a fresh `running` row (retried);
* `writeEvent` — `_ServerInternalRunAdapter.write_to_event_stream`: unless replaying, the status update
                 chosen by the generated `isinstance` chain over the event's class linearisation
                 (retried), **then** `append_event` (not retried); then always forward to the inner
                 adapter, where `_IdleReleaseInternalRunAdapter` writes `status="running", idle_since=now`
                 for a `WorkflowIdleEvent` (not retried) before passing the event on;
* `idleClear`  — `update_handler_status(run, idle_since=None)` (external `send_event`, reload);
* `cancel`     — the guard of `_WorkflowService.cancel_handler`;
* `restart`    — `PersistenceDecorator._on_server_start` for this row, given what
                 `context_from_ticks` returned (nothing / resumable / exit command / raised).

Transient store faults are counters (`failUhs`, `failApp`, `failUpd`): a call of that store method
raises while its counter is positive.  A `false` result means: the exception left the operation
(for `writeEvent`: it propagates into the control loop, which ends the run).
Times are a logical clock (one tick per store call that reaches the store).
-/
namespace HandlerStatus

inductive Status | running | completed | failed | cancelled
deriving DecidableEq, Repr

def Status.name : Status → String
  | .running => "running" | .completed => "completed" | .failed => "failed" | .cancelled => "cancelled"

def Status.ofName? (s : String) : Option Status :=
  if s == "running" then some .running else if s == "completed" then some .completed
  else if s == "failed" then some .failed else if s == "cancelled" then some .cancelled else none

/-- `is_terminal_status` -/
def Status.isTerminal (s : Status) : Bool := GenHandlerStatus.terminalStatuses.contains s.name

def Status.stampsCompletedAt (s : Status) : Bool := GenHandlerStatus.completedAtStatuses.contains s.name

/-- error texts the stack writes -/
inductive Err
  | exc (n : Nat)          -- `str(event.exception)` / `str(command.exception)`
  | timeout (t : Nat)      -- "Workflow timed out after {t}s"
  | noState                -- "handler crashed before persisting any state; cannot resume"
  | store (n : Nat)        -- text of an exception raised by the store / by the replay
deriving DecidableEq, Repr

/-- the event classes the adapters tell apart -/
inductive EvKind | stop | failed | timedOut | cancelled | idleReleased | idle | other
deriving DecidableEq, Repr

def EvKind.cls : EvKind → String
  | .stop => "StopEvent" | .failed => "WorkflowFailedEvent" | .timedOut => "WorkflowTimedOutEvent"
  | .cancelled => "WorkflowCancelledEvent" | .idleReleased => "IdleReleasedEvent"
  | .idle => "WorkflowIdleEvent" | .other => "StepStateChanged"

/-- the classes `isinstance(event, ·)` is true for -/
def EvKind.mro (k : EvKind) : List String := (GenHandlerStatus.mro.lookup k.cls).getD []

/-- `tok`: exception id (failed), timeout (timedOut), uid of the result (stop) -/
structure Ev where
  kind : EvKind
  tok : Nat := 0
deriving DecidableEq, Repr

/-- first branch of the `isinstance` chain that takes the event -/
def statusRow (k : EvKind) : Option (String × String × Bool × Bool) :=
  GenHandlerStatus.eventStatusTable.find? (fun r => k.mro.contains r.1)

def Ev.err (e : Ev) : Err := match e.kind with | .timedOut => .timeout e.tok | _ => .exc e.tok

/-- arguments of `_handle_status_update` for the event; `none`: no status update -/
def statusArgs (e : Ev) : Option (Status × Option Err × Option Nat) :=
  match statusRow e.kind with
  | none => none
  | some (_, s, err, res) =>
    match Status.ofName? s with
    | none => none
    | some st => some (st, if err then some e.err else none, if res then some e.tok else none)

structure Rec where
  runId : Nat
  status : Status
  error : Option Err := none
  result : Option Nat := none
  completedAt : Option Nat := none
  updatedAt : Nat := 0
  idleSince : Option Nat := none
deriving DecidableEq, Repr

structure St where
  row : Option Rec := none
  clock : Nat := 0
  /-- `append_event` log: (run, class) -/
  events : List (Nat × EvKind) := []
  /-- what reached the innermost adapter (the live stream) -/
  published : List (Nat × EvKind) := []
  /-- deferred-release tasks spawned by the idle adapter -/
  releases : Nat := 0
  failUhs : Nat := 0
  failApp : Nat := 0
  failUpd : Nat := 0
  backoff : List Nat := GenHandlerStatus.defaultBackoffMs
  slept : Nat := 0
  /-- the stack was built with an `IdleReleaseDecorator` -/
  idleLayer : Bool := true
deriving Repr

/-- keyword arguments of `update_handler_status`; `idle = none` is `_UNSET` -/
structure UArgs where
  status : Option Status := none
  result : Option Nat := none
  error : Option Err := none
  idle : Option (Option Nat) := none
deriving Repr

def Rec.apply (r : Rec) (a : UArgs) (now : Nat) : Rec :=
  { r with
    status := a.status.getD r.status
    updatedAt := now
    completedAt := if (a.status.map Status.stampsCompletedAt).getD false then some now else r.completedAt
    result := match a.result with | some x => some x | none => r.result
    error := match a.error with | some x => some x | none => r.error
    idleSince := match a.idle with | some v => v | none => r.idleSince }

/-- `update_handler_status` -/
def St.uhs (s : St) (run : Nat) (a : UArgs) : St × Bool :=
  if s.failUhs > 0 then ({ s with failUhs := s.failUhs - 1 }, false) else
  let now := s.clock + 1
  match s.row with
  | none => ({ s with clock := now }, true)
  | some r =>
    if r.runId = run then ({ s with clock := now, row := some (r.apply a now) }, true)
    else ({ s with clock := now }, true)

/-- `_retry_store_write` over the remaining back-offs -/
def retry (w : St → St × Bool) : List Nat → St → St × Bool
  | [], s => w s
  | b :: bs, s =>
    match w s with
    | (s', true) => (s', true)
    | (s', false) => retry w bs { s' with slept := s'.slept + b }

/-- `store.update(PersistentHandler(status=<startStatus>, run_id=…))`: the whole row is replaced -/
def St.upsert (s : St) (run : Nat) : St × Bool :=
  if s.failUpd > 0 then ({ s with failUpd := s.failUpd - 1 }, false) else
  match Status.ofName? GenHandlerStatus.startStatus with
  | none => (s, false)
  | some st0 =>
    let now := s.clock + 1
    ({ s with clock := now, row := some { runId := run, status := st0, updatedAt := now } }, true)

/-- `run_workflow_handler` -/
def St.start (s : St) (run : Nat) : St × Bool := retry (fun x => x.upsert run) s.backoff s

def St.append (s : St) (run : Nat) (e : Ev) : St × Bool :=
  if s.failApp > 0 then ({ s with failApp := s.failApp - 1 }, false)
  else ({ s with events := s.events ++ [(run, e.kind)] }, true)

/-- sequencing of store operations: an exception (`false`) skips the rest -/
def andThen (r : St × Bool) (f : St → St × Bool) : St × Bool := if r.2 then f r.1 else r

def St.publish (s : St) (run : Nat) (e : Ev) (release : Bool) : St × Bool :=
  ({ s with published := s.published ++ [(run, e.kind)], releases := if release then s.releases + 1 else s.releases }, true)

/-- the adapters below the server adapter: idle adapter (if any), then the live stream -/
def St.forward (s : St) (run : Nat) (e : Ev) : St × Bool :=
  if s.idleLayer && e.kind.mro.contains GenHandlerStatus.idleClass then
    andThen (s.uhs run { status := Status.ofName? GenHandlerStatus.idleStatus, idle := some (some (s.clock + 1)) })
      (fun x => x.publish run e true)
  else s.publish run e false

/-- the status update of the `isinstance` chain, through `_handle_status_update` -/
def St.statusWrite (s : St) (run : Nat) (e : Ev) : St × Bool :=
  match statusArgs e with
  | some (st, err, res) => retry (fun x => x.uhs run { status := some st, result := res, error := err }) s.backoff s
  | none => (s, true)

/-- `_ServerInternalRunAdapter.write_to_event_stream` -/
def St.writeEvent (s : St) (run : Nat) (e : Ev) (replaying : Bool) : St × Bool :=
  andThen (if replaying then (s, true) else andThen (s.statusWrite run e) (fun x => x.append run e))
    (fun x => x.forward run e)

def St.idleClear (s : St) (run : Nat) : St × Bool := s.uhs run { idle := some none }

/-! ### `_WorkflowService.cancel_handler` (the guard; the run's reaction is a `writeEvent`) -/

inductive CancelRes | none | cancelled | deleted
deriving DecidableEq, Repr

/-- result, and the run whose cancellation is requested -/
def St.cancel (s : St) (purge : Bool) : St × CancelRes × Option Nat :=
  match s.row with
  | none => (s, .none, none)
  | some r =>
    if !purge && r.status.isTerminal then (s, .none, none) else
    let req := if r.status.isTerminal then none else some r.runId
    if purge then ({ s with row := none }, .deleted, req) else (s, .cancelled, req)

/-- `cancel_handler` including `_cancel_run`.  `inMemory`: the run's control loop is alive in this process.
Then `cancel_run()` delivers `TickCancelRun`, the loop publishes `WorkflowCancelledEvent` through the run's
adapter and the handler object is awaited.  A run that was *released while idle* is not in memory: building the
`WorkflowHandler` starts a result task that fails at once ("No active workflow with run_id"), so `run.done()`
is already true, `cancel_run()` is skipped, nothing reloads the run — and the service still answers `cancelled`.
(Store exceptions inside `_cancel_run` are swallowed there; the race with a run that ends first is left to C04.) -/
def St.cancelHandler (s : St) (purge : Bool) (inMemory : Bool) : St × CancelRes :=
  match s.row with
  | none => (s, .none)
  | some r =>
    if !purge && r.status.isTerminal then (s, .none) else
    let s1 := if !r.status.isTerminal && inMemory then (s.writeEvent r.runId { kind := .cancelled } false).1 else s
    if purge then ({ s1 with row := none }, .deleted) else (s1, .cancelled)

/-! ### `_on_server_start` -/

inductive ExitKind
  | completeStop (uid : Nat) | completeIdleReleased | fail (exc : Nat) | haltCancel | haltTimeout (t : Nat)
deriving DecidableEq, Repr

def ExitKind.label : ExitKind → List String
  | .completeStop _ => ["CommandCompleteRun"]
  | .completeIdleReleased => ["CommandCompleteRun/IdleReleasedEvent", "CommandCompleteRun"]
  | .fail _ => ["CommandFailWorkflow"]
  | .haltCancel => ["CommandHalt/WorkflowCancelledByUser", "CommandHalt"]
  | .haltTimeout _ => ["CommandHalt"]

/-- `handler_status_from_exit_command`: first row of the generated table that applies -/
def exitArgs (x : ExitKind) : Option UArgs :=
  match GenHandlerStatus.exitTable.find? (fun r => x.label.contains r.1) with
  | some (_, some (s, err, res)) =>
    some { status := Status.ofName? s
           error := if err then (match x with
                                 | .fail n => some (.exc n) | .haltTimeout t => some (.timeout t) | _ => some (.exc 0)) else none
           result := if res then (match x with | .completeStop u => some u | _ => some 0) else none }
  | _ => none

/-- what `context_from_ticks` gave for the row's run -/
inductive Replay
  | noState | resumable | exit (x : ExitKind) | raised (n : Nat)
deriving DecidableEq, Repr

inductive RestartRes | skipped | resumed | finalized | markedFailed | lost
deriving DecidableEq, Repr

/-- the except branch: mark failed with the exception text; a second failure is only logged -/
def St.markFailed (s : St) (run : Nat) (n : Nat) : St × RestartRes :=
  let r := s.uhs run { status := some .failed, error := some (.store n) }
  (r.1, if r.2 then .markedFailed else .lost)

/-- one row of `_on_server_start`; `fault` is the text id of an injected store exception -/
def St.restart (s : St) (rp : Replay) (active : Bool) (fault : Nat) : St × RestartRes :=
  match s.row with
  | none => (s, .skipped)
  | some r =>
    if !(GenHandlerStatus.resumeStatusIn.contains r.status.name) || r.idleSince.isSome || active then (s, .skipped) else
    match rp with
    | .noState =>
      let w := s.uhs r.runId { status := some .failed, error := some .noState }
      if w.2 then (w.1, .markedFailed) else w.1.markFailed r.runId fault
    | .resumable => (s, .resumed)
    | .raised n => s.markFailed r.runId n
    | .exit x =>
      match exitArgs x with
      | none => (s, .resumed)
      | some a =>
        let w := s.uhs r.runId a
        if w.2 then (w.1, .finalized) else w.1.markFailed r.runId fault

end HandlerStatus
