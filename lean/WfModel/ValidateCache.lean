import WfModel.Validate
import WfModel.GenValidateCache
/-!
M10 (extension) — what `_validate_workflow` returns besides the flag, and the life of a verdict:
`Workflow.__init__`, `Workflow.add_step`, `Workflow.validate()` and the cached `Workflow._validate()`
that `run()` calls (`workflow.py`).

* `validateFull` is `_validate_workflow` with its whole result record: the start and stop classes, the
  `catch_error_handlers` descriptors, the `handler_for_step` routing table and the flag.
* A *session* is a chain of `Workflow` subclasses (class `k+1` derives from class `k`, class `0` from
  `Workflow`) and instances of them.  A class has its methods (fixed when the class statement runs, as
  `get_steps_from_class` reads them), the free-function steps added later (`cls._step_functions`, its own
  dict per class: `WorkflowMeta.__init__`) and possibly its *own* `_step_functions_version`; without one
  the attribute is inherited, so the version an instance sees is the nearest own value up the chain
  (`Workflow._step_functions_version = 0` at the root).  `add_step` stores the function and bumps the
  version *seen* by the class into the class's own attribute.
* An instance keeps its `skip_graph_checks`, `disable_validation`, and what `_validate` assigns after a
  successful `_validate_workflow`: start/stop classes, handler descriptors, routing table,
  `_validation_result`, `_validated_version` (`none` = the initial `-1`).
* The increment of `add_step`, the staleness test and which entry point forces re-validation are read
  from `Gen.C23c` (regenerated from the source).
-/
namespace ValidateCache
open Validate

/-! ### the result record of `_validate_workflow` -/

structure Result where
  start : Cls
  stop : Cls
  handlers : List Handlers.Decl
  routes : List (Nat × Nat)
  hitl : Bool
deriving Repr, DecidableEq

/-- `handler_for_step.items()`, listed in step order -/
def routesOf (W : List Step) : List (Nat × Nat) :=
  (names W).filterMap fun n => (Handlers.handlerFor (names W) (handlerDecls W) n).map fun h => (n, h)

/-- `_validate_workflow`, whole result -/
def validateFull (H : Hier) (W : List Step) (skip : List Nat) : Except Err Result :=
  if W.isEmpty then .error .noSteps else
  match ensureStart H W with
  | .error e => .error e
  | .ok start =>
    match ensureStop H W with
    | .error e => .error e
    | .ok stop =>
      if !(acceptingStop H W).isEmpty then .error (.acceptsStop (acceptingStop H W)) else
      if !(unconsumed H W start).isEmpty then .error (.consumedNotProduced (unconsumed H W start)) else
      if !(unused H W start).isEmpty then .error (.producedNotConsumed (unused H W start)) else
      if !Handlers.valid (names W) (handlerDecls W) then
        .error (if (handlerDecls W).all (fun h => decide (1 ≤ h.maxRec)) then .handlerStructure else .handlerMaxRec)
      else
        let g := validateGraph H W start skip
        if g.none then
          .ok { start, stop, handlers := handlerDecls W, routes := routesOf W, hitl := usesHitl H W start }
        else .error (.graph g)

/-! ### classes, instances -/

structure Inst where
  cls : Nat
  skip : List Nat
  disabled : Bool
  start : Cls
  stop : Cls
  handlers : List Handlers.Decl := []
  routes : List (Nat × Nat) := []
  result : Option Bool := none
  vver : Option Nat := none
deriving Repr, DecidableEq

structure ClassSt where
  methods : List Step
  free : List Step := []
  own : Option Nat := none
deriving Repr, DecidableEq

/-- `{**methods, **cls._step_functions}` (names are distinct, so this is concatenation) -/
def ClassSt.steps (c : ClassSt) : List Step := c.methods ++ c.free

structure State where
  classes : List ClassSt := []
  insts : List Inst := []
deriving Repr, DecidableEq

/-- attribute lookup of `_step_functions_version` along the chain, `v0` being what the base classes give -/
def visFrom (v0 : Nat) : List ClassSt → Nat → Nat
  | [], _ => v0
  | c :: _, 0 => c.own.getD v0
  | c :: cs, k + 1 => visFrom (c.own.getD v0) cs k

/-- `cls._step_functions_version` as class `k` sees it -/
def vis (S : State) (k : Nat) : Nat := visFrom 0 S.classes k

inductive Act where
  | newClass (methods : List Step)
  | addStep (k : Nat) (s : Step)
  | construct (k : Nat) (skip : List Nat) (disabled : Bool)
  | validate (i : Nat)
  | runValidate (i : Nat)
deriving Repr, DecidableEq

inductive Resp where
  | ok
  | inst (i : Nat)
  | flag (b : Bool)
  | err (e : Err)
  | dup
  | bad
deriving Repr, DecidableEq

/-- `Workflow.__init__`: start / stop inference, then the check of the skip names -/
def construct (H : Hier) (S : State) (k : Nat) (skip : List Nat) (disabled : Bool) : State × Resp :=
  match S.classes[k]? with
  | none => (S, .bad)
  | some c =>
    match ensureStart H c.steps with
    | .error e => (S, .err e)
    | .ok start =>
      match ensureStop H c.steps with
      | .error e => (S, .err e)
      | .ok stop =>
        if skip.any (fun x => decide (2 < x)) then (S, .err .unknownCheck)
        else ({ S with insts := S.insts ++ [{ cls := k, skip, disabled, start, stop }] }, .inst S.insts.length)

/-- `Workflow.add_step` -/
def addStep (S : State) (k : Nat) (s : Step) : State × Resp :=
  match S.classes[k]? with
  | none => (S, .bad)
  | some c =>
    if (names c.steps).contains s.name then (S, .dup)
    else
      ({ S with classes := S.classes.set k { c with free := c.free ++ [s], own := some (vis S k + Gen.C23c.versionBump) } }, .ok)

/-- `stale = self._validated_version != self.__class__._step_functions_version` -/
def stale (S : State) (x : Inst) : Bool :=
  if Gen.C23c.staleIsVersionMismatch then x.vver != some (vis S x.cls) else false

/-- `Workflow._validate(force=…)` without resources -/
def validateAt (H : Hier) (S : State) (i : Nat) (force : Bool) : State × Resp :=
  match S.insts[i]? with
  | none => (S, .bad)
  | some x =>
    match S.classes[x.cls]? with
    | none => (S, .bad)
    | some c =>
      if x.disabled && !force then (S, .flag false)
      else
        match (if !force && !stale S x then x.result else none) with
        | some b => (S, .flag b)
        | none =>
          match validateFull H c.steps x.skip with
          | .error e => (S, .err e)
          | .ok r =>
            let x' : Inst := { x with
              start := r.start, stop := r.stop, handlers := r.handlers, routes := r.routes,
              result := some r.hitl, vver := some (vis S x.cls) }
            ({ S with insts := S.insts.set i x' }, .flag r.hitl)

def step (H : Hier) (S : State) : Act → State × Resp
  | .newClass methods =>
    if decide (names methods).Nodup then ({ S with classes := S.classes ++ [{ methods }] }, .ok) else (S, .bad)
  | .addStep k s => addStep S k s
  | .construct k skip disabled => construct H S k skip disabled
  | .validate i => validateAt H S i Gen.C23c.validateForces
  | .runValidate i => validateAt H S i Gen.C23c.runForces

def run (H : Hier) : State → List Act → State
  | S, [] => S
  | S, a :: as => run H (step H S a).1 as

/-- what a fresh `_validate_workflow` on the given steps would make `validate()` answer -/
def respOf : Except Err Result → Resp
  | .ok r => .flag r.hitl
  | .error e => .err e

end ValidateCache
