import WfModel.GenWorkerCleanup
/-!
# `_ControlLoopRunner.cleanup_tasks`: stopping the other step workers when a run ends (workflows/runtime/control_loop.py)

```
for task in self.worker_tasks:
    task.cancel()
try:
    if self.worker_tasks:
        await asyncio.wait_for(asyncio.gather(*self.worker_tasks, return_exceptions=True), timeout=0.5)
except Exception:
    pass
self.worker_tasks.clear()
```
Every ending (StopEvent, step failure, timeout, user cancel) runs this BEFORE the terminal event is published.

What a cancelled step body still does is user code: it may have an asynchronous teardown (`finally: await
client.aclose()`), may catch the `CancelledError`, may write to the stream when it is through.  Model of the rest of a
cancelled body: a list of **segments**; each waits `len` time units, then possibly says a word on the stream; `react`
is what a FURTHER cancellation does while the segment is waiting: `abort` (the `CancelledError` leaves the body:
nothing more is written), `skip` (caught: the waiting is over at once, the body goes on), `ignore` (caught and the
waiting resumed: the segment takes its full time).

Time is in eighths of a second from the moment of the first `task.cancel()`.

The await (`Await`): `waitForGather` — `wait_for` lets the grace period pass; if the gather is not done by then it
cancels it, which cancels every worker still running **once more**, and returns only when the gather is done, i.e. when
every worker is done (a worker that swallows the second cancellation is waited for).  `waitOnly` — `asyncio.wait(tasks,
timeout=grace)`: returns when all are done or the grace period is over, whichever is first; nobody is cancelled again
and whoever is still running keeps running.  `cleanup` returns when the method returns: the terminal event is published
right then.

Ties (a segment of a worker that would end in the very instant the grace period expires while the second cancellation
is still to come) are decided by the order of two timers with equal deadlines; the model lets the segment end first and
`hasTie` reports them (the driver answers `tie`; the generators avoid them).
-/
namespace WorkerCleanup

inductive React | abort | skip | ignore
  deriving DecidableEq, Repr

structure Seg where
  len : Nat
  react : React
  write : Bool
  deriving DecidableEq, Repr

abbrev Prog := List Seg

structure Res where
  done : Nat
  writes : List Nat
  deriving DecidableEq, Repr

def wr (b : Bool) (t : Nat) : List Nat := if b then [t] else []

/-- the rest of a cancelled body from time `t`; `c = some ct`: one further cancellation arrives at `ct` (if the body
is still waiting somewhere then) -/
def runProg : Prog → Nat → Option Nat → Res
  | [], t, _ => ⟨t, []⟩
  | s :: r, t, none =>
    let x := runProg r (t + s.len) none
    ⟨x.done, wr s.write (t + s.len) ++ x.writes⟩
  | s :: r, t, some ct =>
    if ct < t + s.len then
      match s.react with
      | .abort => ⟨ct, []⟩
      | .skip =>
        let x := runProg r ct none
        ⟨x.done, wr s.write ct ++ x.writes⟩
      | .ignore =>
        let x := runProg r (t + s.len) none
        ⟨x.done, wr s.write (t + s.len) ++ x.writes⟩
    else
      let x := runProg r (t + s.len) (some ct)
      ⟨x.done, wr s.write (t + s.len) ++ x.writes⟩

/-- some waiting segment ends exactly at `ct` while the cancellation at `ct` is still to come -/
def hasTie : Prog → Nat → Nat → Bool
  | [], _, _ => false
  | s :: r, t, ct =>
    if ct < t + s.len then false
    else (s.len != 0 && t + s.len == ct) || hasTie r (t + s.len) ct

inductive Await | waitForGather | waitOnly | other
  deriving DecidableEq, Repr

def maxList : List Nat → Nat
  | [] => 0
  | x :: r => max x (maxList r)

structure Out where
  /-- when `cleanup_tasks` returns -/
  returned : Nat
  /-- per worker: when it is done, and when it writes -/
  workers : List Res
  deriving DecidableEq, Repr

/-- `none`: not modelled (the await has another shape) -/
def cleanup (a : Await) (grace : Nat) (ws : List Prog) : Option Out :=
  match a with
  | .waitForGather =>
    let rs := ws.map fun p => runProg p 0 (some grace)
    some ⟨maxList (rs.map (·.done)), rs⟩
  | .waitOnly =>
    let rs := ws.map fun p => runProg p 0 none
    some ⟨min grace (maxList (rs.map (·.done))), rs⟩
  | .other => none

/-- workers (by position) still running when `cleanup_tasks` has returned -/
def Out.alive (o : Out) : List Nat :=
  (o.workers.zipIdx.filter fun x => o.returned < x.1.done).map (·.2)

/-- (time, worker) of the writes that happen after `cleanup_tasks` has returned, i.e. after the terminal event -/
def Out.late (o : Out) : List (Nat × Nat) :=
  o.workers.zipIdx.flatMap fun x => (x.1.writes.filter fun t => o.returned < t).map fun t => (t, x.2)

/-- all writes, as (time, worker), ordered by time (ties: by worker) -/
def insertPair (x : Nat × Nat) : List (Nat × Nat) → List (Nat × Nat)
  | [] => [x]
  | y :: r => if x.1 < y.1 || (x.1 == y.1 && x.2 ≤ y.2) then x :: y :: r else y :: insertPair x r

def Out.allWrites (o : Out) : List (Nat × Nat) :=
  (o.workers.zipIdx.flatMap fun x => x.1.writes.map fun t => (t, x.2)).foldl (fun acc x => insertPair x acc) []

/-- the await of the current source -/
def srcAwait : Await :=
  if GenWorkerCleanup.found && GenWorkerCleanup.cancelsEvery && GenWorkerCleanup.cancelBeforeAwait
      && GenWorkerCleanup.awaitCount == 1 && GenWorkerCleanup.clearAfterAwait then
    (if GenWorkerCleanup.awaitShape == 1 && GenWorkerCleanup.awaitGuarded then .waitForGather
     else if GenWorkerCleanup.awaitShape == 2 then .waitOnly else .other)
  else .other

def srcGrace : Nat := GenWorkerCleanup.graceEighths

end WorkerCleanup
