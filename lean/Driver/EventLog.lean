import WfModel.EventLog
import WfModel.EventLogWriters
import Driver.Util
open EventLog Drv
/-!
Line protocol for the event-log model (one op per line, fields separated by `|`).
The driver keeps one model machine per run id, the handler table, global subscriber
ids, and the endpoint-level subscribers.  Every op is built from the model's atomic
actions (`step`) and spec functions only.

  backend|mem / backend|sql / backend|poll     (re)start with that store
  append|run|tag|type|types                    -> seq=<n> deliver=<...>
  xappend|run|tag|type|types                   (sql only: another writer; nobody notified)
  trim|run|n                                   storage-level deletion of the n oldest
  open|run|after                               -> sub=<id>
  next|id                                      -> item <seq>:<tag>:<T|N> | pending | end | busy | no-sub
  cancel|id
  tick                                         a poll interval passes -> deliver=<...>
  query|run|after or ~|limit or ~              -> [seq:tag:T ...]
  handler|hid|run or ~|status
  apiopen|hid|sse|q|qint|hdr|incl              -> http <code> | api=<id>
  apinext|id                                   -> frame <id or ->:<tag> | pending | end | busy | no-sub
  apicancel|id
  wbegin|w|tag|type|types                      writer w (a connection on the shared SQLite file) starts append_event -> ok | busy-writer
  wstmt|w                                      writer w executes its next SQL statement -> insert seq=<n> | busy | commit log=<seqs> | other <WORD> | idle
  wend|w                                       append_event returned / raised -> done | aborted
  wraw|w|write / wraw|w|commit                 a statement of another writing operation (handler row, tick): only the write lock matters
                                               -> write | busy | commit log=<seqs>

`poll` is the polling default `AbstractWorkflowStore.subscribe_events` run over a
SQLite store: the SQLite machine in which appends never notify.
-/
namespace Drv.EventLog

/-- the model's transition function -/
abbrev mstep := _root_.EventLog.step

structure ApiSub where
  run : String
  after : Int
  incl : Bool
  sse : Bool
  delivered : Nat
  pending : Bool
  closed : Bool

structure DSt where
  backend : Backend := .mem
  poll : Bool := false
  started : Bool := false
  runs : List (String × St) := []
  subs : List (String × Nat) := []
  handlers : List (String × Option String × String) := []
  apis : List ApiSub := []
  /-- the statement-granular writers of one run on the shared SQLite file -/
  w : WSt := WSt.init

def getRun (d : DSt) (r : String) : St :=
  match d.runs.find? (·.1 == r) with
  | some (_, s) => s
  | none => St.init

def setRun (d : DSt) (r : String) (s : St) : DSt :=
  if d.runs.any (·.1 == r) then { d with runs := d.runs.map fun p => if p.1 == r then (r, s) else p }
  else { d with runs := d.runs ++ [(r, s)] }

def parseInt? (s : String) : Option Int := s.toInt?

def parseTypes (s : String) : List String := if s.isEmpty then [] else s.splitOn ","

def showEv (e : Ev) : String := s!"{e.seq}:{e.tag}:{if e.terminal then "T" else "N"}"

def showFrame (sse : Bool) (e : Ev) : String :=
  (match frameId sse e with | some n => toString n | none => "-") ++ s!":{e.tag}"

/-- run subscriber `i` of `st` from a state in which it is ready to read, up to its next
yield (reporting the event) or until it blocks -/
def readEmit (b : Backend) (st : St) (i : Nat) : St × Option Ev :=
  let st2 := mstep b st (.read i)
  match st2.subs[i]? with
  | some x =>
    match x.phase with
    | .yielding (e :: _) => (mstep b st2 (.emit i), some e)
    | _ => (st2, none)
  | none => (st2, none)

/-- what the waiting store subscribers of run `r` deliver after `act` (`wake` or `timeout`) -/
def wakeAll (d : DSt) (r : String) (act : Nat → Act) : DSt × List String :=
  let b := d.backend
  let idxs := (List.range d.subs.length).filter fun g =>
    match d.subs[g]? with | some (r', _) => r' == r | none => false
  idxs.foldl (fun (acc : DSt × List String) g =>
    let (d, outs) := acc
    match d.subs[g]? with
    | some (_, i) =>
      let st := getRun d r
      match st.subs[i]? with
      | some x =>
        match x.phase with
        | .waiting _ =>
          let st1 := mstep b st (act i)
          match (st1.subs[i]?).map (·.phase) with
          | some Phase.reading =>
            let (st2, oe) := readEmit b st1 i
            (setRun d r st2, match oe with | some e => outs ++ [s!"s{g}={showEv e}"] | none => outs)
          | _ => (setRun d r st1, outs)
        | _ => (d, outs)
      | none => (d, outs)
    | none => (d, outs)) (d, [])

def streamComplete (k : Int) (log : List Ev) : Bool :=
  match (stream k log).getLast? with
  | some e => e.terminal
  | none => false

/-- pending endpoint subscribers of run `r` receive the next frame (or the end) -/
def apiDeliver (d : DSt) (r : String) : DSt × List String :=
  let log := (getRun d r).log
  let step1 := fun (acc : List ApiSub × List String × Nat) (a : ApiSub) =>
    let (done, outs, j) := acc
    if a.run == r && a.pending && !a.closed then
      let items := apiStream a.incl a.after log
      match items[a.delivered]? with
      | some e => (done ++ [{ a with delivered := a.delivered + 1, pending := false }], outs ++ [s!"a{j}={showFrame a.sse e}"], j + 1)
      | none =>
        if streamComplete a.after log then (done ++ [{ a with pending := false, closed := true }], outs ++ [s!"a{j}=end"], j + 1)
        else (done ++ [a], outs, j + 1)
    else (done ++ [a], outs, j + 1)
  let (apis, outs, _) := d.apis.foldl step1 ([], [], 0)
  ({ d with apis := apis }, outs)

def showDeliver (outs : List String) : String := "deliver=" ++ ",".intercalate outs

def handlerInfo (d : DSt) (hid : String) : HandlerInfo × Option String :=
  match d.handlers.find? (·.1 == hid) with
  | none => (.notFound, none)
  | some (_, none, _) => (.noRun, none)
  | some (_, some r, status) => (.run (statusTerminal status), some r)

def showSeqs (l : List Ev) : String := ",".intercalate (l.map fun e => toString e.seq)

/-- what writer `w`'s statement did, from the states before and after it -/
def describeStmt (s s' : WSt) (w : Nat) : String :=
  match (s.writers w).todo with
  | [] => "idle"
  | st :: _ =>
    let waited := (s'.writers w).todo.length == (s.writers w).todo.length
    match st with
    | .insertMax | .insertRead =>
      if waited then "busy"
      else if s'.dirty.length == s.dirty.length then "other INSERT"
      else match s'.dirty.getLast? with
        | some e => s!"insert seq={e.seq}"
        | none => "other INSERT"
    | .selectMax => "other SELECT"
    | .write => if waited then "busy" else "write"
    | .commit => "commit log=" ++ showSeqs s'.rows
    | .other => "other"

def stepBase (d : DSt) (line : String) : DSt × String :=
  match line.splitOn "|" with
  | ["backend", "mem"] => ({ backend := .mem, started := true }, "ok")
  | ["backend", "sql"] => ({ backend := .sql, started := true }, "ok")
  | ["backend", "poll"] => ({ backend := .sql, poll := true, started := true }, "ok")
  | op :: args =>
    if !d.started then (d, "bad-op") else
    let b := d.backend
    match op, args with
    | "append", [r, tag, ty, tys] =>
      match parseNat? tag with
      | some t =>
        let st := getRun d r
        if d.poll then
          let st' := mstep b st (.xappend t ty (parseTypes tys))
          (setRun d r st', s!"seq={nextSeq b st.log} " ++ showDeliver [])
        else
          let st' := mstep b st (.append t ty (parseTypes tys))
          let d1 := setRun d r st'
          let (d2, o1) := wakeAll d1 r Act.wake
          let (d3, o2) := apiDeliver d2 r
          (d3, s!"seq={nextSeq b st.log} " ++ showDeliver (o1 ++ o2))
      | none => (d, "bad-op")
    | "xappend", [r, tag, ty, tys] =>
      match parseNat? tag with
      | some t =>
        match b with
        | .mem => (d, "unsupported")
        | .sql =>
          let st := getRun d r
          (setRun d r (mstep b st (.xappend t ty (parseTypes tys))), s!"seq={nextSeq b st.log} " ++ showDeliver [])
      | none => (d, "bad-op")
    | "trim", [r, n] =>
      match parseNat? n with
      | some k => (setRun d r (mstep b (getRun d r) (.trim k)), "ok")
      | none => (d, "bad-op")
    | "open", [r, after] =>
      match parseInt? after with
      | some k =>
        let st := getRun d r
        let d1 := setRun d r (mstep b st (.openSub k))
        ({ d1 with subs := d1.subs ++ [(r, st.subs.length)] }, s!"sub={d.subs.length}")
      | none => (d, "bad-op")
    | "next", [g] =>
      match parseNat? g with
      | some g =>
        match d.subs[g]? with
        | some (r, i) =>
          let st := getRun d r
          match (st.subs[i]?).map (·.phase) with
          | some Phase.done => (d, "end")
          | some Phase.closed => (d, "end")
          | some (Phase.waiting _) => (d, "busy")
          | some _ =>
            let st1 := mstep b st (.init i)
            let (st2, oe) := readEmit b st1 i
            (setRun d r st2, match oe with | some e => "item " ++ showEv e | none => "pending")
          | none => (d, "no-sub")
        | none => (d, "no-sub")
      | none => (d, "bad-op")
    | "cancel", [g] =>
      match parseNat? g with
      | some g =>
        match d.subs[g]? with
        | some (r, i) => (setRun d r (mstep b (getRun d r) (.cancel i)), "ok")
        | none => (d, "no-sub")
      | none => (d, "bad-op")
    | "tick", [] =>
      match b with
      | .mem => (d, showDeliver [])
      | .sql =>
        let rs := d.runs.map (·.1)
        let (d1, o1) := rs.foldl (fun (acc : DSt × List String) r =>
          let (d, outs) := acc
          let (d', o) := wakeAll d r Act.timeout
          (d', outs ++ o)) (d, [])
        let (d2, o2) := rs.foldl (fun (acc : DSt × List String) r =>
          let (d, outs) := acc
          let (d', o) := apiDeliver d r
          (d', outs ++ o)) (d1, [])
        -- deliveries are reported by subscriber id
        let key := fun (s : String) => ((s.drop 1).takeWhile Char.isDigit).toString.toNat?.getD 0
        let sortIds := fun (l : List String) => (l.toArray.qsort fun a c => key a < key c).toList
        (d2, showDeliver (sortIds o1 ++ sortIds o2))
    | "query", [r, after, limit] =>
      let a? : Option (Option Int) := if after == "~" then some none else (parseInt? after).map some
      let l? : Option (Option Int) := if limit == "~" then some none else (parseInt? limit).map some
      match a?, l? with
      | some a, some l => (d, "[" ++ " ".intercalate ((queryEvents b (getRun d r).log a l).map showEv) ++ "]")
      | _, _ => (d, "bad-op")
    | "handler", [hid, r, status] =>
      let entry : String × Option String × String := (hid, if r == "~" then none else some r, status)
      if d.handlers.any (·.1 == hid) then
        ({ d with handlers := d.handlers.map fun p => if p.1 == hid then entry else p }, "ok")
      else ({ d with handlers := d.handlers ++ [entry] }, "ok")
    | "apiopen", [hid, sse, q, qint, hdr, incl] =>
      let q? : Option QueryParam :=
        if q == "~" then some .absent
        else match parseChars? q with
          | some cs =>
            if qint == "x" then some (.given cs none)
            else (parseInt? qint).map fun n => .given cs (some n)
          | none => none
      let h? : Option HeaderVal :=
        if hdr == "~" then some .absent
        else if hdr == "x" then some (.given none)
        else (parseInt? hdr).map fun n => .given (some n)
      match parseBool? sse, q?, h?, parseBool? incl with
      | some sse, some q, some h, some incl =>
        if d.poll then (d, "unsupported") else
        let (info, run?) := handlerInfo d hid
        let log := match run? with | some r => (getRun d r).log | none => []
        match resolveStream b log info (resolveParam sse q h) with
        | .http code => (d, s!"http {code}")
        | .streamFrom k =>
          let a : ApiSub := { run := run?.getD "", after := k, incl := incl, sse := sse, delivered := 0, pending := false, closed := false }
          ({ d with apis := d.apis ++ [a] }, s!"api={d.apis.length}")
      | _, _, _, _ => (d, "bad-op")
    | "apinext", [j] =>
      match parseNat? j with
      | some j =>
        match d.apis[j]? with
        | some a =>
          if a.closed then (d, "end")
          else if a.pending then (d, "busy")
          else
            let log := (getRun d a.run).log
            let setA := fun (a' : ApiSub) => { d with apis := d.apis.set j a' }
            match (apiStream a.incl a.after log)[a.delivered]? with
            | some e => (setA { a with delivered := a.delivered + 1 }, "frame " ++ showFrame a.sse e)
            | none =>
              if streamComplete a.after log then (setA { a with closed := true }, "end")
              else (setA { a with pending := true }, "pending")
        | none => (d, "no-sub")
      | none => (d, "bad-op")
    | "apicancel", [j] =>
      match parseNat? j with
      | some j =>
        match d.apis[j]? with
        | some a => ({ d with apis := d.apis.set j { a with closed := true, pending := false } }, "ok")
        | none => (d, "no-sub")
      | none => (d, "bad-op")
    | "wbegin", [w, tag, ty, tys] =>
      match parseNat? w, parseNat? tag with
      | some w, some t =>
        if (d.w.writers w).todo.isEmpty then
          ({ d with w := wstep d.w (.start w appendProgram t ty (parseTypes tys)) }, "ok")
        else (d, "busy-writer")
      | _, _ => (d, "bad-op")
    | "wstmt", [w] =>
      match parseNat? w with
      | some w =>
        let s' := wstep d.w (.exec w)
        ({ d with w := s' }, describeStmt d.w s' w)
      | none => (d, "bad-op")
    | "wend", [w] =>
      match parseNat? w with
      | some w =>
        if (d.w.writers w).todo.isEmpty then (d, "done")
        else ({ d with w := wstep d.w (.abort w) }, "aborted")
      | none => (d, "bad-op")
    | "wraw", [w, what] =>
      match parseNat? w, (if what == "write" then some Stmt.write else if what == "commit" then some Stmt.commit else none) with
      | some w, some st =>
        if !(d.w.writers w).todo.isEmpty then (d, "busy-writer") else
        let s1 := wstep d.w (.start w [st] 0 "" [])
        let s2 := wstep s1 (.exec w)
        let o := describeStmt s1 s2 w
        -- a statement that had to wait raised `database is locked`: the operation is over
        ({ d with w := if (s2.writers w).todo.isEmpty then s2 else wstep s2 (.abort w) }, o)
      | _, _ => (d, "bad-op")
    | _, _ => (d, "bad-op")
  | _ => (d, "bad-op")

/-- id of a delivery entry `s<id>=…` / `a<id>=…`; store subscribers sort before endpoint ones -/
def entryKey (e : String) : Nat × Nat :=
  let isApi := if e.startsWith "a" then 1 else 0
  (isApi, ((e.drop 1).takeWhile Char.isDigit).toString.toNat?.getD 0)

def insertEntry (e : String) : List String → List String
  | [] => [e]
  | x :: xs =>
    let (a1, a2) := entryKey e
    let (b1, b2) := entryKey x
    if a1 < b1 || (a1 == b1 && a2 < b2) then e :: x :: xs else x :: insertEntry e xs

/-- `race|g|run|tag|type|types`: `__anext__` of subscriber `g` is started and, while it is in flight, the
event is published; the answer lists everything delivered once all is quiet.  For the model this is `next`
followed by `append` (the implementation must behave as if the subscriber's read-and-wait were atomic). -/
def step (d : DSt) (line : String) : DSt × String :=
  match line.splitOn "|" with
  | ["race", g, r, tag, ty, tys] =>
    match parseNat? g, parseNat? tag with
    | some _, some _ =>
      if !d.started then (d, "bad-op") else
      let (d1, o1) := stepBase d s!"next|{g}"
      let (d2, o2) := stepBase d1 s!"append|{r}|{tag}|{ty}|{tys}"
      let mine : Option String :=
        if o1.startsWith "item " then some s!"s{g}={(o1.drop 5).toString}"
        else if o1 == "end" then some s!"s{g}=end"
        else none
      match o2.splitOn " deliver=" with
      | [hd, tl] =>
        let entries := if tl.isEmpty then [] else tl.splitOn ","
        let entries := match mine with | some e => insertEntry e entries | none => entries
        (d2, hd ++ " " ++ showDeliver entries)
      | _ => (d2, o2)
    | _, _ => (d, "bad-op")
  | _ => stepBase d line

end Drv.EventLog
