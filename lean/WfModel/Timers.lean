import WfModel.Runner
import WfModel.Serial
/-!
M1 × M7 (timers) — one handler of the in-process server stack
`ServerRuntimeDecorator(IdleReleaseDecorator(PersistenceDecorator(BasicRuntime)))`
as a labelled transition system around the runner LTS of `WfModel/Runner.lean`.

What survives when a run leaves memory is the *persisted tick log* only
(`_PersistenceInternalRunAdapter.on_tick` → `store.append_tick`) plus the handler row
(`status`, `idle_since`).  The in-memory `_ControlLoopRunner` — tick buffer, **timer heap
`scheduled_wakeups`**, mailbox (`receive_queue`), worker tasks — is discarded by

* `release` — `IdleReleaseDecorator._release_idle_handler`: enabled when `idle_since` is set and
  at least `idle_timeout` old; `_abort_inner_run` cancels the control-loop task;
* `restart` — the process stops at any point.

A run comes back through `reload`:
`context_from_ticks` (`replay_ticks_stream(BrokerState.from_workflow(wf), ticks)`: rewind, then
`_reduce_tick(tick, state, time.time())` for every persisted tick — the *current* clock, commands
discarded except that the last exit command is remembered) → `to_serialized` →
`Context.from_dict` → `workflow.run(ctx=…)` → `BrokerState.from_serialized` →
`_ControlLoopRunner.__init__` + head of `run()` = `Runner.init` with no start event.
`run()` schedules the **workflow timeout from scratch** (`start_with_timeout=True` always) and
nothing else: delayed `TickAddEvent`s and `TickWaiterTimeout`s are never re-armed.
Reload happens

* `send` — `IdleReleaseExternalRunAdapter.send_event` on a run that is not in memory
  (`_ensure_active_run_locked`), which also clears `idle_since`;
* `resume` — `PersistenceDecorator._on_server_start`: only handlers with status `running` **and
  `idle_since IS NULL`**; a replay that ended in an exit command finalises the handler instead.

Import-free apart from the engine model so that `wfdriver` links.
-/
namespace Engine

/-- handler status in the store -/
inductive HStatus | running | completed | failed | cancelled
deriving DecidableEq, Repr

/-- why an operation on the handler failed (the code raises / marks the handler failed) -/
inductive SrvErr
  | replayRaised      -- `_reduce_tick` raised during replay
  | noTicks           -- nothing persisted: `context_from_ticks` returns `None`
  | notRunning        -- rebuilt context is not running: `workflow.run` would build a fresh StartEvent
  | handlerCompleted  -- `resolve_handler`: terminal status
  | notExternal       -- the tick is not one an external party can send
deriving DecidableEq, Repr

structure SrvCfg where
  cfg : Cfg
  timeout : Option Nat := none
  idleTimeout : Nat := 60

structure Srv where
  live : Option Runner := none
  /-- ticks persisted by earlier incarnations of the run (the live one's are `live.log`) -/
  store : List Tick := []
  status : HStatus := .running
  idleSince : Option Int := none
  now : Int := 0
  err : Option SrvErr := none
  /-- how many times the run was (re)loaded into memory -/
  loads : Nat := 0

/-- what `WorkflowTickAdapter.dump_python(tick, mode="json")` keeps of a step result: `AddWaiter`
always writes `requirements = {}`, and its `has_requirements` marker is stripped again on
validation, so a persisted waiter registration comes back **without requirements** -/
def Res.stored : Res → Res
  | .addWaiter wid we _ tmo ty => .addWaiter wid we none tmo ty
  | r => r

def Tick.stored : Tick → Tick
  | .stepResult s w e rs => .stepResult s w e (rs.map Res.stored)
  | t => t

/-- everything `append_tick` has written for this run -/
def Srv.persisted (s : Srv) : List Tick :=
  s.store ++ (match s.live with | some r => r.log.map (fun p => p.1.stored) | none => [])

def lastExitOf (cmds : List Cmd) : Option Cmd := (cmds.filter Cmd.isExit).getLast?

/-- `replay_ticks_stream`: rewind, then reduce every tick at the clock of the replay;
`none` when the reducer raises -/
def tmReplayFrom (cfg : Cfg) (pol : Policy) (now : Int) : List Tick → State × Option Cmd → Option (State × Option Cmd)
  | [], acc => some acc
  | t :: ts, acc =>
    let r := reduce cfg pol t acc.1 now
    if r.2.contains .crash then none
    else tmReplayFrom cfg pol now ts (r.1, match lastExitOf r.2 with | some c => some c | none => acc.2)

def tmReplayAt (cfg : Cfg) (pol : Policy) (ticks : List Tick) (now : Int) : Option (State × Option Cmd) :=
  tmReplayFrom cfg pol now ticks ((rewind cfg initState now).1, none)

/-- `handler_status_from_exit_command` -/
def finalStatus : Cmd → Option HStatus
  | .completeRun .idleReleased => none
  | .completeRun _ => some .completed
  | .failWorkflow _ _ => some .failed
  | .halt .cancelledByUser => some .cancelled
  | .halt .timeout => some .failed
  | _ => none

/-- status written when the live control loop publishes its terminal event
(`_ServerInternalRunAdapter.write_to_event_stream`); a reducer exception writes nothing -/
def outcomeStatus : Outcome → HStatus
  | .completed .idleReleased => .running
  | .completed _ => .completed
  | .failed _ _ => .failed
  | .halted .cancelledByUser => .cancelled
  | .halted .timeout => .failed
  | .crashed => .running

inductive Reloaded
  | ok (r : Runner) (exit : Option Cmd)
  | error (e : SrvErr)

/-- `context_from_ticks` → `Context.from_dict` → `workflow.run(ctx)` -/
def reload (c : SrvCfg) (pol : Policy) (ticks : List Tick) (now : Int) : Reloaded :=
  match ticks with
  | [] => .error .noTicks
  | _ =>
    match tmReplayAt c.cfg pol ticks now with
    | none => .error .replayRaised
    | some (st, ex) =>
      let st' := roundtrip c.cfg st
      if st'.isRunning then .ok (Runner.init c.cfg st' now none c.timeout) ex
      else .error .notRunning

inductive SAct
  | run (a : Act)      -- the in-memory control loop / its environment; `advance` is the clock
  | send (t : Tick)    -- `WorkflowService.send_event` → `IdleReleaseExternalRunAdapter.send_event`
  | release            -- `_release_idle_handler` (after `_deferred_release`'s sleep)
  | restart            -- process stop
  | resume             -- `_on_server_start` for this handler
deriving Repr

/-- every `WorkflowIdleEvent` written to the stream sets `idle_since := now` -/
def trackIdle (before after : Runner) (s : Srv) : Srv :=
  if (after.stream.drop before.stream.length).contains Pub.idle then { s with idleSince := some s.now } else s

def trackOutcome (after : Runner) (s : Srv) : Srv :=
  match after.outcome with
  | some o => { s with status := outcomeStatus o }
  | none => s

/-- time that passes with an action of the run's environment -/
def Act.dt : Act → Nat
  | .advance dt => dt
  | _ => 0

def Srv.step (c : SrvCfg) (pol : Policy) (s : Srv) : SAct → Srv
  | .run a =>
    let s1 : Srv := { s with now := s.now + a.dt }
    match s.live with
    | none => s1
    | some r =>
      if r.outcome.isSome then s1 else
      let r' := r.step c.cfg pol a
      trackOutcome r' (trackIdle r r' { s1 with live := some r' })
  | .send t =>
    if s.status != .running then { s with err := some .handlerCompleted }
    else if !t.isExternal then { s with err := some .notExternal }
    else
      match s.live with
      | some r => { s with live := some (r.step c.cfg pol (.external t)), idleSince := none, err := none }
      | none =>
        match reload c pol s.persisted s.now with
        | .ok r _ =>
          { s with live := some (r.step c.cfg pol (.external t)), store := s.persisted, idleSince := none,
                   err := none, loads := s.loads + 1 }
        | .error e => { s with err := some e }
  | .release =>
    match s.live, s.idleSince with
    | some _, some t0 =>
      if s.now - t0 ≥ (c.idleTimeout : Int) then { s with live := none, store := s.persisted } else s
    | _, _ => s
  | .restart => { s with live := none, store := s.persisted }
  | .resume =>
    match s.live with
    | some _ => s
    | none =>
      if s.status != .running || s.idleSince.isSome then s
      else
        match reload c pol s.persisted s.now with
        | .error e => { s with status := .failed, err := some e }
        | .ok r ex =>
          match ex.bind finalStatus with
          | some fin => { s with status := fin }
          | none => { s with live := some r, store := s.persisted, loads := s.loads + 1 }

def Srv.run (c : SrvCfg) (pol : Policy) (s : Srv) (acts : List SAct) : Srv :=
  acts.foldl (Srv.step c pol) s

/-- `WorkflowService.start_workflow` -/
def Srv.start (c : SrvCfg) (start : Ev) (now : Int := 0) : Srv :=
  { live := some (Runner.init c.cfg initState now (some start) c.timeout), now := now, loads := 1 }

/-- the two kinds of timer the property speaks about -/
def Tick.isRetryOrWaiterTimer : Tick → Bool
  | .addEvent _ _ => true
  | .waiterTimeout _ _ => true
  | _ => false

def SAct.isCut : SAct → Bool
  | .release => true
  | .restart => true
  | _ => false

def SAct.isWake : SAct → Bool
  | .send _ => true
  | .resume => true
  | _ => false

/-- the system left to itself: no new external input (neither through the service nor through
`ctx.send_event` of code outside the run) -/
def SAct.internal : SAct → Bool
  | .run (.external _) => false
  | .send _ => false
  | _ => true

end Engine
