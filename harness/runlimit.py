"""Live drivers for C30.

**K1 / S** — real `Workflow(num_concurrent_runs=N)` instances on the real
`BasicRuntime` under the virtual-time loop, driven one *macro-op* at a time.  A
**scenario** is ``{"default_rt": bool, "ops": [op, ...]}``; every op is performed at a
quiescent point of the loop (nothing ready), then the loop runs until it is quiescent
again and the observable state is recorded:

* ``["mk", i, lim, cls, timeout]``  new workflow instance ``i`` (``lim`` = None | int,
  ``cls`` picks one of two workflow classes -- two instances may share a class)
* ``["start", i]``                  ``wf.run(...)``; run ids are 1,2,3.. per instance
* ``["start", i, opts]``            the same with ``opts`` = ``{"cleanup": k | "gate", "rid_of": r0}`` (both optional):
                                    ``cleanup`` -- the step of this run has an ASYNCHRONOUS cancellation clean-up: when it is
                                    cancelled (hard or soft cancel, time-out) it first awaits ``k`` loop iterations
                                    (``k`` an int) or its clean-up gate (``"gate"``, opened by ``clean``) before it lets
                                    the cancellation through -- step code that still executes, inside the run's slot;
                                    ``rid_of`` -- the run is started under the ``run_id`` string of run ``r0`` of the same
                                    instance, which was aborted before (``handler.cancel()`` frees the id at once; what the
                                    server's idle-release runtime does when it reloads a released run)
* ``["clean", i, r]``               open the clean-up gate of run ``r`` (its cancelled step finishes its clean-up)
* ``["open", i, r, "ok"|"fail"]``   open the gate of run ``r``'s step (it returns / raises)
* ``["hard", i, r]``                ``handler.cancel()`` (task.cancel())
* ``["soft", i, r]``                ``handler.cancel_run()`` (cancel tick to the control loop)
* ``["advance"]``                   let virtual time jump to the next timer (workflow timeouts)
* ``["snipe", i, r]``               open ``r``'s gate and hard-cancel the waiter its release wakes,
                                    before that waiter's task is stepped
* ``["drop", i]``                   forget instance ``i`` (only when it has no live run) and collect
* ``["nstart", pi, pr, j, how]``    NESTED start: the step of run ``pr`` of instance ``pi`` (which is executing,
                                    i.e. inside its run slot) calls ``wf_j.run(...)`` itself.  ``how`` = ``"ff"``
                                    (fire and forget), ``"task"`` (a task spawned by the step makes the call),
                                    ``"await"`` (the step then waits for that run to end before it goes on).
                                    The new run gets the next run id of instance ``j`` at the moment of the call
                                    (run ids are the order of the ``run()`` calls)
* ``["multi", [op, ...]]``          several of the above at the *same* quiescent point

The recorded state per instance: semaphore value (``-`` when the weak registry has no
entry), waiter queue, runs executing their step, finished runs with outcome.

**K2** — `asyncio.Semaphore` itself, stepped one ready handle at a time
(`run_sem_micro`), against the micro-level actions of the model.
"""
from __future__ import annotations

import asyncio
import gc
import warnings
from typing import Any, Callable

from workflows import Context, Workflow
from workflows.decorators import step
from workflows.errors import WorkflowCancelledByUser, WorkflowTimeoutError
from workflows.events import StartEvent, StopEvent
from workflows.plugins import basic as BASIC

from .vloop import VClock, VLoop, run_virtual

_VCLOCK = VClock()


def patch_clocks() -> None:
    from workflows.runtime import control_loop as CL
    from workflows.runtime.types import step_function as SF

    for m in (CL, SF, BASIC):
        if not isinstance(getattr(m, "time", None), VClock):
            m.time = _VCLOCK  # type: ignore[attr-defined]


class Boom(Exception):
    pass


class GateStart(StartEvent):
    rid: int


class Live:
    """The running system plus everything the harness observes about it."""

    def __init__(self, default_rt: bool):
        self.rt = BASIC.basic_runtime if default_rt else BASIC.BasicRuntime()
        self.default_rt = default_rt
        self.insts: dict[int, Any] = {}        # i -> Workflow (strong ref until dropped)
        self.cfg: dict[int, dict] = {}         # i -> {"lim","cls","timeout","order"}
        self.nruns: dict[int, int] = {}
        self.handlers: dict[tuple, Any] = {}   # (i,r) -> WorkflowHandler
        self.tasks: dict[tuple, Any] = {}      # (i,r) -> the run task (queues.complete)
        self.gates: dict[tuple, asyncio.Event] = {}
        self.modes: dict[tuple, str] = {}
        self.executing: dict[int, list] = {}   # i -> run ids inside the step body
        self.entered: set = set()
        self.events: list = []                 # ("enter"|"exit"|"taskdone"|"start", i, r, vtime)
        self.outcome: dict[tuple, str] = {}
        self.hard: set = set()                 # runs on which handler.cancel() was called
        self.soft: set = set()
        self.implicit: set = set()             # waiting runs cancelled by an expired cancel_run()
        self.dropped: set = set()
        # asynchronous cancellation clean-up of steps; run_id strings (re-used after an abort)
        self.cleanup: dict[tuple, Any] = {}    # (i,r) -> k | "gate"
        self.cgates: dict[tuple, asyncio.Event] = {}
        self.cleaning: list = []               # (i,r) whose cancelled step is inside its clean-up right now
        self.aborted: dict[tuple, int] = {}    # (i,r) -> number of handler.cancel() calls
        self.run_ids: dict[tuple, str] = {}    # (i,r) -> run_id string
        self.id_owner: dict[str, tuple] = {}   # run_id string -> latest run started under it
        self.reused: dict[tuple, int] = {}     # (i,c) -> r0: run c was started under the run_id of run r0
        # nested starts: commands handed to executing steps, what each step waits for, who started whom
        self.cmds: dict[tuple, list] = {}      # (i,r) -> [(j, how), ...] not yet performed by the step of (i,r)
        self.pending_cmds = 0
        self.awaiting: dict[tuple, tuple] = {}  # (i,r) -> (j,c): the step of (i,r) waits for run (j,c) to end
        self.nested: dict[tuple, tuple] = {}   # (j,c) -> (pi,pr,how): run (j,c) was started from the step of (pi,pr)
        self.bg: list = []                     # tasks spawned by steps (kept referenced)
        self.launch: Callable[[int, int, int, str], Any] | None = None
        self.loop: VLoop | None = None
        self._q: asyncio.Future | None = None
        self._advance = False

    # ---- workflow classes (two, so that instances can share or not share a class)
    def classes(self) -> list[type]:
        live = self

        def mk(name: str) -> type:
            async def body(i: int, r: int) -> StopEvent:
                while True:
                    await live.gates[(i, r)].wait()
                    cmds = live.cmds.get((i, r))
                    if cmds:
                        # a nested start: this step itself (or a task it spawns) calls run()
                        j, how = cmds.pop(0)
                        if how == "task":
                            async def _bg(j: int = j, how: str = how) -> None:
                                live.launch(i, r, j, how)  # type: ignore[misc]

                            live.bg.append(asyncio.ensure_future(_bg()))
                        else:
                            made = live.launch(i, r, j, how)  # type: ignore[misc]
                            if how == "await" and made is not None:
                                live.awaiting[(i, r)] = made[0]
                                try:
                                    # (not `await task`: cancelling this step must not cancel the child)
                                    await asyncio.wait({made[1]})
                                finally:
                                    live.awaiting.pop((i, r), None)
                            made = None
                        continue
                    if (i, r) in live.modes:
                        break
                    live.gates[(i, r)].clear()
                if live.modes.get((i, r)) == "fail":
                    raise Boom(f"run {i}.{r}")
                return StopEvent(result=r)

            async def work(self: Any, ctx: Context, ev: GateStart) -> StopEvent:
                i, r = self._verif_inst, ev.rid
                loop = asyncio.get_event_loop()
                live.events.append(("enter", i, r, loop.time()))
                live.entered.add((i, r))
                live.executing[i].append(r)
                try:
                    try:
                        return await body(i, r)
                    except asyncio.CancelledError:
                        # asynchronous clean-up of whatever the limit protects: still step code of THIS run
                        cu = live.cleanup.get((i, r))
                        if cu:
                            live.cleaning.append((i, r))
                            live.events.append(("cleanup", i, r, loop.time()))
                            try:
                                if cu == "gate":
                                    await live.cgates.setdefault((i, r), asyncio.Event()).wait()
                                else:
                                    for _ in range(int(cu)):
                                        await asyncio.sleep(0)
                            finally:
                                live.cleaning.remove((i, r))
                        raise
                finally:
                    live.executing[i].remove(r)
                    live.events.append(("exit", i, r, loop.time()))

            work.__name__ = "work"
            work.__qualname__ = f"{name}.work"
            return type(name, (Workflow,), {"work": step(work)})

        return [mk("GateWFa"), mk("GateWFb")]

    # ---- quiescence machinery
    def hook(self) -> bool:
        if self._advance:
            self._advance = False
            return False
        if self._q is not None and not self._q.done():
            self._q.set_result(None)
            return True
        return False

    async def quiesce(self) -> None:
        self._q = asyncio.get_event_loop().create_future()
        await self._q
        self._q = None

    def has_timer(self) -> bool:
        return any(not h._cancelled for h in self.loop._scheduled)  # type: ignore[union-attr]

    # ---- observation
    def note_done(self) -> None:
        for key in self.handlers:
            if key in self.outcome:
                continue
            t = self.tasks[key]
            if not t.done():
                continue
            if t.cancelled():
                o = "x"
            else:
                e = t.exception()
                if e is None:
                    o = "c"
                elif isinstance(e, WorkflowTimeoutError):
                    o = "t"
                elif isinstance(e, WorkflowCancelledByUser):
                    o = "u"
                elif isinstance(e, asyncio.CancelledError):
                    o = "x"
                else:
                    o = "f"
            self.outcome[key] = o

    def sem_of(self, i: int) -> Any:
        wf = self.insts.get(i)
        if wf is None:
            return None
        return self.rt._max_concurrent_runs.get(id(wf))

    def waiter_runs(self, i: int) -> list:
        """[(run id, 'p'|'w'|'x')] of the semaphore's deque, by matching futures to run tasks."""
        sem = self.sem_of(i)
        if sem is None or not sem._waiters:
            return []
        res = []
        for fut in sem._waiters:
            rid = None
            for (ii, r), t in self.tasks.items():
                if ii == i and not t.done() and getattr(t, "_fut_waiter", None) is fut:
                    rid = r
                    break
            st = "x" if fut.cancelled() else ("w" if fut.done() else "p")
            res.append((rid, st))
        return res

    def live_runs(self, i: int) -> list:
        return [r for (ii, r), t in self.tasks.items() if ii == i and not t.done()]

    def obs(self) -> dict:
        res = {}
        for i, c in self.cfg.items():
            if i in self.dropped:
                continue
            sem = self.sem_of(i)
            res[i] = {
                "lim": c["lim"],
                "sem": None if sem is None else sem._value,
                "waiters": [r for r, _ in self.waiter_runs(i)],
                "exec": sorted(self.executing[i]),
                "live": sorted(self.live_runs(i)),
                "started": self.nruns[i],
                "zombies": sorted(r for r in self.executing[i] if self.tasks.get((i, r)) is None or self.tasks[(i, r)].done()),
            }
        return res

    def state_line(self) -> str:
        parts = []
        for i in sorted(self.cfg, key=lambda k: self.cfg[k]["order"]):
            c = self.cfg[i]
            lim = "-" if c["lim"] is None else str(c["lim"])
            if i in self.dropped:
                sem_s, ws, hs = "-", "", ""
            else:
                sem = self.sem_of(i)
                sem_s = "-" if sem is None else str(sem._value)
                ws = ",".join(f"{'?' if r is None else r}{s}" for r, s in self.waiter_runs(i))
                hs = ",".join(str(r) for r in sorted(self.executing[i]))
            fs = ",".join(f"{r}{'x' if o == 'u' else o}" for (ii, r), o in sorted(self.outcome.items()) if ii == i)
            parts.append(f"I{i} lim={lim} sem={sem_s} W=[{ws}] C=[] H=[{hs}] F=[{fs}]")
        return " ; ".join(parts)


def _hard_cancel(h: Any) -> None:
    with warnings.catch_warnings():
        warnings.simplefilter("ignore")
        h.cancel()


def run_scenario(sc: dict, chooser: Callable[[Live, int], Any] | None = None, max_ops: int = 400) -> dict:
    """Run the scenario on the real runtime; returns the model op lines, the lines the
    implementation answers, the step entry/exit events and per-op snapshots.  With a
    `chooser`, ops are picked online from the observed state (after `sc["ops"]`); the
    concrete list is returned as ``ops_concrete`` (replayable without the chooser)."""
    patch_clocks()
    live = Live(bool(sc.get("default_rt")))
    ops_out: list[str] = []
    impl_out: list[str] = []
    snaps: list[dict] = []
    errors: list[str] = []
    concrete: list = []

    def emit(op: str, ans: str) -> None:
        ops_out.append(op)
        impl_out.append(ans)

    classes = live.classes()

    def register(i: int, r: int, h: Any) -> Any:
        live.handlers[(i, r)] = h
        live.run_ids[(i, r)] = h.run_id
        live.id_owner[h.run_id] = (i, r)
        t = h._external_adapter._queues.complete
        live.tasks[(i, r)] = t
        live.events.append(("start", i, r, live.loop.time()))  # type: ignore[union-attr]
        t.add_done_callback(lambda _t, i=i, r=r: live.events.append(("taskdone", i, r, live.loop.time())))  # type: ignore[union-attr]
        return t

    def launch(pi: int, pr: int, j: int, how: str) -> Any:
        """called from inside the step of run (pi,pr), or from a task that step spawned"""
        live.pending_cmds -= 1
        wf = live.insts.get(j)
        if wf is None:
            errors.append(f"nested start from {pi}.{pr}: instance {j} does not exist")
            return None
        live.nruns[j] += 1
        c = live.nruns[j]
        live.gates[(j, c)] = asyncio.Event()
        live.nested[(j, c)] = (pi, pr, how)
        try:
            h = wf.run(start_event=GateStart(rid=c))
        except Exception as e:
            errors.append(f"nested start from {pi}.{pr}: run() of instance {j} raised {type(e).__name__}: {e}")
            live.nruns[j] -= 1
            live.nested.pop((j, c))
            return None
        t = register(j, c, h)
        emit(f"nstart {pi} {pr} {j} {c}", "ok")
        return (j, c), t

    live.launch = launch

    def do_simple(op: list, post: list) -> None:
        """perform one external action now; `post` collects what to do after quiescence"""
        kind = op[0]
        if kind == "mk":
            _, i, lim, cls, timeout = op
            kw: dict[str, Any] = {"timeout": timeout}
            if lim is not None:
                kw["num_concurrent_runs"] = lim
            if not live.default_rt:
                kw["runtime"] = live.rt
            wf = classes[cls % 2](**kw)
            wf._verif_inst = i
            live.insts[i] = wf
            live.cfg[i] = {"lim": lim, "cls": cls, "timeout": timeout, "order": len(live.cfg)}
            live.nruns[i] = 0
            live.executing[i] = []
            emit(f"mk {i} {'-' if lim is None else lim}", "ok")
        elif kind == "start":
            i = op[1]
            opts = op[2] if len(op) > 2 and isinstance(op[2], dict) else {}
            live.nruns[i] += 1
            r = live.nruns[i]
            live.gates[(i, r)] = asyncio.Event()
            rkw: dict[str, Any] = {}
            if opts.get("cleanup"):
                cu = opts["cleanup"]
                if cu != "gate" and not (isinstance(cu, int) and 0 < cu <= 1000):
                    raise ValueError(f"unknown clean-up mode {cu!r}")
                live.cleanup[(i, r)] = cu
                if cu == "gate":
                    live.cgates[(i, r)] = asyncio.Event()
            if opts.get("rid_of") is not None:
                r0 = int(opts["rid_of"])
                if (i, r0) not in live.run_ids:
                    raise ValueError(f"start under the run_id of run {i}.{r0}, which does not exist")
                rkw["run_id"] = live.run_ids[(i, r0)]
                live.reused[(i, r)] = r0
            try:
                h = live.insts[i].run(start_event=GateStart(rid=r), **rkw)
            except RuntimeError as e:
                if "run_id" not in rkw:
                    raise
                # (a replayed op list on another implementation: the id is not free there)
                errors.append(f"start of run {i}.{r} under the run_id of the aborted run {i}.{opts['rid_of']} raised "
                              f"{type(e).__name__}: {e}")
                live.nruns[i] -= 1
                live.reused.pop((i, r), None)
                live.cleanup.pop((i, r), None)
                return
            register(i, r, h)
            emit(f"start {i} {r}", "ok")
        elif kind == "nstart":
            _, pi, pr, j, how = op
            if how not in ("ff", "task", "await"):
                raise ValueError(f"unknown nested start mode {how!r}")
            if pr not in live.executing.get(pi, []) or (pi, pr) in live.awaiting:
                # the step that should make the call is not there (or is blocked on a child): nothing happens
                post.append(("nstart_skipped", pi, pr, j))
            else:
                live.cmds.setdefault((pi, pr), []).append((j, how))
                live.pending_cmds += 1
                live.gates[(pi, pr)].set()
        elif kind == "open":
            _, i, r, mode = op
            live.modes[(i, r)] = mode
            live.gates[(i, r)].set()
        elif kind == "hard":
            _, i, r = op
            live.hard.add((i, r))
            live.aborted[(i, r)] = live.aborted.get((i, r), 0) + 1
            _hard_cancel(live.handlers[(i, r)])
            emit(f"cancel {i} {r}", "ok")
        elif kind == "clean":
            _, i, r = op
            live.cgates.setdefault((i, r), asyncio.Event()).set()
        elif kind == "soft":
            _, i, r = op
            live.soft.add((i, r))
            live.loop.create_task(live.handlers[(i, r)].cancel_run())  # type: ignore[union-attr]
        elif kind == "snipe":
            _, i, r = op
            live.modes[(i, r)] = "ok"
            live.gates[(i, r)].set()
            # (a replayed op list may name a run that is not in its step on THIS implementation: its task would
            # never end and the spy would keep the loop busy for ever -- then it is a plain open)
            if r in live.executing.get(i, []):
                arm_spy(i, r, post)
        elif kind == "drop":
            i = op[1]
            for key in [k for k in live.handlers if k[0] == i]:
                live.handlers.pop(key)
                live.tasks.pop(key)
            live.insts.pop(i)
            live.dropped.add(i)
            post.append(("dropped", i))
        else:
            raise ValueError(f"unknown op {op!r}")

    def arm_spy(i: int, r: int, post: list) -> None:
        loop = live.loop
        target_task = live.tasks[(i, r)]
        state: dict[str, Any] = {"fired": None, "spins": 0}
        post.append(("snipe", i, r, state))

        def spy() -> None:
            state["spins"] += 1
            if state["spins"] > 20000:  # safety net: never keep the loop from becoming quiescent
                return
            sem = live.sem_of(i)
            if sem is not None and sem._waiters:
                for fut in sem._waiters:
                    if fut.done() and not fut.cancelled():
                        for (ii, q), t in live.tasks.items():
                            if ii == i and not t.done() and getattr(t, "_fut_waiter", None) is fut:
                                live.hard.add((ii, q))
                                live.aborted[(ii, q)] = live.aborted.get((ii, q), 0) + 1
                                _hard_cancel(live.handlers[(ii, q)])
                                state["fired"] = q
                                return
            if target_task.done():
                return
            loop.call_soon(spy)  # type: ignore[union-attr]

        loop.call_soon(spy)  # type: ignore[union-attr]

    async def one(op: list) -> None:
        concrete.append(op)
        before_exec = {i: list(v) for i, v in live.executing.items()}
        before_done = set(live.outcome)
        ev0 = len(live.events)
        post: list = []
        if op[0] == "advance":
            if not live.has_timer():
                emit("show", live.state_line())
                snaps.append({"op": op, "state": impl_out[-1], "obs": live.obs(), "done": [], "sniped": {}})
                return
            live._advance = True
        elif op[0] == "multi":
            for sub in op[1]:
                do_simple(sub, post)
        else:
            do_simple(op, post)
        await live.quiesce()
        if live.pending_cmds:
            errors.append(f"{live.pending_cmds} nested start(s) of op {op!r} were not performed by their step")
            live.pending_cmds = 0
            live.cmds.clear()
        live.note_done()
        # the registry is weak: collect before looking at it (tracebacks of failed runs form cycles)
        gc.collect()
        # runs that ended since the previous quiescent point, in completion order
        newly = [k for k in live.outcome if k not in before_done]
        order = {(e[1], e[2]): n for n, e in enumerate(live.events) if e[0] == "taskdone"}
        newly.sort(key=lambda k: order.get(k, -1))
        def was_holder(i: int, r: int) -> bool:
            return r in before_exec.get(i, []) or (i, r) in live.entered or live.outcome[(i, r)] in ("c", "f", "t", "u")

        # a waiting run whose task got cancelled without handler.cancel(): cancel_run()'s
        # wait_for(timeout=5) expired and its cancellation propagated to the run task
        for (i, r) in newly:
            if live.outcome[(i, r)] == "x" and not was_holder(i, r) and (i, r) not in live.hard:
                live.hard.add((i, r))
                live.implicit.add((i, r))
                emit(f"cancel {i} {r}", "ok")
        emit("drain", "ok")
        sniped = {(p[1], p[2]): p[3] for p in post if p[0] == "snipe"}
        for (i, r) in newly:
            o = live.outcome[(i, r)]
            if was_holder(i, r):
                emit(f"finish {i} {r} {'x' if o == 'u' else o}", "ok")
                st = sniped.get((i, r))
                if st is not None and st["fired"] is not None:
                    emit(f"cancel {i} {st['fired']}", "ok")
                emit("drain", "ok")
        for p in post:
            if p[0] == "dropped" and live.cfg[p[1]]["lim"] is not None:
                emit(f"gcsync {p[1]} 0", "ok")
        for i in sorted(live.cfg):
            if i in live.dropped:
                continue
            if live.cfg[i]["lim"] is not None:
                emit(f"gcsync {i} {1 if live.sem_of(i) is not None else 0}", "ok")
        emit("settle", live.state_line())
        snaps.append({"op": op, "state": impl_out[-1], "obs": live.obs(),
                      "done": [[k[0], k[1], live.outcome[k]] for k in newly],
                      "sniped": {f"{k[0]}.{k[1]}": v["fired"] for k, v in sniped.items()},
                      "skipped": [list(p[1:]) for p in post if p[0] == "nstart_skipped"],
                      "awaiting": {f"{k[0]}.{k[1]}": list(v) for k, v in live.awaiting.items()},
                      "cleaning": [list(k) for k in live.cleaning],
                      "ev": [ev0, len(live.events)]})

    async def main(loop: VLoop) -> None:
        live.loop = loop
        for op in sc.get("ops", []):
            await one(op)
        if chooser is not None:
            n = 0
            while n < max_ops:
                op = chooser(live, n)
                if op is None:
                    break
                await one(op)
                n += 1

    try:
        run_virtual(main, max_time=1e9, hook_factory=lambda loop: live.hook)
    except TimeoutError:
        errors.append("deadlock")
    except Exception as e:  # harness-visible failure of the scenario itself
        errors.append(f"{type(e).__name__}: {e}")
    return {"ops": ops_out, "impl": impl_out, "snaps": snaps, "events": [list(e) for e in live.events], "errors": errors,
            "cfg": {i: dict(c) for i, c in live.cfg.items()}, "ops_concrete": concrete,
            "outcome": {f"{k[0]}.{k[1]}": v for k, v in live.outcome.items()},
            "hard": sorted(live.hard), "soft": sorted(live.soft), "entered": sorted(live.entered),
            "nruns": dict(live.nruns), "nested": {f"{k[0]}.{k[1]}": list(v) for k, v in live.nested.items()},
            "aborted": {f"{k[0]}.{k[1]}": v for k, v in live.aborted.items()},
            "reused": {f"{k[0]}.{k[1]}": v for k, v in live.reused.items()},
            "cleanup": {f"{k[0]}.{k[1]}": v for k, v in live.cleanup.items()}}


# --------------------------------------------------------------------------
# K2: asyncio.Semaphore, one ready handle at a time


def run_sem_micro(limit: int, script: list, rng: Any = None, nsteps: int = 0) -> dict:
    """Drive a real ``asyncio.Semaphore(limit)`` used exactly like basic.py uses it
    (``async with sem:`` around an await) by running the loop's ready handles one at a
    time.  `script` is a list of ops ``["start"] | ["tick"] | ["go", r, "ok"|"fail"] |
    ["cancel", r]``; with `rng`, `nsteps` further ops are drawn online.  Returns the model
    op lines and the implementation's answers (micro states after every op)."""
    loop = asyncio.new_event_loop()
    sem = asyncio.Semaphore(limit)
    tasks: dict[int, asyncio.Task] = {}
    go: dict[int, asyncio.Future] = {}
    signalled: set = set()
    held: set = set()
    outcome: dict[int, str] = {}
    begun: set = set()
    ops_out: list[str] = ["mk 1 " + str(limit)]
    impl_out: list[str] = ["ok"]
    concrete: list = []
    sem_used = [False]  # the model's registry entry appears with the first acquire

    async def runner(r: int) -> int:
        async with sem:
            held.add(r)
            try:
                v = await go[r]
            finally:
                held.discard(r)
            if v == "fail":
                raise Boom(str(r))
            return r

    def phase(r: int) -> str:
        t = tasks[r]
        if t.done():
            return "F"
        if r in held:
            return "H"
        fw = getattr(t, "_fut_waiter", None)
        if fw is not None and sem._waiters and any(fw is f for f in sem._waiters):
            return "W"
        return "C"

    def out_of(r: int) -> str:
        t = tasks[r]
        if t.cancelled():
            return "x"
        e = t.exception()
        return "c" if e is None else ("x" if isinstance(e, asyncio.CancelledError) else "f")

    def state() -> str:
        ws = []
        for f in (sem._waiters or []):
            rid = next((r for r, t in tasks.items() if not t.done() and getattr(t, "_fut_waiter", None) is f), None)
            if f.cancelled():
                st = "x"
            elif f.done():
                st = "y" if (rid is not None and tasks[rid]._must_cancel) else "w"  # type: ignore[attr-defined]
            else:
                st = "p"
            ws.append(f"{'?' if rid is None else rid}{st}")
        cs = [f"{r}{'!' if tasks[r]._must_cancel else ''}" for r in sorted(tasks) if phase(r) == "C"]  # type: ignore[attr-defined]
        hs = [str(r) for r in sorted(tasks) if phase(r) == "H"]
        fs = [f"{r}{out_of(r)}" for r in sorted(tasks) if phase(r) == "F"]
        return f"I1 lim={limit} sem={sem._value if sem_used[0] else '-'} W=[{','.join(ws)}] C=[{','.join(cs)}] H=[{','.join(hs)}] F=[{','.join(fs)}]"

    def emit(op: str, ans: str) -> None:
        ops_out.append(op)
        impl_out.append(ans)

    def do(op: list) -> None:
        concrete.append(op)
        kind = op[0]
        if kind == "start":
            r = len(tasks) + 1
            go[r] = loop.create_future()
            tasks[r] = loop.create_task(runner(r))
            emit(f"start 1 {r}", "ok")
        elif kind == "cancel":
            r = op[1]
            if r in tasks:
                tasks[r].cancel()
                emit(f"cancel 1 {r}", "ok")
            else:
                emit(f"cancel 1 {r}", "disabled")
        elif kind == "go":
            r = op[1]
            if r in go and not go[r].done():
                go[r].set_result(op[2])
                signalled.add(r)
            return  # no model action: the holder is only made ready
        elif kind == "tick":
            if not loop._ready:  # type: ignore[attr-defined]
                emit("tick", "idle")
            else:
                before = {r: phase(r) for r in tasks}
                h = loop._ready.popleft()  # type: ignore[attr-defined]
                asyncio.events._set_running_loop(loop)
                try:
                    h._run()
                finally:
                    asyncio.events._set_running_loop(None)
                changed = [r for r in tasks if phase(r) != before[r]]
                if any(before[r] == "C" and phase(r) in ("H", "W") for r in changed):
                    sem_used[0] = True
                if len(changed) != 1:
                    emit("tick", f"?? changed={changed}")
                else:
                    r = changed[0]
                    if before[r] == "H":
                        emit(f"finish 1 {r} {out_of(r)}", "ok")
                    else:
                        emit("tick", f"tick 1 {r} {'begin' if before[r] == 'C' else 'deliver'}")
        else:
            raise ValueError(op)
        emit("show", state())

    def draw() -> list:
        opts: list = []
        if len(tasks) < 9:
            opts += [["start"]] * 3
        if loop._ready:  # type: ignore[attr-defined]
            opts += [["tick"]] * 5
        for r in tasks:
            ph = phase(r)
            if ph == "H" and r not in signalled:
                opts += [["go", r, rng.choice(["ok", "ok", "fail"])]] * 2
            if ph in ("C", "W", "H"):
                opts.append(["cancel", r])
            elif rng.random() < 0.1:
                opts.append(["cancel", r])
        if not opts:
            return ["start"]
        return rng.choice(opts)

    try:
        for op in script:
            do(op)
        if rng is not None:
            for _ in range(nsteps):
                do(draw())
            # drain: let everybody through
            for _ in range(200):
                if loop._ready:  # type: ignore[attr-defined]
                    do(["tick"])
                    continue
                hs = [r for r in tasks if phase(r) == "H" and r not in signalled]
                if not hs:
                    break
                do(["go", hs[0], "ok"])
    finally:
        for t in tasks.values():
            if not t.done():
                t.cancel()
        for _ in range(1000):
            if not loop._ready:  # type: ignore[attr-defined]
                break
            h = loop._ready.popleft()  # type: ignore[attr-defined]
            asyncio.events._set_running_loop(loop)
            try:
                h._run()
            finally:
                asyncio.events._set_running_loop(None)
        for t in tasks.values():
            if t.done() and not t.cancelled():
                t.exception()  # mark retrieved
        loop.close()
    return {"ops": ops_out, "impl": impl_out, "script": concrete, "limit": limit}
