"""Random scripted-workflow specs (mostly valid, terminating graphs)."""
from __future__ import annotations

import random
from typing import Any

PLAIN = [5, 6, 7, 8, 9, 10]


def gen_spec(rng: random.Random, *, allow_wait: bool = True, allow_collect: bool = True, allow_retry: bool = True,
             allow_handlers: bool = True, allow_external: bool = True, allow_timeout: bool = True,
             allow_sync: bool = False, size: int | None = None) -> dict:
    n = size or rng.randint(2, 5)
    names = [f"s{i:02d}" for i in rng.sample(range(1, 12), n - 1)]
    # registration order is deliberately not the sorted order
    steps: list[dict[str, Any]] = []
    # which plain types are consumed by which steps
    accepts: dict[str, list[int]] = {}
    for nm in names:
        k = rng.choice([1, 1, 1, 2])
        accepts[nm] = sorted(rng.sample(PLAIN[:4], k))
    consumed = sorted({t for a in accepts.values() for t in a})
    unconsumed = [t for t in PLAIN if t not in consumed]

    def produce_types(after: int) -> list[int]:
        """types a step may emit: strictly above `after` (keeps the graph acyclic)"""
        return [t for t in PLAIN if t > after]

    def script_for(nm: str, acc: list[int], is_start: bool, nw: int) -> tuple[list, dict | None]:
        sc: list = []
        retry = None
        hi = 4 if is_start else max(acc)
        outs = produce_types(hi)
        if rng.random() < 0.5:
            sc.append(["gate"])
        if allow_collect and not is_start and rng.random() < 0.25:
            want = [rng.choice(acc) for _ in range(rng.randint(2, 3))]
            sc.append(["collect", sorted(want)] + ([rng.choice(["b01", "b02"])] if rng.random() < 0.3 else []))
        if allow_wait and rng.random() < 0.2:
            wt = rng.choice([3, 11])  # never produced by steps: only external sends resolve waits
            reqk = rng.choice([None, None, 1, 2])
            sc.append(["wait", wt, reqk, rng.choice([None, 5, 20]), rng.choice(["w01", "w02", None]),
                       rng.choice([None, 2]), rng.choice(["swallow", "raise"])])
        if allow_retry and rng.random() < 0.35:
            kind = rng.random()
            if kind < 0.6:
                retry = {"kind": "attempts", "n": rng.randint(1, 3), "wait": rng.choice([0, 0, 2, 3])}
            elif kind < 0.8:
                retry = {"kind": "legacy", "n": rng.randint(1, 3), "wait": rng.choice([0, 1])}
            else:
                retry = {"kind": "chain", "n": 4, "waits": [3, 1, 2]}
            if rng.random() < 0.7:
                sc.append(["fail_until", rng.randint(1, 3), rng.randint(1, 9)])
            else:
                sc.append(["fail_always", rng.randint(1, 9)])
        elif rng.random() < 0.12:
            sc.append(rng.choice([["fail_always", rng.randint(1, 9)], ["fail_on_k", 2, rng.randint(1, 9)]]))
        if rng.random() < 0.3:
            sc.append(["gate"])
        for _ in range(rng.choice([0, 0, 1, 2, 3]) if (is_start or rng.random() < 0.4) else 0):
            pool = outs + ([rng.choice(PLAIN)] if rng.random() < 0.1 else []) + ([12] if rng.random() < 0.15 else [])
            if not pool:
                break
            t = rng.choice(pool)
            tgt = None
            if rng.random() < 0.2:
                cands = [s for s, a in accepts.items() if t in a]
                if cands:
                    tgt = rng.choice(cands)
            sc.append(["send", t, tgt, rng.choice([None, 1, 2])])
        if rng.random() < 0.15:
            sc.append(["stream", rng.choice(PLAIN)])
        if rng.random() < 0.12 and any(a[0] == "gate" for a in sc):
            sc.insert(0, ["on_cancel_stream", rng.choice(PLAIN)])  # reports on the stream when it is cancelled
        r = rng.random()
        if r < 0.35 and outs:
            sc.append(["ret", str(rng.choice(outs))])
        elif r < 0.55:
            sc.append(["ret", "none"])
        elif r < 0.9:
            sc.append(["ret", "stop"])
        elif r < 0.95:
            sc.append(["ret", "2"])  # InputRequiredEvent
        else:
            sc.append(["ret", "bad"])
        return sc, retry

    start_nw = rng.randint(1, 2)
    sc, retry = script_for("s00", [0], True, start_nw)
    # the start step should usually fan out
    if not any(a[0] == "send" for a in sc) and consumed:
        sc.insert(len(sc) - 1, ["send", rng.choice(consumed), None, rng.choice([None, 1, 2])])
    steps.append({"name": "s00", "accepts": [0], "nw": start_nw, "retry": retry, "script": sc})
    for nm in names:
        nw = rng.randint(1, 4)
        sc, retry = script_for(nm, accepts[nm], False, nw)
        steps.append({"name": nm, "accepts": accepts[nm], "nw": nw, "retry": retry, "script": sc})
    rng.shuffle(steps)
    if allow_handlers and rng.random() < 0.35:
        hnames = [f"s{i:02d}" for i in rng.sample(range(12, 20), rng.choice([1, 1, 2]))]
        unclaimed = [s["name"] for s in steps]
        have_wild = False
        for j, hn in enumerate(hnames):
            scoped = (have_wild or rng.random() < 0.4) and bool(unclaimed)
            if not scoped and have_wild:
                continue
            for_steps = None
            if scoped:
                for_steps = sorted(rng.sample(unclaimed, rng.randint(1, min(2, len(unclaimed)))))
                unclaimed = [p for p in unclaimed if p not in for_steps]
            else:
                have_wild = True
            hs: list = []
            if rng.random() < 0.3:
                hs.append(["gate"])
            r = rng.random()
            if r < 0.4:
                hs.append(["ret", "stop"])
            elif r < 0.75 and consumed:
                hs.append(["ret", str(rng.choice(consumed))])
            elif r < 0.9:
                hs.append(["fail_always", rng.randint(1, 9)])
            else:
                hs.append(["ret", "none"])
            steps.append({"name": hn, "accepts": [4], "role": "handler", "for_steps": for_steps,
                          "max_rec": rng.randint(1, 3), "script": hs})
        # at most one wildcard
        wild = [s for s in steps if s.get("role") == "handler" and s["for_steps"] is None]
        for extra in wild[1:]:
            steps.remove(extra)
    spec: dict[str, Any] = {"steps": steps, "externals": []}
    if allow_timeout and rng.random() < 0.15:
        spec["timeout"] = rng.choice([1, 4, 10, 30])
    if allow_external:
        for _ in range(rng.choice([0, 0, 0, 1, 2])):
            r = rng.random()
            if r < 0.6:
                t = rng.choice(PLAIN + [3, 3, 11, 11, 12, 13])
                spec["externals"].append({"op": "send", "ty": t, "k": rng.choice([None, 1, 2]), "step": None,
                                          "after_quiet": rng.randint(0, 3)})
            elif r < 0.8:
                spec["externals"].append({"op": "cancel", "after_quiet": rng.randint(0, 4)})
            else:
                spec["externals"].append({"op": "snapshot", "after_quiet": rng.randint(0, 4)})
    if rng.random() < 0.1:
        spec["start_k"] = rng.choice([1, 2])
    return spec


# --------------------------------------------------------------------------
# targeted families (the general generator rarely lines these up)


def gen_fanin_spec(rng: random.Random, raise_incomplete: bool = False) -> dict:
    """start fans N events into a collecting step with few workers: queued events,
    collect re-runs on stale snapshots, out-of-order completions"""
    n = rng.randint(3, 8)
    nw = rng.randint(1, 3)
    want = rng.randint(2, 3)
    two_types = rng.random() < 0.4
    sends = []
    for i in range(n):
        sends.append(["send", 6 if (two_types and i % 2) else 5, None, rng.choice([None, 1, 2])])
    start = {"name": "s00", "accepts": [0], "nw": 1, "retry": None,
             "script": ([["gate"]] if rng.random() < 0.3 else []) + sends + [["ret", "none"]]}
    exp = sorted(([5, 6] * 2)[:want]) if two_types else [5] * want
    coll_script: list = []
    if rng.random() < 0.8:
        coll_script.append(["gate"])
    coll_script.append(["collect", exp] + ([rng.choice(["b01", "b02"])] if rng.random() < 0.2 else []))
    if rng.random() < 0.3:
        coll_script.append(["gate"])
    coll_script.append(["ret", rng.choice(["7", "7", "none", "stop"])])
    coll_retry = None
    if rng.random() < 0.3:
        # the collecting step fails its first attempt(s) before it collects: retried invocations then meet stale snapshots
        coll_retry = {"kind": "attempts", "n": rng.randint(3, 4), "wait": 0}
        r3 = rng.random() if raise_incomplete else 0.35 + 0.65 * rng.random()
        if r3 < 0.35:
            # ... raises when the collection is still incomplete (AddCollectedEvent and StepWorkerFailed in one result list)
            for a in coll_script:
                if a[0] == "collect":
                    while len(a) < 4:
                        a.append(None if len(a) == 2 else 1)
                    a.append(["raise", rng.randint(1, 2), rng.randint(1, 9)])
        elif r3 < 0.7:
            coll_script.insert(0, ["fail_until", rng.randint(1, 2), rng.randint(1, 9)])
        else:
            # ... or fails right AFTER it collected (collect result and failure in one result list)
            ci = next(i for i, a in enumerate(coll_script) if a[0] == "collect")
            coll_script.insert(ci + 1, ["fail_until", rng.randint(1, 2), rng.randint(1, 9)])
    coll = {"name": "s03", "accepts": [5, 6] if two_types else [5], "nw": nw, "retry": coll_retry, "script": coll_script}
    sink = {"name": "s05", "accepts": [7], "nw": rng.randint(1, 2), "retry": None,
            "script": ([["gate"]] if rng.random() < 0.5 else []) + [["ret", rng.choice(["none", "stop"])]]}
    steps = [start, coll, sink]
    rng.shuffle(steps)
    spec: dict[str, Any] = {"steps": steps, "externals": []}
    if rng.random() < 0.35:
        # value-equal events (same class, same payload, different identity), as equal user payloads are
        spec["eq_events"] = True
        for a in start["script"]:
            if a[0] == "send":
                a[3] = None
    return spec


def gen_span_spec(rng: random.Random) -> dict:
    """fan-in of 2..3 whole rounds of THREE types into a gated collecting step with 2..3 workers, where one
    invocation (the straggler: an event of a later round, sent early, marked k=9) tends to be held at its gate
    while the other workers complete a whole round and start filling the next: when it finally returns, its
    snapshot is stale AND no prefix of the live buffer (the buffer was deleted and refilled in between), so the
    re-run has to take the live buffer as it is.  `hold_k` biases the scheduler (8:1) against releasing the
    straggler; the recorded action indices replay without the bias."""
    rounds = rng.choice([2, 2, 3])
    nw = rng.randint(2, 3)
    tys = [5, 6, 7]
    evs = [(t, r) for r in range(rounds) for t in tys]
    # round 0 first (shuffled), later rounds after it (shuffled within the rest) ...
    first = [e for e in evs if e[1] == 0]
    rest = [e for e in evs if e[1] > 0]
    rng.shuffle(first)
    rng.shuffle(rest)
    # ... except the straggler: an event of round 1, mostly sent as the first QUEUED event (position nw): it
    # starts on the slot freed by the first buffered event, i.e. with a one-element snapshot of round 0
    strag = rng.choice([e for e in rest if e[1] == 1])
    rest.remove(strag)
    order = first + rest
    order.insert(nw if rng.random() < 0.75 else rng.randint(0, len(order)), strag)
    sends = [["send", t, None, 9 if (t, r) == strag else r] for (t, r) in order]
    start = {"name": "s00", "accepts": [0], "nw": 1, "retry": None, "script": sends + [["ret", "none"]]}
    coll_script: list = [["gate"], ["collect", list(tys)] + ([rng.choice(["b01", "b02"])] if rng.random() < 0.15 else [])]
    coll_script.append(["ret", rng.choice(["8", "8", "none"])])
    coll = {"name": "s03", "accepts": list(tys), "nw": nw, "retry": None, "script": coll_script}
    sink = {"name": "s05", "accepts": [8], "nw": rng.randint(1, 2), "retry": None, "script": [["ret", "none"]]}
    steps = [start, coll, sink]
    rng.shuffle(steps)
    spec: dict[str, Any] = {"steps": steps, "externals": [], "hold_k": 9}
    if rng.random() < 0.25:
        spec["eq_events"] = True
    return spec


def gen_multicollect_spec(rng: random.Random) -> dict:
    """fan-in into a multi-worker collecting step whose body calls collect_events on the SAME buffer two
    to four times per invocation: one result tick then carries several AddCollectedEvent for one buffer.
    At most one of them may schedule the re-run (C01: one CommandRunWorker per slot and tick).  Only the
    worker-limit monitors are meaningful on this family (mon_c09 pairs one call with one tick)."""
    n = rng.randint(3, 6)
    nw = rng.randint(2, 3)
    want = rng.randint(n + 2, n + 6)  # never completes early: every call keeps asking for the event
    sends = [["send", 5, None, rng.choice([None, 1, 2])] for _ in range(n)]
    start = {"name": "s00", "accepts": [0], "nw": 1, "retry": None, "script": sends + [["ret", "none"]]}
    coll_script: list = []
    if rng.random() < 0.85:
        coll_script.append(["gate"])  # invocations overlap: snapshots go stale while they wait
    coll_script.append(["collect", [5] * want, rng.choice([None, None, "b01"]), rng.choice([2, 3, 3, 4])])
    coll_script.append(["ret", "none"])
    coll = {"name": "s03", "accepts": [5], "nw": nw, "retry": None, "script": coll_script}
    steps = [start, coll]
    rng.shuffle(steps)
    return {"steps": steps, "externals": []}


def gen_twin_spec(rng: random.Random) -> dict:
    """one event OBJECT delivered two or three times to a multi-worker step (ctx.send_event(ev) called again with the same
    object: every delivery is an invocation of its own), all deliveries in flight at once behind gates, further distinct
    events waiting in the step queue (and arriving later from outside), the gates opened in any order: finishing ONE of the
    twins frees exactly one slot.  Judged by the worker-limit rules only (per-step live count from the bodies themselves,
    slot discipline of the commands and of the stream, live task backed by a row)."""
    nw = rng.randint(2, 4)
    twins = rng.randint(2, min(nw, 3))
    ty = rng.choice([5, 6])
    # singles before the twins occupy slots of their own (at most nw - twins, so that all twins are running together)
    before = rng.randint(0, nw - twins) if rng.random() < 0.4 else 0
    after = rng.randint(1, 4)
    k = 0
    sends: list = []
    for _ in range(before):
        k += 1
        sends.append(["send", ty, None, k])
    k += 1
    if rng.random() < 0.75:
        sends.append(["send", ty, None, k, twins])
    else:
        # value-equal but distinct objects next to the shared one
        sends.append(["send", ty, None, k, twins])
        sends.append(["send", ty, None, k])
    for _ in range(after):
        k += 1
        sends.append(["send", ty, None, k])
    start = {"name": "s00", "accepts": [0], "nw": 1, "retry": None, "script": sends + [["ret", "none"]]}
    wscript: list = [["gate"]]
    retry = None
    r = rng.random()
    if r < 0.2:
        wscript.append(["fail_until", 1, 3])
        retry = {"kind": "attempts", "n": 3, "wait": rng.choice([0, 0, 1])}
    elif r < 0.35:
        wscript.append(["yield"])
    sink = rng.random() < 0.4
    wscript.append(["ret", "7"] if sink else ["ret", "none"])
    work = {"name": "s03", "accepts": [ty], "nw": nw, "retry": retry, "script": wscript}
    steps = [start, work]
    if sink:
        steps.append({"name": "s05", "accepts": [7], "nw": rng.randint(1, 2), "retry": None, "script": [["ret", rng.choice(["none", "none", "stop"])]]})
    rng.shuffle(steps)
    externals: list = []
    for _ in range(rng.choice([0, 0, 1, 2])):
        k += 1
        x: dict[str, Any] = {"op": "send", "ty": ty, "k": k, "after_quiet": rng.randint(0, 3)}
        if rng.random() < 0.3:
            x["times"] = 2
        externals.append(x)
    spec: dict[str, Any] = {"steps": steps, "externals": externals}
    if rng.random() < 0.25:
        spec["eq_events"] = True
    return spec


def gen_collect_retry_spec(rng: random.Random) -> dict:
    """a collecting step with 2..3 workers AND a retry policy whose wait strategy is not constant (incrementing,
    exponential, chains).  One of its invocations (the event with k=9) fails transiently: its first 1..3 executions,
    and then once more in the execution that follows a collect re-run (`fail_nth` counts executions of the invocation
    itself, it does not read retry_info).  The other events of the collection are sent later, by a side branch that
    sleeps / is gated, and the scheduler releases the k=9 invocation reluctantly (`hold_k`): while one of its RETRIES
    is parked at the gate the other workers buffer events, its own collect_events call then meets a stale snapshot,
    the control loop runs it again (nothing failed: not a retry) and that execution fails -- failure k of the
    invocation, to be followed by the delay documented for retry k."""
    nw = rng.randint(2, 3)
    budget = rng.randint(6, 8)
    r = rng.random()
    if r < 0.35:
        pol: dict[str, Any] = {"kind": "incr", "n": budget, "start": rng.choice([0, 0, 1]), "inc": rng.choice([1, 2, 3])}
    elif r < 0.6:
        pol = {"kind": "exp", "n": budget, "mult": rng.choice([1, 1, 2]), "base": rng.choice([2, 3]), "max": 64}
    elif r < 0.8:
        pol = {"kind": "chain", "n": budget, "waits": rng.choice([[3, 1, 2], [1, 2, 4, 8], [0, 2, 4], [6, 4, 2, 1]])}
    else:
        pol = {"kind": "chain_exp", "n": budget, "first": rng.choice([1, 3])}
    nfail = rng.randint(1, 3)
    pattern: list = list(range(1, nfail + 1))
    r = rng.random()
    if r < 0.75:
        pattern.append("rerun")
    elif r < 0.9:
        pattern.append(nfail + 2)  # the execution after the next one, whatever it is
    two_types = rng.random() < 0.6
    n_late = rng.randint(1, 3)
    n_early = rng.choice([0, 0, 1])
    other = 6 if two_types else 5
    want = sorted([5] + [other] * rng.randint(1, n_late + n_early))
    start_sc: list = [["send", 5, None, 9]] + [["send", other, None, rng.choice([None, 1, 2])] for _ in range(n_early)] + [["send", 7, None, None]]
    rng.shuffle(start_sc)
    start = {"name": "s00", "accepts": [0], "nw": 1, "retry": None, "script": start_sc + [["ret", "none"]]}
    side_sc: list = []
    if rng.random() < 0.7:
        side_sc.append(["sleep", rng.randint(1, 12)])
    if not side_sc or rng.random() < 0.4:
        side_sc.append(["gate"])
    side_sc += [["send", other, None, rng.choice([None, 1, 2])] for _ in range(n_late)]
    side = {"name": "s04", "accepts": [7], "nw": 1, "retry": None, "script": side_sc + [["ret", "none"]]}
    coll_sc: list = [["fail_nth", pattern, rng.randint(1, 9), 9], ["gate"],
                     ["collect", want] + ([rng.choice(["b01", "b02"])] if rng.random() < 0.15 else [])]
    coll_sc.append(["ret", rng.choice(["8", "8", "none", "stop"])])
    coll = {"name": "s03", "accepts": [5, 6] if two_types else [5], "nw": nw, "retry": pol, "script": coll_sc}
    sink = {"name": "s05", "accepts": [8], "nw": 1, "retry": None, "script": [["ret", rng.choice(["none", "stop"])]]}
    steps = [start, side, coll, sink]
    rng.shuffle(steps)
    return {"steps": steps, "externals": [], "hold_k": 9}


def gen_retry_spec(rng: random.Random) -> dict:
    """failing steps with budgets, delays and catch_error handlers on one lineage"""
    n_fail = rng.randint(1, 3)
    wait = rng.choice([0, 0, 2, 5])
    pol = rng.choice([{"kind": "attempts", "n": rng.randint(1, 4), "wait": wait},
                      {"kind": "chain", "n": rng.randint(2, 5), "waits": [3, 1, 2]},
                      {"kind": "chain_exp", "n": rng.randint(3, 6), "first": rng.choice([1, 3])},
                      {"kind": "legacy", "n": rng.randint(1, 3), "wait": rng.choice([0, 1])},
                      {"kind": "delay", "d": rng.choice([2, 5, 7]), "wait": rng.choice([1, 2, 3])}, None])
    # a backlog with time passing: later events wait in the queue while earlier ones work (sleep)
    backlog = rng.random() < 0.3
    worker = {"name": "s02", "accepts": [5], "nw": 1 if backlog else rng.randint(1, 3), "retry": pol,
              "script": ([["sleep", rng.choice([1, 3, 4])]] if backlog else ([["gate"]] if rng.random() < 0.4 else [])) +
                        [rng.choice([["fail_until", n_fail, rng.randint(1, 9)], ["fail_always", rng.randint(1, 9)],
                                     ["fail_on_k", 2, rng.randint(1, 9)]]), ["ret", rng.choice(["6", "stop", "none"])]]}
    second = {"name": "s04", "accepts": [6], "nw": 1, "retry": rng.choice([None, {"kind": "attempts", "n": 2, "wait": 0}]),
              "script": [rng.choice([["fail_always", rng.randint(1, 9)], ["fail_until", 1, 3], ["yield"]]), ["ret", rng.choice(["stop", "none"])]]}
    start = {"name": "s00", "accepts": [0], "nw": 1, "retry": None,
             "script": [["send", 5, None, rng.choice([None, 1, 2])] for _ in range(rng.randint(2, 3) if backlog else rng.randint(1, 3))] + [["ret", "none"]]}
    steps = [start, worker, second]
    hk = rng.random()
    if hk < 0.7:
        h1 = {"name": "s12", "accepts": [4], "role": "handler", "for_steps": rng.choice([None, ["s02"], ["s02", "s04"]]),
              "max_rec": rng.randint(1, 3),
              "script": ([["gate"]] if rng.random() < 0.3 else []) + [["ret", rng.choice(["5", "6", "stop", "none", "5"])]]}
        steps.append(h1)
        if h1["for_steps"] is not None and rng.random() < 0.6:
            steps.append({"name": "s13", "accepts": [4], "role": "handler", "for_steps": None, "max_rec": rng.randint(1, 2),
                          "script": [["ret", rng.choice(["5", "6", "stop"])]]})
    rng.shuffle(steps)
    spec: dict[str, Any] = {"steps": steps, "externals": []}
    if rng.random() < 0.15:
        spec["timeout"] = rng.choice([1, 3, 8])
    if rng.random() < 0.2:
        spec["externals"].append({"op": "snapshot", "after_quiet": rng.randint(0, 3)})
    return spec


def gen_wait_spec(rng: random.Random, retried: bool = False) -> dict:
    """steps suspended in wait_for_event; responses (duplicates, non-matching, early/late) arrive from outside.
    `retried` (family "wait_retry"): the waiting step has a retry policy and fails before and/or after the wait, optionally
    on a lineage whose exhausted failures go to a @catch_error handler that sends the event back.  Off by default so that
    the streams of the checks built on the plain wait family stay what they were."""
    reqk = rng.choice([None, 1, 2])
    timeout = rng.choice([None, 5, 20])
    wty = rng.choice([3, 11])
    # sometimes the waiting step also accepts the awaited type as a plain input (the event must then come
    # as the wait result only), with few workers kept busy so that the replay is queued
    also = rng.random() < 0.35
    waiter = {"name": "s02", "accepts": [5, wty] if also else [5], "nw": rng.randint(1, 2), "retry": None,
              "script": ([["gate"]] if (also or rng.random() < 0.3) else []) +
                        [["wait", wty, reqk, timeout, rng.choice(["per", "per", "w01"] if also else ["w01", "w02", "per"]), rng.choice([None, 2]),
                          rng.choice(["swallow", "raise"])]] + ([["gate"]] if also and rng.random() < 0.5 else []) +
                        [["ret", rng.choice(["6", "stop", "none"])]]}
    if not also and rng.random() < 0.3:
        # two waits in sequence in one step body (distinct waiter ids): the first is consumed, the second suspends,
        # and the replay runs through the first again
        wty2 = 11 if wty == 3 else 3
        waiter["script"] = [a for a in waiter["script"] if a[0] != "ret"]
        waiter["script"].append(["wait", wty2, rng.choice([None, 1]), timeout, "w03", None, "swallow"])
        waiter["script"].append(["ret", rng.choice(["6", "stop", "none"])])
        for a in waiter["script"]:
            if a[0] == "wait" and a[4] == "per":
                a[4] = "w01"
        waiter["nw"] = 1
    other = {"name": "s04", "accepts": [6, 3] if rng.random() < 0.3 else [6], "nw": 1, "retry": None,
             "script": [["ret", rng.choice(["stop", "none"])]]}
    start = {"name": "s00", "accepts": [0], "nw": 1, "retry": None,
             "script": [["send", 5, rng.choice([None, "s02"]), rng.choice([None, 1])] for _ in range(rng.randint(1, 3 if also else 2))] + [["ret", "none"]]}
    own = rng.random() < 0.25
    if own:
        # request/reply: every invocation waits (auto-generated waiter id) for the reply that carries ITS OWN k;
        # the waits of one step differ only in the requirement value
        for a in waiter["script"]:
            if a[0] == "wait":
                a[2], a[4] = "own", None
        waiter["nw"] = rng.randint(1, 3)
        ks = rng.sample([1, 2, 3], rng.randint(2, 3))
        start["script"] = [["send", 5, rng.choice([None, "s02"]), k] for k in ks] + [["ret", "none"]]
    steps = [start, waiter, other]
    if retried:
        steps += _retried_wait(rng, waiter, own)
    rng.shuffle(steps)
    ext = []
    for _ in range(rng.randint(0, 4)):
        ext.append({"op": "send", "ty": rng.choice([wty, wty, wty, 3, 11, 6] if own else [wty, wty, 3, 11, 11, 3, 6]), "k": rng.choice([1, 2, 3] if own else [None, 1, 2]),
                    "step": rng.choice([None, None, None, "s02", "s04"]), "after_quiet": rng.randint(0, 4)})
    if rng.random() < 0.2:
        ext.append({"op": "snapshot", "after_quiet": rng.randint(0, 4)})
    return {"steps": steps, "externals": ext}


def gen_wait_multi_spec(rng: random.Random) -> dict:
    """several waits of ONE step for the same event type, default (auto-generated) waiter ids, requirements with the same
    key and different VALUES: what tells these waits apart is the requirement value alone.

    * seq: one invocation asks in sequence (`Approval(user=alice)` then `Approval(user=bob)`): every wait has to be
      announced, has to suspend, and has to return the reply that satisfies ITS requirement -- the replay runs through
      the earlier, already answered waits again;
    * fan: one invocation per fanned-out item, suspended at once, each waiting for the reply correlated to its item
      (`requirements={"k": ev.k}`), optionally followed by a second correlated wait (`k + 3`);
    replies come from outside in any order: matching, duplicates, non-matching values, other types, early and late.
    Requirement values stay within 0..5 (harness/engine/enc.py numbers the auto ids of that range in string order)."""
    wty = rng.choice([3, 11])
    timeout = rng.choice([None, None, None, 5, 20])
    wevs = rng.choice([None, 2, 2])
    mode = rng.choice(["swallow", "raise"])
    wanted: list[int] = []
    if rng.random() < 0.5:
        vals = rng.sample([0, 1, 2, 3, 4, 5], rng.choice([2, 2, 3]))
        sc: list = [["gate"]] if rng.random() < 0.3 else []
        for i, v in enumerate(vals):
            sc.append(["wait", wty, f"auto:{v}", timeout, None, wevs, mode])
            if rng.random() < 0.25 and i + 1 < len(vals):
                sc.append(["gate"])
        r = rng.choice(["stop", "stop", "6", "none"])
        sc.append(["ret", r, "waited"] if r == "stop" else ["ret", r])
        waiter = {"name": "s02", "accepts": [5], "nw": rng.randint(1, 2), "retry": None, "script": sc}
        start = {"name": "s00", "accepts": [0], "nw": 1, "retry": None,
                 "script": [["send", 5, rng.choice([None, "s02"]), rng.choice([None, 1])], ["ret", "none"]]}
        wanted = list(vals)
    else:
        ks = rng.sample([1, 2], 2) if rng.random() < 0.7 else rng.sample([0, 1, 2], 3)
        two = max(ks) <= 2 and rng.random() < 0.5
        sc = [["gate"]] if rng.random() < 0.3 else []
        sc.append(["wait", wty, "own", timeout, None, wevs, mode])
        if two:
            if rng.random() < 0.3:
                sc.append(["gate"])
            sc.append(["wait", wty, "own+3", timeout, None, wevs, mode])
        sc.append(["ret", rng.choice(["6", "6", "none"])])
        waiter = {"name": "s02", "accepts": [5], "nw": rng.randint(2, 3), "retry": None, "script": sc}
        start = {"name": "s00", "accepts": [0], "nw": 1, "retry": None,
                 "script": [["send", 5, rng.choice([None, "s02"]), k] for k in ks] + [["ret", "none"]]}
        wanted = list(ks) + ([k + 3 for k in ks] if two else [])
    other = {"name": "s04", "accepts": [6], "nw": 1, "retry": None, "script": [["ret", rng.choice(["none", "none", "stop"])]]}
    steps = [start, waiter, other]
    rng.shuffle(steps)
    ext = []
    replies = list(wanted)
    in_order = rng.random() < 0.6  # replies mostly come after the question was asked, in the order of the questions
    if not in_order:
        rng.shuffle(replies)
    if rng.random() < 0.25 and replies:
        replies.pop(rng.randrange(len(replies)))
    # (an external action becomes available at the `after_quiet`-th quiescent point; a run that is quiescent with nothing
    # available is ended by the harness, so the replies are staggered one quiescent point apart)
    for i, k in enumerate(replies):
        ext.append({"op": "send", "ty": wty, "k": k, "step": rng.choice([None, None, None, "s02"]),
                    "after_quiet": i if in_order else rng.randint(0, 3)})
    for _ in range(rng.randint(0, 3)):
        ext.insert(rng.randrange(len(ext) + 1),
                   {"op": "send", "ty": rng.choice([wty, wty, wty, 3, 11, 6]), "k": rng.choice([None, 0, 1, 2, 3, 4, 5] + wanted),
                    "step": rng.choice([None, None, None, "s02", "s04"]), "after_quiet": rng.randint(0, len(replies) + 1)})
    if rng.random() < 0.15:
        ext.append({"op": "snapshot", "after_quiet": rng.randint(0, 4)})
    return {"steps": steps, "externals": ext}


def _retried_wait(rng: random.Random, waiter: dict, own: bool) -> list[dict]:
    """give the waiting step a retry policy and failures around its wait(s) (in place); returns extra steps (a handler).

    * before: the invocation fails `n` times, its retry then suspends in the wait — the replay must continue that retry
      (retry_info().retry_number = n, not 0 again: with a fresh attempt `fail_until` would fire again);
    * after: the replay of the suspended invocation fails and is retried through the (already resolved / timed-out) waiter;
    * both / after_always: the budget is exhausted after the wait — reported attempts count the failures before the wait;
    * timeout_loop: every round suspends (one waiter id per invocation, short timeout, TimeoutError raised), fails, goes to
      a handler that sends a new event to the waiting step: the lineage's recovery counts must survive each suspension."""
    sc = waiter["script"]
    wi = [i for i, a in enumerate(sc) if a[0] == "wait"]
    kind = rng.choice(["before", "before", "after", "both", "after_always", "timeout_loop"])
    e = rng.randint(1, 9)
    if kind == "before":
        n = rng.randint(1, 2)
        sc.insert(wi[0], ["fail_until", n, e])
        budget = n + rng.randint(1, 2)
    elif kind == "after":
        n = rng.randint(1, 2)
        sc.insert(wi[-1] + 1, ["fail_until", n, e])
        budget = n + rng.randint(0, 2)
    elif kind == "both":
        sc.insert(wi[-1] + 1, ["fail_always", e])
        sc.insert(wi[0], ["fail_until", 1, rng.randint(1, 9)])
        budget = rng.randint(2, 4)
    elif kind == "after_always":
        sc.insert(wi[-1] + 1, ["fail_always", e])
        budget = rng.randint(1, 3)
    else:
        for a in sc:
            if a[0] == "wait":
                a[3] = rng.choice([2, 5])
                a[6] = "raise"
                if not own and a[4] in ("w01", "w02"):
                    a[4] = "per"
        budget = rng.randint(1, 2)
    waiter["retry"] = {"kind": "attempts", "n": max(budget, 1), "wait": rng.choice([0, 0, 2])}
    extra: list[dict] = []
    if kind == "timeout_loop" or rng.random() < 0.5:
        extra.append({"name": "s12", "accepts": [4], "role": "handler", "for_steps": rng.choice([None, ["s02"]]),
                      "max_rec": rng.randint(1, 3),
                      "script": [["ret", rng.choice(["5", "5", "5", "stop", "none"]) if kind != "timeout_loop" else rng.choice(["5", "5", "5", "stop"])]]})
    return extra


def gen_handover_spec(rng: random.Random) -> dict:
    """a SATURATED step (num_workers = N, more than N inputs: the rest is queued) whose running invocations give their
    worker back WITHOUT a step result: they suspend in ctx.wait_for_event, fail into a delayed retry, or fail for good into
    a @catch_error handler.  The queued events have to be handed to the step on the freed worker right then -- not when
    (if ever) the suspended invocation comes back and completes.  A gate at the head of the body keeps the first
    invocations on their workers until the later events have been accepted and queued; some inputs come from a caller
    (external sends) instead of the start step."""
    nw = rng.choice([1, 1, 1, 2, 2, 3])
    n = nw + rng.randint(1, 3)
    mode = rng.choice(["wait", "wait", "retry_delay", "handler", "handler", "retry_then_handler"])
    ks = [rng.choice([1, 2, 2, 3]) for _ in range(n)]
    if mode != "wait" and 2 not in ks:
        ks[rng.randrange(min(nw, n))] = 2  # one of the first invocations is a failing one
    head: list = [["gate"]] if rng.random() < 0.85 else ([["sleep", rng.choice([1, 2])]] if rng.random() < 0.5 else [])
    tail: list = ([["gate"]] if rng.random() < 0.3 else []) + [["ret", rng.choice(["6", "6", "none"])]]
    retry = None
    extra: list[dict] = []
    ext: list[dict] = []
    wty = rng.choice([3, 11])
    if mode == "wait":
        own = rng.random() < 0.4
        timeout = rng.choice([None, None, 5, 20])
        body = [["wait", wty, "own" if own else rng.choice([None, 1, 2]), timeout, None if own else "per", rng.choice([None, 2]),
                 rng.choice(["swallow", "raise"])]]
        if own:
            ks = rng.sample([1, 2, 3, 4, 5, 6], n)
        for _ in range(rng.randint(0, n)):
            ext.append({"op": "send", "ty": rng.choice([wty, wty, wty, 3, 11]), "k": rng.choice(ks + [None]) if own else rng.choice([None, 1, 2]),
                        "step": rng.choice([None, None, "s02"]), "after_quiet": rng.randint(1, 8)})
    elif mode == "retry_delay":
        nfail = rng.randint(1, 2)
        retry = {"kind": rng.choice(["attempts", "attempts", "legacy"]), "n": nfail + rng.randint(1, 2), "wait": rng.choice([1, 2, 5])}
        body = [rng.choice([["fail_until", nfail, rng.randint(1, 9)], ["fail_until", nfail, rng.randint(1, 9)], ["fail_on_k", 2, rng.randint(1, 9)]])]
    else:
        if mode == "retry_then_handler":
            retry = {"kind": "attempts", "n": rng.randint(2, 3), "wait": rng.choice([0, 0, 2])}
        body = [rng.choice([["fail_on_k", 2, rng.randint(1, 9)], ["fail_on_k", 2, rng.randint(1, 9)], ["fail_always", rng.randint(1, 9)]])]
    if mode in ("handler", "retry_then_handler") or (mode == "retry_delay" and body[0][0] == "fail_on_k"):
        extra.append({"name": "s12", "accepts": [4], "role": "handler", "for_steps": rng.choice([None, ["s02"]]), "max_rec": rng.randint(1, 3),
                      "script": ([["gate"]] if rng.random() < 0.3 else []) + [["ret", rng.choice(["6", "6", "none", "none", "5", "stop"])]]})
    worker = {"name": "s02", "accepts": [5], "nw": nw, "retry": retry, "script": head + body + tail}
    n_ext = rng.choice([0, 0, 0, 1, 2]) if n > 1 else 0
    from_start, from_caller = ks[: n - n_ext], ks[n - n_ext:]
    start = {"name": "s00", "accepts": [0], "nw": 1, "retry": None,
             "script": [["send", 5, rng.choice([None, None, "s02"]), k] for k in from_start] + [["ret", "none"]]}
    for k in from_caller:
        ext.append({"op": "send", "ty": 5, "k": k, "step": rng.choice([None, "s02"]), "after_quiet": rng.randint(0, 2)})
    sink = {"name": "s04", "accepts": [6], "nw": rng.randint(1, 2), "retry": None,
            "script": ([["collect", [6] * rng.randint(2, n)], ["ret", "stop", "collected"]] if rng.random() < 0.4 else [["ret", "none"]])}
    steps = [start, worker, sink] + extra
    rng.shuffle(steps)
    rng.shuffle(ext)
    spec: dict[str, Any] = {"steps": steps, "externals": ext}
    if rng.random() < 0.1:
        spec["timeout"] = rng.choice([10, 30])
    return spec


def gen_handler_send_spec(rng: random.Random) -> dict:
    """a recovered lineage that continues through `ctx.send_event` instead of a return value (family "handler_send").

    A worker step fails (exhausted at once or after its retries); its @catch_error handler (scoped or wildcard, budget
    1..3) re-dispatches the work item -- itself with ctx.send_event (returning None / something else), or through a relay
    step downstream of it that sends the item back (the relay sometimes fails once first, so that the sending invocation
    is a retry) -- and the item fails again.  Variants: several items (one lineage each), a handler that fans the item out
    (two branches, a budget each), a worker that sends a side event to a second failing step before it fails (two
    branches of one lineage through the same or another handler), explicit / implicit target steps.  All of it ends
    after at most max_recoveries entries per path; `max_calls` only bounds a run on a tree where it does not."""
    e1, e2 = rng.randint(1, 9), rng.randint(1, 9)
    layout = rng.choice(["handler_sends", "handler_sends", "relay_sends", "relay_sends", "side_branch", "handler_fans_out"])
    max_rec = rng.randint(1, 3)
    pol = rng.choice([None, None, {"kind": "attempts", "n": rng.randint(1, 3), "wait": rng.choice([0, 0, 2])},
                      {"kind": "legacy", "n": rng.randint(1, 2), "wait": 0}])
    items = rng.randint(1, 2) if layout in ("side_branch", "handler_fans_out") else rng.randint(1, 3)
    if layout == "side_branch":
        # every attempt of the worker sends a side event: keep the tree of branches small
        max_rec = min(max_rec, 2)
        if pol is not None:
            pol["n"] = min(pol["n"], 2)
    ks = [rng.choice([None, 1, 2, 2]) for _ in range(items)]
    fail = rng.choice([["fail_always", e1], ["fail_always", e1], ["fail_on_k", 2, e1], ["fail_until", 4, e1]])
    if fail[0] == "fail_on_k" and 2 not in ks:
        ks[0] = 2
    start = {"name": "s00", "accepts": [0], "nw": 1, "retry": None,
             "script": [["send", 5, rng.choice([None, "s02"]), k] for k in ks] + [["ret", "none"]]}
    wscript: list = [["gate"]] if rng.random() < 0.3 else []
    if layout == "side_branch":
        wscript.append(["send", 6, rng.choice([None, "s04"]), rng.choice([None, 1])])
    wscript += [fail, ["ret", rng.choice(["stop", "none", "8"])]]
    worker = {"name": "s02", "accepts": [5], "nw": rng.randint(1, 3), "retry": pol, "script": wscript}
    steps = [start, worker]
    owned = ["s02"]
    if layout == "side_branch":
        steps.append({"name": "s04", "accepts": [6], "nw": rng.randint(1, 2), "retry": None,
                      "script": [rng.choice([["fail_always", e2], ["fail_always", e2], ["yield"]]), ["ret", "none"]]})
        if rng.random() < 0.6:
            owned.append("s04")
    keep_k = rng.random() < 0.8  # the re-dispatched item keeps its k (it fails again under fail_on_k)
    resend = ["send", 5, rng.choice([None, "s02"]), "same" if keep_k else rng.choice([None, 1, 2])]
    hscript: list = [["gate"]] if rng.random() < 0.25 else []
    if layout in ("handler_sends", "side_branch"):
        hscript += [resend, ["ret", rng.choice(["none", "none", "8"])]]
    elif layout == "handler_fans_out":
        hscript += [resend, list(resend), ["ret", "none"]]
    else:
        hscript += [["ret", "7"]]
        rpol = None
        rscript: list = [["gate"]] if rng.random() < 0.25 else []
        if rng.random() < 0.35:
            rpol = {"kind": "attempts", "n": 2, "wait": 0}
            rscript.append(["fail_until", 1, e2])  # the send happens on the relay's retry
        rscript += [resend, ["ret", "none"]]
        steps.append({"name": "s06", "accepts": [7], "nw": rng.randint(1, 2), "retry": rpol, "script": rscript})
    scoped = rng.random() < 0.6
    steps.append({"name": "s12", "accepts": [4], "role": "handler", "for_steps": sorted(owned) if scoped else None,
                  "max_rec": max_rec, "script": hscript})
    if scoped and rng.random() < 0.5:
        # a wildcard next to the scoped handler: it owns what the scoped one does not list (never the handler steps)
        steps.append({"name": "s13", "accepts": [4], "role": "handler", "for_steps": None, "max_rec": rng.randint(1, 2),
                      "script": [rng.choice([resend, ["send", 5, None, None]]), ["ret", "none"]]})
    if any(a[0] == "ret" and a[1] == "8" for s in steps for a in s["script"]):
        steps.append({"name": "s08", "accepts": [8], "nw": 1, "retry": None, "script": [["ret", "none"]]})
    rng.shuffle(steps)
    spec: dict[str, Any] = {"steps": steps, "externals": [], "max_calls": 400}
    if rng.random() < 0.15:
        spec["externals"].append({"op": "snapshot", "after_quiet": rng.randint(0, 3)})
    return spec


def gen_det_spec(rng: random.Random, *, delays: bool = False) -> dict:
    """deterministic workflows (result and store independent of the schedule): start fans k events to a
    worker step (1..3 workers, optional retries) that marks the store and forwards; a single-worker
    collector gathers all k and stops with the sorted uids.  Event uids are derived from the parent."""
    k = rng.randint(2, 4)
    nfail = rng.choice([0, 0, 1, 2])
    budget = nfail + rng.randint(1, 2)
    wait = rng.choice([2, 5]) if delays else 0
    pol = {"kind": "attempts", "n": budget, "wait": wait} if (nfail or rng.random() < 0.3) else None
    start = {"name": "s00", "accepts": [0], "nw": 1, "retry": None,
             "script": ([["gate"]] if rng.random() < 0.3 else []) + [["send", 5, None, i] for i in range(k)] + [["ret", "none"]]}
    wscript: list = []
    if rng.random() < 0.7:
        wscript.append(["gate"])
    wscript.append(["store_mark"])
    if nfail:
        wscript.append(["fail_until", nfail, rng.randint(1, 9)])
    if rng.random() < 0.5:
        wscript.append(["gate"])
    wscript.append(["ret", "6"])
    worker = {"name": "s02", "accepts": [5], "nw": rng.randint(1, 3), "retry": pol, "script": wscript}
    coll = {"name": "s04", "accepts": [6], "nw": 1, "retry": None,
            "script": ([["gate"]] if rng.random() < 0.4 else []) + [["collect", [6] * k], ["store_set", "done", 1], ["ret", "stop", "collected"]]}
    steps = [start, worker, coll]
    rng.shuffle(steps)
    return {"steps": steps, "externals": [], "det_uids": True}


def gen_det_join_spec(rng: random.Random, *, delays: bool = False) -> dict:
    """deterministic fan-out / join workflows whose JOIN step collects events it builds itself: the start step fans k parts to a
    worker step (1..3 workers, optional retries) that marks the store and forwards them; the single-worker join step accepts the
    forwarded type only, normalises every input into a derived event of ANOTHER type (one type, or Left/Right chosen by the part's
    k) and hands that to ctx.collect_events -- so its buffer holds events of types the step itself does not accept (some specs
    mix in the accepted type: even parts become a derived event of the accepted type).  Named or default buffer.  Result = the sorted uids of the
    collected events (derived from the parents' uids: independent of the schedule)."""
    k = rng.randint(2, 4)
    nfail = rng.choice([0, 0, 1, 2])
    budget = nfail + rng.randint(1, 2)
    wait = rng.choice([2, 5]) if delays else 0
    pol = {"kind": "attempts", "n": budget, "wait": wait} if (nfail or rng.random() < 0.3) else None
    start = {"name": "s00", "accepts": [0], "nw": 1, "retry": None,
             "script": ([["gate"]] if rng.random() < 0.3 else []) + [["send", 5, None, i] for i in range(k)] + [["ret", "none"]]}
    wscript: list = []
    if rng.random() < 0.8:
        wscript.append(["gate"])
    wscript.append(["store_mark"])
    if nfail:
        wscript.append(["fail_until", nfail, rng.randint(1, 9)])
    if rng.random() < 0.4:
        wscript.append(["gate"])
    wscript.append(["ret", "6"])  # forwards the part with its k
    worker = {"name": "s02", "accepts": [5], "nw": rng.randint(1, 3), "retry": pol, "script": wscript}
    shape = rng.choice(["one", "one", "sides", "sides", "mixed"])
    if shape == "one":
        tys = [rng.choice([7, 8, 12])]  # 12: a subclass of the type the worker accepts
    elif shape == "sides":
        tys = rng.sample([7, 8, 9], 2)
    else:
        tys = [6, rng.choice([7, 8])]  # even parts: a derived event of the accepted type, odd parts: another type
    expected = [tys[i % len(tys)] for i in range(k)]
    buf = rng.choice([None, None, "b01"])
    coll = {"name": "s04", "accepts": [6], "nw": 1, "retry": None,
            "script": ([["gate"]] if rng.random() < 0.3 else []) +
                      [["collect", expected, buf, 1, None, [tys if len(tys) > 1 else tys[0], "own"]], ["store_set", "done", 1], ["ret", "stop", "collected"]]}
    steps = [start, worker, coll]
    rng.shuffle(steps)
    return {"steps": steps, "externals": [], "det_uids": True}


def gen_retry_race_spec(rng: random.Random) -> dict:
    """an external action (cancel) arriving in the instant an attempt of a retried step fails.

    The retried step's attempts fail right behind a gate; its policy mostly asks for an immediate retry (delay 0:
    `wait_fixed(0)` / `ConstantDelayRetryPolicy(delay=0)` / a chain starting with zeros), sometimes for a positive delay.
    A quick sibling branch gives the control loop other ticks to handle while the attempt is in flight.  The cancel
    carries `with_gate`: the scheduler of live.py may then deliver it together with the opening of a gate (see
    `_quiescent`), i.e. the failed attempt and the cancel tick are in front of the control loop at once."""
    n = rng.randint(2, 5)
    r = rng.random()
    if r < 0.45:
        pol = {"kind": "attempts", "n": n, "wait": 0}
    elif r < 0.7:
        pol = {"kind": "legacy", "n": n, "wait": 0}
    elif r < 0.85:
        pol = {"kind": "chain", "n": n, "waits": [0, 0, rng.choice([0, 0, 2])]}
    else:
        pol = {"kind": rng.choice(["attempts", "legacy"]), "n": n, "wait": rng.choice([1, 3])}
    nfail = rng.randint(1, n)  # == n: the budget runs out
    e = rng.randint(1, 9)
    wscript: list = [["gate"], ["fail_until", nfail, e]]
    if rng.random() < 0.3:
        wscript.append(["gate"])
    wscript.append(["ret", rng.choice(["6", "none", "none", "stop"])])
    worker = {"name": "s02", "accepts": [5], "nw": rng.randint(1, 2), "retry": pol, "script": wscript}
    sibling = {"name": "s04", "accepts": [6], "nw": 1, "retry": None,
               "script": ([["gate"]] if rng.random() < 0.4 else []) + [["ret", "none"]]}
    start = {"name": "s00", "accepts": [0], "nw": 1, "retry": None,
             "script": [["send", 5, None, rng.choice([None, 1, 2])] for _ in range(rng.randint(1, 2))] +
                       ([["send", 6, None, None]] if rng.random() < 0.8 else []) + [["ret", "none"]]}
    sends = start["script"][:-1]
    rng.shuffle(sends)
    start["script"] = sends + start["script"][-1:]
    steps = [start, worker, sibling]
    rng.shuffle(steps)
    return {"steps": steps,
            "externals": [{"op": "cancel", "after_quiet": rng.randint(0, 4), "with_gate": rng.choice(["after", "after", "before"])}]}


def gen_pipeline_spec(rng: random.Random) -> dict:
    """a pipeline of 2..4 stages fed by a fan-out of the start step, for chains of stop/resume rounds: whenever a run is
    stopped (cancel_run / timeout) there is typically one invocation executing behind a gate (or asleep), further events
    queued for a stage with fewer workers than inputs, and stages downstream that have not seen anything yet -- so a
    resumed run restarts work, COMPLETES it, hands it downstream, and can be stopped again with other work in flight.
    Some stages retry at once; the last one may wait for an external event (an idle run at the stop)."""
    depth = rng.randint(2, 4)
    tys = [5, 6, 7, 8][:depth]
    fan = rng.randint(1, 3)
    start = {"name": "s00", "accepts": [0], "nw": 1, "retry": None,
             "script": [["send", 5, None, k + 1] for k in range(fan)] + [["ret", "none"]]}
    steps = [start]
    for i, t in enumerate(tys):
        last = i == depth - 1
        sc: list = []
        r = rng.random()
        if r < 0.65:
            sc.append(["gate"])
        elif r < 0.85:
            sc.append(["sleep", rng.choice([1, 2, 3])])
        pol = None
        if rng.random() < 0.2:
            pol = {"kind": rng.choice(["attempts", "legacy"]), "n": 3, "wait": 0}
            sc.append(["fail_until", rng.randint(1, 2), rng.randint(1, 9)])
        if last and rng.random() < 0.25:
            sc.append(["wait", 3, None, None, "per", None, "raise"])
        if rng.random() < 0.25:
            sc.append(["gate"])
        sc.append(["ret", rng.choice(["none", "none", "stop"])] if last else ["ret", str(tys[i + 1])])
        steps.append({"name": f"s{2 * i + 2:02d}", "accepts": [t], "nw": rng.randint(1, 2), "retry": pol, "script": sc})
    rng.shuffle(steps)
    return {"steps": steps, "externals": []}


HANDLER_LAYOUT_SHAPES = ["valid", "valid", "random", "random", "scoped_lists_wildcard", "scoped_lists_wildcard", "scoped_lists_scoped",
                         "lists_itself", "mutual", "two_wildcards", "overlap", "unknown_step", "chain"]


def handler_layout(rng: random.Random, ords: list[str], hn: list[str], shape: str) -> dict[str, list[str] | None]:
    """`for_steps` per handler name for one of the adversarial layout shapes (ordinary steps `ords`, handler names `hn`):
    what a user can WRITE, not what validation accepts -- scoped handlers that list the wildcard handler, another scoped
    handler, themselves, each other; two wildcards; overlapping scopes; unknown names; chains h1 -> h2 -> h3."""
    fs: dict[str, list[str] | None] = {}

    def some_ords(k_max: int = 2, pool: list[str] | None = None) -> list[str]:
        pool = list(ords if pool is None else pool)
        return sorted(rng.sample(pool, rng.randint(0, min(k_max, len(pool)))))

    def valid_rest(names: list[str], allow_wild: bool, free: list[str]) -> None:
        free = list(free)
        for h in names:
            if allow_wild and rng.random() < 0.4:
                fs[h] = None
                allow_wild = False
            else:
                take = some_ords(2, free)
                free = [x for x in free if x not in take]
                fs[h] = take

    if shape == "valid" or len(hn) < 2 and shape in ("scoped_lists_wildcard", "scoped_lists_scoped", "mutual", "two_wildcards", "overlap", "chain"):
        valid_rest(hn, True, ords)
    elif shape == "random":
        for h in hn:
            if rng.random() < 0.3:
                fs[h] = None
            else:
                pool = ords + hn + (["s25"] if rng.random() < 0.15 else [])
                fs[h] = rng.sample(pool, rng.randint(0, min(3, len(pool))))
    elif shape == "scoped_lists_wildcard":
        w, g = hn[0], hn[1]
        fs[w] = None
        extra = some_ords(2)
        fs[g] = [w] + extra if rng.random() < 0.5 else extra + [w]
        valid_rest(hn[2:], False, [x for x in ords if x not in extra])
    elif shape == "scoped_lists_scoped":
        a, b = hn[0], hn[1]
        fs[a] = some_ords(2) or ords[:1]
        rest = [x for x in ords if x not in fs[a]]
        extra = some_ords(1, rest)
        fs[b] = [a] + extra
        valid_rest(hn[2:], True, [x for x in rest if x not in extra])
    elif shape == "lists_itself":
        a = hn[0]
        extra = some_ords(2)
        fs[a] = extra + [a]
        valid_rest(hn[1:], True, [x for x in ords if x not in extra])
    elif shape == "mutual":
        a, b = hn[0], hn[1]
        ea = some_ords(1)
        fs[a] = ea + [b]
        fs[b] = [a] + some_ords(1, [x for x in ords if x not in ea])
        valid_rest(hn[2:], True, [x for x in ords if x not in ea and x not in (fs[b] or [])])
    elif shape == "two_wildcards":
        fs[hn[0]] = None
        fs[hn[1]] = None
        valid_rest(hn[2:], False, ords)
    elif shape == "overlap":
        t = rng.choice(ords)
        fs[hn[0]] = sorted({t, *some_ords(1)})
        fs[hn[1]] = sorted({t, *some_ords(1)})
        valid_rest(hn[2:], True, [x for x in ords if x not in fs[hn[0]] and x not in fs[hn[1]]])  # type: ignore[operator]
    elif shape == "unknown_step":
        fs[hn[0]] = some_ords(1) + ["s25"]
        valid_rest(hn[1:], True, [x for x in ords if x not in fs[hn[0]]])  # type: ignore[operator]
    elif shape == "chain":
        # h0 owns ordinary steps (scoped or wildcard), h1 lists h0, h2 lists h1
        fs[hn[0]] = None if rng.random() < 0.5 else (some_ords(2) or ords[:1])
        for prev, h in zip(hn, hn[1:]):
            fs[h] = [prev]
    else:
        raise ValueError(shape)
    return fs


def gen_handler_layout_spec(rng: random.Random, shape: str | None = None) -> dict:
    """family "handler_layout": the LAYOUT of the @catch_error handlers is the input.  One to three ordinary steps that
    fail (at once or after retries) next to one to three handlers laid out by `handler_layout`; the handlers mostly raise
    themselves, so that -- wherever a layout is accepted -- failures of HANDLER steps occur at run time and have to fail
    the run instead of reaching a handler.  Layouts that break a documented rule are expected to be rejected by
    validation (outcome "invalid"); the monitors judge table and run from the layout alone."""
    shape = shape or rng.choice(HANDLER_LAYOUT_SHAPES)
    n_ord = rng.randint(1, 3)
    tys = rng.sample(PLAIN[:4], n_ord)
    onames = [f"s{i:02d}" for i in rng.sample(range(1, 12), n_ord)]
    nh = rng.choice([1, 2, 2, 2, 3, 3])
    if shape in ("scoped_lists_wildcard", "scoped_lists_scoped", "mutual", "two_wildcards", "overlap"):
        nh = max(nh, 2)
    if shape == "chain":
        nh = rng.choice([2, 3])
    hn = [f"s{i:02d}" for i in rng.sample(range(12, 20), nh)]
    ords = ["s00"] + onames
    fs = handler_layout(rng, ords, hn, shape)
    steps: list[dict[str, Any]] = []
    sends = [["send", t, None, rng.choice([None, 1, 2])] for t in tys for _ in range(rng.choice([1, 1, 2]))]
    rng.shuffle(sends)
    start_end = rng.choice([["fail_always", rng.randint(1, 9)], ["fail_always", rng.randint(1, 9)], ["ret", "none"]])
    start_script = sends + ([["gate"]] if rng.random() < 0.3 else []) + ([start_end, ["ret", "none"]] if start_end[0] != "ret" else [start_end])
    steps.append({"name": "s00", "accepts": [0], "nw": 1, "retry": None, "script": start_script})
    for nm, t in zip(onames, tys):
        pol = rng.choice([None, None, {"kind": "attempts", "n": 2, "wait": 0}, {"kind": "attempts", "n": 2, "wait": 1}])
        body = rng.choice([["fail_always", rng.randint(1, 9)], ["fail_always", rng.randint(1, 9)], ["fail_always", rng.randint(1, 9)],
                           ["fail_on_k", 2, rng.randint(1, 9)]])
        steps.append({"name": nm, "accepts": [t], "nw": rng.randint(1, 2), "retry": pol,
                      "script": ([["gate"]] if rng.random() < 0.3 else []) + [body, ["ret", "none"]]})
    for h in hn:
        r = rng.random()
        if r < 0.6:
            hs: list = [["fail_always", rng.randint(1, 9)]]
        elif r < 0.75:
            hs = [["ret", "stop"]]
        elif r < 0.9:
            hs = [["ret", str(rng.choice(tys))]]  # back into a failing step: the lineage re-enters its handler (budget)
        else:
            hs = [["ret", "none"]]
        steps.append({"name": h, "accepts": [4], "role": "handler", "for_steps": fs[h], "max_rec": rng.choice([1, 1, 2]),
                      "script": ([["gate"]] if rng.random() < 0.2 else []) + hs})
    rng.shuffle(steps)
    return {"steps": steps, "externals": [], "layout_shape": shape}


_general = gen_spec


def gen_spec(rng: random.Random, **kw: Any) -> dict:  # type: ignore[no-redef]
    r = rng.random()
    if kw.get("family") == "span":
        return gen_span_spec(rng)
    if kw.get("family") == "collect_retry":
        return gen_collect_retry_spec(rng)
    if kw.get("family") == "handover":
        return gen_handover_spec(rng)
    if kw.get("family") == "wait_multi":
        return gen_wait_multi_spec(rng)
    if kw.get("family") == "handler_send":
        return gen_handler_send_spec(rng)
    if kw.get("family") == "handler_layout":
        return gen_handler_layout_spec(rng, shape=kw.get("shape"))
    if kw.get("family") == "general" or r < 0.55:
        kw.pop("family", None)
        kw.pop("raise_incomplete", None)
        return _general(rng, **kw)
    fam = kw.get("family")
    if fam == "fanin" or (fam is None and r < 0.70):
        return gen_fanin_spec(rng, raise_incomplete=bool(kw.get("raise_incomplete")))
    if fam == "retry" or (fam is None and r < 0.85):
        return gen_retry_spec(rng)
    if fam == "wait_retry":
        return gen_wait_spec(rng, retried=True)
    return gen_wait_spec(rng)
