import WfProofs.RunnerC03
/-!
C03 on the runner, part 4: what is true at the moment the loop announces idleness, and what an
idle loop can still do on its own.
-/
set_option linter.unusedSimpArgs false
set_option linter.unusedVariables false

namespace Engine

/-- idle announcements on the published stream: `WorkflowIdleEvent`, `UnhandledEvent(idle=True)` -/
def Pub.isIdleAnn : Pub → Bool
  | .idle => true
  | .unhandled _ _ true => true
  | _ => false

theorem isIdlePub_publish (p : Pub) : isIdlePub (.publish p) = p.isIdleAnn := by
  cases p <;> try rfl
  rename_i ty step idle
  cases idle <;> rfl

theorem execCmd_stream (r : Runner) (c : Cmd) :
    ∃ new, (execCmd r c).stream = r.stream ++ new ∧ ∀ p ∈ new, Cmd.publish p ∈ [c] := by
  cases c with
  | queueEvent att step delay =>
    refine ⟨[], ?_, by simp⟩
    simp only [execCmd]
    cases delay with
    | none => simp
    | some d => simp only; split <;> simp [Runner.push]
  | publish p => exact ⟨[p], rfl, by simp⟩
  | scheduleIdleCheck => refine ⟨[], ?_, by simp⟩; simp only [execCmd]; split <;> simp
  | _ => exact ⟨[], by simp [execCmd, Runner.finish, Runner.push], by simp⟩

/-- what a command list appends to the stream are publishes of the list -/
theorem execCmds_stream : ∀ (cmds : List Cmd) (r : Runner),
    ∃ new, (execCmds r cmds).stream = r.stream ++ new ∧ ∀ p ∈ new, Cmd.publish p ∈ cmds
  | [], r => ⟨[], by simp [execCmds], by simp⟩
  | c :: cs, r => by
    obtain ⟨n1, h1, h2⟩ := execCmd_stream r c
    simp only [execCmds]
    split
    · refine ⟨n1, h1, ?_⟩
      intro p hp
      have := h2 p hp
      simp only [List.mem_singleton] at this
      rw [this]; simp
    · obtain ⟨n2, g1, g2⟩ := execCmds_stream cs (execCmd r c)
      refine ⟨n1 ++ n2, by rw [g1, h1, List.append_assoc], ?_⟩
      intro p hp
      rcases List.mem_append.mp hp with hp | hp
      · have := h2 p hp
        simp only [List.mem_singleton] at this
        rw [this]; simp
      · exact List.mem_cons_of_mem _ (g2 p hp)

/-- the stream is append-only, and only `drain` (the loop) and `stepWrite` (a running step) write to it -/
theorem step_stream (cfg : Cfg) (pol : Policy) (r : Runner) (a : Act) :
    (r.step cfg pol a).stream = r.stream ∨
      (∃ p, a = .stepWrite p ∧ (r.step cfg pol a).stream = r.stream ++ [p]) ∨
      (∃ t rest, a = .drain ∧ r.outcome = none ∧ r.buf = t :: rest ∧
        (reduce cfg pol t r.st r.now).2.contains .crash = false ∧
        r.step cfg pol a = execCmds (r.logged t rest (reduce cfg pol t r.st r.now).1) (reduce cfg pol t r.st r.now).2) := by
  cases ho : r.outcome with
  | some o =>
    left
    have : r.step cfg pol a = r := by unfold Runner.step; simp [ho]
    rw [this]
  | none =>
  cases a with
  | drain =>
    cases hbuf : r.buf with
    | nil =>
      left
      have : r.step cfg pol .drain = r := by unfold Runner.step; simp [ho, hbuf]
      rw [this]
    | cons t rest =>
      rw [step_drain cfg pol r t rest ho hbuf]
      cases hc : (reduce cfg pol t r.st r.now).2.contains .crash with
      | true => left; simp [Runner.finish, Runner.popped]
      | false => right; right; exact ⟨t, rest, rfl, rfl, rfl, hc, by simp [hc]⟩
  | workerDone s w res =>
    left
    unfold Runner.step
    simp only [ho, Option.isSome_none, Bool.false_eq_true, ↓reduceIte]
    split
    · rfl
    · split <;> rfl
  | pull =>
    left
    unfold Runner.step
    simp only [ho, Option.isSome_none, Bool.false_eq_true, ↓reduceIte]
    split
    · rfl
    · split <;> rfl
  | timer =>
    left
    unfold Runner.step
    simp only [ho, Option.isSome_none, Bool.false_eq_true, ↓reduceIte]
    split <;> rfl
  | advance dt =>
    left
    unfold Runner.step
    simp only [ho, Option.isSome_none, Bool.false_eq_true, ↓reduceIte]
  | external t =>
    left
    unfold Runner.step
    simp only [ho, Option.isSome_none, Bool.false_eq_true, ↓reduceIte]
    split <;> rfl
  | stepWrite p =>
    right; left
    refine ⟨p, rfl, ?_⟩
    unfold Runner.step
    simp only [ho, Option.isSome_none, Bool.false_eq_true, ↓reduceIte]

/-- a step result's command list announces nothing -/
theorem reduce_idlePub_not_stepResult (cfg : Cfg) (pol : Policy) (tick : Tick) (st : State) (now : Int)
    (h : (reduce cfg pol tick st now).2.any isIdlePub = true) : tick.isStepResult = false := by
  cases tick with
  | stepResult step worker ev res =>
    exfalso
    unfold reduce at h
    simp only at h
    split at h
    · simp only [List.any_append, processStepResult_noIdle, Bool.false_or] at h
      simp [isIdlePub] at h
    · rw [processStepResult_noIdle] at h; cases h
  | _ => rfl

/-- the state (up to the clock) of a runner -/
def Runner.sameButClock (r r' : Runner) : Prop :=
  r'.st = r.st ∧ r'.buf = r.buf ∧ r'.heap = r.heap ∧ r'.seq = r.seq ∧ r'.idlePending = r.idlePending ∧
    r'.running = r.running ∧ r'.stream = r.stream ∧ r'.log = r.log ∧ r'.outcome = r.outcome ∧
    r'.mailbox = r.mailbox

/-- actions the loop can take on its own: everything but an external `send_event` and a write of a
running step -/
def Act.isInternal : Act → Bool
  | .external _ => false
  | .stepWrite _ => false
  | _ => true

/-- a loop with nothing buffered, no live task, no timer and an empty mailbox does nothing on its
own: whatever it tries, only the clock moves -/
theorem step_quiescent (cfg : Cfg) (pol : Policy) (r : Runner) (a : Act) (ha : a.isInternal = true)
    (hb : r.buf = []) (hr : r.running = []) (hh : r.heap = []) (hm : r.mailbox = []) :
    r.sameButClock (r.step cfg pol a) := by
  cases ho : r.outcome with
  | some o =>
    have : r.step cfg pol a = r := by unfold Runner.step; simp [ho]
    rw [this]; exact ⟨rfl, rfl, rfl, rfl, rfl, rfl, rfl, rfl, rfl, rfl⟩
  | none =>
  cases a with
  | drain =>
    have : r.step cfg pol .drain = r := by unfold Runner.step; simp [ho, hb]
    rw [this]; exact ⟨rfl, rfl, rfl, rfl, rfl, rfl, rfl, rfl, rfl, rfl⟩
  | workerDone s w res =>
    have : r.step cfg pol (.workerDone s w res) = r := by unfold Runner.step; simp [ho, hb, hr]
    rw [this]; exact ⟨rfl, rfl, rfl, rfl, rfl, rfl, rfl, rfl, rfl, rfl⟩
  | pull =>
    have : r.step cfg pol .pull = r := by unfold Runner.step; simp [ho, hb, hm]
    rw [this]; exact ⟨rfl, rfl, rfl, rfl, rfl, rfl, rfl, rfl, rfl, rfl⟩
  | timer =>
    unfold Runner.step
    simp only [ho, Option.isSome_none, Bool.false_eq_true, ↓reduceIte, hb, List.isEmpty_nil, Bool.not_true, hh,
      List.filter_nil, sortTimers, List.foldr_nil, List.map_nil]
    exact ⟨rfl, hb.symm, hh.symm, rfl, rfl, rfl, rfl, rfl, ho.symm, rfl⟩
  | advance dt =>
    unfold Runner.step
    simp only [ho, Option.isSome_none, Bool.false_eq_true, ↓reduceIte]
    exact ⟨rfl, rfl, rfl, rfl, rfl, rfl, rfl, rfl, ho.symm, rfl⟩
  | external t => simp [Act.isInternal] at ha
  | stepWrite p => simp [Act.isInternal] at ha

theorem run_quiescent (cfg : Cfg) (pol : Policy) : ∀ (acts : List Act) (r : Runner),
    (∀ a ∈ acts, a.isInternal = true) → r.buf = [] → r.running = [] → r.heap = [] → r.mailbox = [] →
    r.sameButClock (Runner.run cfg pol r acts)
  | [], r, _, _, _, _, _ => ⟨rfl, rfl, rfl, rfl, rfl, rfl, rfl, rfl, rfl, rfl⟩
  | a :: as, r, ha, hb, hr, hh, hm => by
    simp only [Runner.run, List.foldl_cons]
    have h1 := step_quiescent cfg pol r a (ha a (by simp)) hb hr hh hm
    obtain ⟨e1, e2, e3, e4, e5, e6, e7, e8, e9, e10⟩ := h1
    have h2 := run_quiescent cfg pol as (r.step cfg pol a) (fun x hx => ha x (by simp [hx]))
      (e2.trans hb) (e6.trans hr) (e3.trans hh) (e10.trans hm)
    obtain ⟨f1, f2, f3, f4, f5, f6, f7, f8, f9, f10⟩ := h2
    exact ⟨f1.trans e1, f2.trans e2, f3.trans e3, f4.trans e4, f5.trans e5, f6.trans e6, f7.trans e7,
      f8.trans e8, f9.trans e9, f10.trans e10⟩

/-- the reducer state of a runner changes only by reducing a tick -/
theorem step_st_cases (cfg : Cfg) (pol : Policy) (r : Runner) (a : Act) :
    (r.step cfg pol a).st = r.st ∨ ∃ t, (r.step cfg pol a).st = (reduce cfg pol t r.st r.now).1 := by
  rcases step_stream cfg pol r a with h | ⟨p, rfl, _⟩ | ⟨t, rest, rfl, ho, hb, hc, he⟩
  · -- not a successful drain: the state is untouched
    cases ho : r.outcome with
    | some o =>
      have : r.step cfg pol a = r := by unfold Runner.step; simp [ho]
      rw [this]; exact Or.inl rfl
    | none =>
    cases a with
    | drain =>
      cases hbuf : r.buf with
      | nil =>
        have : r.step cfg pol .drain = r := by unfold Runner.step; simp [ho, hbuf]
        rw [this]; exact Or.inl rfl
      | cons t rest =>
        rw [step_drain cfg pol r t rest ho hbuf]
        split
        · exact Or.inl rfl
        · right; exact ⟨t, by rw [execCmds_st]; rfl⟩
    | workerDone s w res =>
      left; unfold Runner.step
      simp only [ho, Option.isSome_none, Bool.false_eq_true, ↓reduceIte]
      split
      · rfl
      · split <;> rfl
    | pull =>
      left; unfold Runner.step
      simp only [ho, Option.isSome_none, Bool.false_eq_true, ↓reduceIte]
      split
      · rfl
      · split <;> rfl
    | timer =>
      left; unfold Runner.step
      simp only [ho, Option.isSome_none, Bool.false_eq_true, ↓reduceIte]
      split <;> rfl
    | advance dt =>
      left; unfold Runner.step
      simp only [ho, Option.isSome_none, Bool.false_eq_true, ↓reduceIte]
    | external t =>
      left; unfold Runner.step
      simp only [ho, Option.isSome_none, Bool.false_eq_true, ↓reduceIte]
      split <;> rfl
    | stepWrite p =>
      left; unfold Runner.step
      simp only [ho, Option.isSome_none, Bool.false_eq_true, ↓reduceIte]
  · left
    cases ho : r.outcome with
    | some o => unfold Runner.step; simp [ho]
    | none => unfold Runner.step; simp [ho]
  · right; exact ⟨t, by rw [he, execCmds_st]; rfl⟩

/-- the worker-slot invariant holds in every state of every run, resumed from whatever state -/
theorem run_idsInv (cfg : Cfg) (hwf : cfg.WF) (pol : Policy) :
    ∀ (acts : List Act) (r : Runner), IdsInv cfg r.st → IdsInv cfg (Runner.run cfg pol r acts).st
  | [], r, h => h
  | a :: as, r, h => by
    simp only [Runner.run, List.foldl_cons]
    apply run_idsInv cfg hwf pol as
    rcases step_st_cases cfg pol r a with he | ⟨t, he⟩
    · rw [he]; exact h
    · rw [he]; exact reduce_idsInv cfg hwf pol t r.st r.now h

theorem run_qInv (cfg : Cfg) (hwf : cfg.WF) (pol : Policy) :
    ∀ (acts : List Act) (r : Runner), (r.outcome = none → QInv cfg r.st) →
      (Runner.run cfg pol r acts).outcome = none → QInv cfg (Runner.run cfg pol r acts).st
  | [], r, h => h
  | a :: as, r, h => by
    simp only [Runner.run, List.foldl_cons]
    exact run_qInv cfg hwf pol as _ (step_qInv cfg hwf pol r a h)

theorem init_st (cfg : Cfg) (st0 : State) (now : Int) (start : Option Ev) (timeout : Option Nat) :
    (Runner.init cfg st0 now start timeout).st = (rewind cfg st0 now).1 := by
  unfold Runner.init
  simp only
  rw [execCmds_st]

end Engine
