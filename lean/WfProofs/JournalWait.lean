import WfProofs.JournalRecover
import WfProofs.JournalTable
/-! C27: write order without guards, lifting the simulation to executions, and the two branches of
`wait_for_next_task`. -/
namespace Journal

section abstract
variable {σ κ ν ο : Type} [DecidableEq κ]

/-- Unconditionally (timeouts or not): the durable journal is the list of completions acted upon,
plus at most one entry that is recorded and not yet acted upon.  No acted completion is missing. -/
theorem jr_of_reach (L : Loop σ κ ν ο) {w : World σ κ ν ο} (hr : Reach L w) :
    w.jr = actedKeys w.hist ++ (match w.pend with | none => [] | some t => [t.key]) := by
  induction hr with
  | init => simp [Loop.world0, actedKeys]
  | step hr hs ih =>
    cases hs with
    | finish => exact ih
    | recv => exact ih
    | send => exact ih
    | record t v hp hm hmemo => rw [hp] at ih; simp [ih]
    | actOn t v hp hmemo => rw [hp] at ih; simp [ih, actedKeys_snoc_some]
    | timeout hp ha =>
      rw [hp] at ih ⊢
      have : ∀ h : List (Option (Task κ × ν)), actedKeys (h ++ [none]) = actedKeys h := by
        intro h; induction h with
        | nil => rfl
        | cons x xs ih2 => cases x with
          | none => simpa [actedKeys] using ih2
          | some p => obtain ⟨a, b⟩ := p; simp [actedKeys, ih2]
      simp [ih, this]

theorem Steps.trans {L : Loop σ κ ν ο} {a b c : World σ κ ν ο} (h1 : Steps L a b) (h2 : Steps L b c) :
    Steps L a c := by
  induction h2 with
  | refl => exact h1
  | tail _ s ih => exact .tail ih s

theorem reach_steps {L : Loop σ κ ν ο} {a b : World σ κ ν ο} (hr : Reach L a) (h : Steps L a b) : Reach L b := by
  induction h with
  | refl => exact hr
  | tail _ s ih => exact .step ih s

/-- the simulation lifted to whole executions -/
theorem sim_steps (L : Loop σ κ ν ο) {w w2 w' : World σ κ ν ο} (hr : Reach L w)
    (hs : Sim w w') (st : Steps L w w2) : ∃ w2', Steps L w' w2' ∧ Sim w2 w2' := by
  induction st with
  | refl => exact ⟨w', .refl _, hs⟩
  | tail h s ih =>
    obtain ⟨wm, hsm, hsim⟩ := ih
    obtain ⟨w3, hs3, hsim3⟩ := sim_step L (reach_steps hr h) hsim s
    exact ⟨w3, hsm.trans hs3, hsim3⟩

end abstract

section wait
variable {κ : Type} [DecidableEq κ]

/-- Replay branch: when the journal still has an entry `k`, the task `k` is among the tasks and it
finishes, the call returns `k` — whatever else finished, whatever the scheduler would have picked —
writes nothing, and moves the replay index by one. -/
theorem wait_replay (a : Adapter κ) (db : Db κ) (run : String) (fid : Nat) (inflight done : List κ)
    (timedOut : Bool) (choice : Option κ) (k : κ)
    (hk : (a.tj.load db run).nextExpected = some k) (hin : inflight.contains k = true)
    (hdone : done.contains k = true) :
    (waitNext a db run fid inflight done timedOut choice).2.2.out = .replayed k ∧
    (waitNext a db run fid inflight done timedOut choice).2.1.rows = db.rows ∧
    (waitNext a db run fid inflight done timedOut choice).1.tj.idx = (a.tj.load db run).idx + 1 := by
  have hne : inflight.isEmpty = false := by
    cases inflight with
    | nil => simp at hin
    | cons x xs => rfl
  have hin' : k ∈ inflight := by simpa using hin
  have hdone' : k ∈ done := by simpa using hdone
  simp [waitNext, hk, hin', hdone', hne, TJ.advance]

/-- Fresh branch: the completion handed over by the scheduler is INSERTed (with `seq_num` = number of
entries so far) before the call returns; the next `load` ends with it. -/
theorem wait_fresh (a : Adapter κ) (db : Db κ) (run : String) (fid : Nat) (inflight done : List κ)
    (timedOut : Bool) (k : κ)
    (hw : WF db run) (hs : Sync (a.tj.load db run) db run)
    (hk : (a.tj.load db run).nextExpected = none) (hpd : a.purgeDone = true)
    (hin : inflight.contains k = true) (hdone : done.contains k = true) :
    (waitNext a db run fid inflight done timedOut (some k)).2.2.out = .fresh k (db.load run).length ∧
    (waitNext a db run fid inflight done timedOut (some k)).2.1.load run = db.load run ++ [k] := by
  have hne : inflight.isEmpty = false := by
    cases inflight with
    | nil => simp at hin
    | cons x xs => rfl
  have hr := record_roundtrip (a.tj.load db run) db run k hw hs
  unfold Sync at hs
  have hin' : k ∈ inflight := by simpa using hin
  have hdone' : k ∈ done := by simpa using hdone
  simp [waitNext, hk, hpd, hin', hdone', hne, hs]
  simpa [hs] using hr.1

end wait
end Journal
