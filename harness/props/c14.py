"""C14 — pending retries and waiter timeouts survive idle release and restart."""
from __future__ import annotations

import copy
import json
import random
from typing import Any

from ..engine import specgen, suite
from ..runner import Divergence, Driver, Env, Outcome, Violation, diff_streams

THEOREMS = ["C14_reload_drops_all_timers", "C14_refuted_retry", "C14_refuted_waiter_timeout", "C14_refuted_retry_restart",
            "C14_refuted_retry_resume", "C14_refuted_waiter_timeout_restart", "C14_retry_lost_forever",
            "C14_waiter_timeout_lost_forever", "C14_partial", "C14_next_wakeup_is_earliest", "C14_timer_pops_exactly_the_due",
            "C14_every_timer_fires_when_due", "C14_timer_heap_source_shape",
            "C14_retry_tick_carries_its_first_attempt", "C14_step_result_ignores_reducer_clock",
            "C14_granted_retry_regranted_at_any_replay_clock"]
LEAN_TARGETS = ["WfProps.C14"]
EXPLANATION = (
    "Model WfModel/Timers.lean: one handler of the in-process server stack = persisted tick log + handler row (status, "
    "idle_since) + at most one in-memory control loop (the runner LTS of WfModel/Runner.lean, whose heap holds delayed "
    "TickAddEvent retries and TickWaiterTimeouts), with the actions run / send (reload on demand) / release (idle release, "
    "guarded by idle_since + idle_timeout) / restart (process stop) / resume (_on_server_start: running and idle_since "
    "NULL only, finalising on a replayed exit command); reload = replay_ticks_stream at the clock of the reload -> "
    "to_serialized -> from_serialized -> _ControlLoopRunner start with the workflow timeout armed from scratch. Lean: "
    "C14_reload_drops_all_timers (for every log and clock the reloaded heap is the fresh workflow timeout only); the full "
    "statement C14_statement (a retry / waiter timeout pending at an enabled idle release or restart can still be processed "
    "after the reload by the system left to itself) is REFUTED by five witnesses (retry x idle release, retry x restart via "
    "send and via server-start resume, waiter timeout x idle release / restart); each refutation quantifies over ALL "
    "continuations through the invariant stuck_forever (control-loop steps, time, further releases / restarts / resumes, "
    "reloading sends of unaccepted events never process the lost tick, start a worker or end the run: the handler stays "
    "running forever), which rests on a proved clock-erasure simulation of the whole reducer (a replay at any clock yields "
    "the same serialised context, first-attempt timestamps aside, when the policy ignores elapsed time). C14_partial: for every schedule of the first control "
    "loop with no retry / waiter timer pending, reloading after the cut at any clock gives the live reducer state (up to first-attempt timestamps, which waiters keep "
    "for the invocations suspended in them) serialised and restarted, no exit command, and the same (empty) set of retry / waiter timers. Tie: generated retry / "
    "wait / fan-out workflows run on the REAL stack (ServerRuntimeDecorator(IdleReleaseDecorator(PersistenceDecorator("
    "BasicRuntime)))) + _WorkflowService under the virtual-time loop with idle_timeout below / at / above the pending delays, "
    "process stops and service sends at scheduler-chosen quiescent instants; every reducer call of every incarnation, the "
    "real runner's tick buffer / timer heap / workers / stream length at every tick and at every quiescent point, the timer "
    "heap at the moment of _abort_inner_run / crash, the handler row (status, idle_since, in memory, number of loads) and the "
    "persisted tick log are compared line by line with `wfdriver timers`. Search (model independent): every timer the step "
    "side asked for (retry policy answered with a delay; wait_for_event(timeout) registered a new waiter) must be processed "
    "by a control loop exactly at its due time and take effect (step re-entered with that retry number / TimeoutError raised), "
    "classified by what happened while it was pending (no_release / after_idle_release / after_restart) and by "
    "lost / early / late / no_effect / spurious; the four lost-after-cut signatures are the known findings (witnesses "
    "replayed on every run with the F13 numbers: wait_fixed(0.5), idle_timeout=0.1), anything else is a VIOLATION. "
    "Inside one incarnation: stream 'multi' arms three to five timers at once (waiter timeouts and retry delays, distinct or tying due times, "
    "optionally the workflow timeout) in a random push order (order of the fan-out / scheduler-opened gates), with idle_timeout just above / at the "
    "largest gap between consecutive due times, never, or around one delay; a timer that was already due when the run left memory is classified "
    "<kind>_overdue_at_<cut> (the loop slept past it: not one of the known losses, whose timers were still in the future at the cut). Lean: "
    "C14_next_wakeup_is_earliest / C14_timer_pops_exactly_the_due / C14_every_timer_fires_when_due (a loop that sleeps until Runner.nextWakeup and "
    "pops delivers every pending timer exactly when due, whatever the arming order); the model keeps the heap as a bag, which "
    "C14_timer_heap_source_shape justifies (scheduled_wakeups is changed through heapq.heappush / heappop only, re-read from control_loop.py), and the "
    "op `wake` compares the real runner's next_wakeup_timeout with Runner.nextWakeup at every quiescent point. "
    "Retries already granted (stream 'budget'): a step under a retry policy bounded by ELAPSED time (stop_after_delay(D) / stop_before_delay(D), wait_fixed(w); "
    "one case in six the same history under stop_after_attempt) fails 2-3 times well inside D, then the run leaves memory for 0 / D / 2D / 3D / 40 / 50 virtual "
    "seconds (plan action [\"crash\", downtime]; the model ops restart t / resume t' carry both clocks): process stop with retry n executing (a sibling branch "
    "keeps the handler non-idle, so the next boot resumes it) or with its delay running, or idle release while retry n is suspended in wait_for_event and the "
    "awaited event reloads the run. Monitors: granted_retry_revoked_by_reload_after_<cut>_<pending|in_flight|suspended_in_wait|carried_out> -- the journal replay "
    "of a reload is asked about the very failures the live loop was asked about (paired in journal order by step / input / failure number); a failure for which "
    "the live policy granted a retry must not be answered 'give up' in the replay (what was handed to the policy live and in the replay is reported, with what the "
    "reloaded run then did); retry_in_flight_not_resumed_after_restart -- end to end from step executions and the handler row: a retried execution that was running "
    "at the process stop of a running / non-idle handler is executed again after the next boot. Both hold of the unchanged code (its replay re-stamps the first "
    "attempt of a NON-retried execution with the replay clock -- open finding of C11 -- which can only turn a refusal into a grant, never the reverse). Lean: "
    "C14_retry_tick_carries_its_first_attempt (a retry tick with its first_attempt_at starts the same execution at every reducer clock), "
    "C14_step_result_ignores_reducer_clock (for EVERY policy the commands of a step-result tick -- retry granted, delay, exit -- are the same at every reducer clock), "
    "C14_granted_retry_regranted_at_any_replay_clock (their composition), with a stop_after_delay(7) history reloaded 25 s after the first attempt as the worked example."
)
ASSUMPTIONS = suite.ENGINE_ASSUMPTIONS + [
    "process stop is modelled at quiescent points of the event loop (tick buffer drained); a stop between a tick's on_tick and its commands is property C13's subject",
    "restart = a fresh stack over the same store in the same interpreter (harness/server/stack.py crash()); the OS process boundary itself is not exercised",
    "the memory workflow store is used for the generated streams (sqlite only in the witness replays); the store's own durability is C21/C24",
    "datetime.now of idle_release_runtime / server_runtime and time.time of the engine are the virtual clock; correspondence streams use integral seconds",
    "the partial theorem assumes a retry policy whose decision ignores elapsed time (the replay runs at the clock of the reload) and ticks whose persisted form is the tick itself (AddWaiter.requirements are never persisted; observed on the stack and modelled by Tick.stored)",
    "the DBOS runtime's idle release (TickIdleRelease) is not covered; only the in-process IdleReleaseDecorator",
]
TRUSTED_EXTRA = ["harness/server/stack.py + harness/server/timers.py (wiring of the real server decorators without starlette/uvicorn, observers on IdleReleaseDecorator._abort_inner_run/_release_idle_handler, _ServerInternalRunAdapter.write_to_event_stream, _ControlLoopRunner.__init__)"]

KNOWN = {"C14/retry_lost_after_idle_release", "C14/retry_lost_after_restart",
         "C14/waiter_timeout_lost_after_idle_release", "C14/waiter_timeout_lost_after_restart"}


# --------------------------------------------------------------------------
# generators


def _delays(spec: dict) -> list[int]:
    ds = []
    for s in spec["steps"]:
        p = s.get("retry")
        if p:
            if p.get("wait"):
                ds.append(p["wait"])
            ds += [w for w in p.get("waits", []) if w]
        for a in s["script"]:
            if a[0] == "wait" and a[3]:
                ds.append(a[3])
    return [int(d) for d in ds if d and d == int(d)]


def gen_timer_spec(rng: random.Random) -> tuple[str, dict]:
    """retry / wait / fan-out workflows, biased towards positive retry delays and waiter timeouts"""
    fam = rng.choice(["retry", "retry", "wait", "wait", "det"])
    if fam == "retry":
        spec = specgen.gen_retry_spec(rng)
        for s in spec["steps"]:
            p = s.get("retry")
            if p and p.get("kind") in ("attempts", "legacy") and not p.get("wait") and rng.random() < 0.6:
                p["wait"] = rng.choice([1, 2, 3, 5, 8])
    elif fam == "wait" and rng.random() < 0.25:
        # two DIFFERENT steps wait at the same time for the same event type with the same requirements and no explicit
        # waiter id (the auto-generated id is then the same string in both steps), with different timeouts; nothing arrives
        wty, reqk = rng.choice([3, 11]), rng.choice([None, 1])
        t1, t2 = rng.sample([2, 3, 5, 8, 13], 2)
        mk = lambda nm, t: {"name": nm, "accepts": [5], "nw": 1, "retry": None,
                            "script": [["wait", wty, reqk, t, None, None, rng.choice(["swallow", "swallow", "raise"])], ["ret", "6"]]}
        spec = {"steps": [{"name": "s00", "accepts": [0], "nw": 1, "retry": None, "script": [["send", 5, None, 1], ["ret", "none"]]},
                          mk("s02", t1), mk("s06", t2),
                          {"name": "s04", "accepts": [6], "nw": 1, "retry": None, "script": [["collect", [6, 6]], ["ret", "stop"]]}],
                "externals": []}
        for st in spec["steps"]:
            if st["name"] in ("s02", "s06"):
                st["script"][0][6] = "swallow"  # both must come back for the collector to finish
        rng.shuffle(spec["steps"])
    elif fam == "wait":
        spec = specgen.gen_wait_spec(rng)
        for s in spec["steps"]:
            for a in s["script"]:
                if a[0] == "wait" and rng.random() < 0.7:
                    a[3] = rng.choice([2, 3, 5, 8, 20])
    else:
        spec = specgen.gen_det_spec(rng, delays=True)
    spec["externals"] = [e for e in spec.get("externals", []) if e.get("op") == "send"]
    if spec.get("timeout") is not None and rng.random() < 0.5:
        spec["timeout"] = rng.choice([15, 45])
    return fam, spec


def gen_multi_timer_spec(rng: random.Random) -> dict:
    """THREE TO FIVE timers pending at once in one run: the start step fans one event out to n branches, each of which
    arms one timer -- a wait_for_event(timeout=d) that nobody answers, or a failing attempt whose retry policy asks for the
    delay d (sometimes two delays in a row) -- and a collector gathers the n results.  The delays are distinct (sometimes two
    of them tie); the ORDER in which the timers are pushed onto the runner's heap is random: the order of the start step's
    sends, or, when the branches are gated, the order in which the scheduler opens the gates (with time possibly passing in
    between).  Optionally the workflow timeout is a further entry (pushed first, usually the latest)."""
    n = rng.choice([3, 3, 3, 4, 4, 5])
    ds = rng.sample([2, 3, 4, 5, 6, 7, 8, 9, 11, 13, 15, 18, 22, 27], n)
    if rng.random() < 0.25:
        ds[1] = ds[0]  # two timers due together
    gated = rng.random() < 0.4
    names = [f"s{i:02d}" for i in rng.sample(range(1, 12), n)]
    branches = []
    for i, (nm, d) in enumerate(zip(names, ds)):
        pre = [["gate"]] if gated and rng.random() < 0.8 else []
        if rng.random() < 0.6:
            wid = rng.choice([None, None, f"w{i + 1:02d}", "per"])
            sc = pre + [["wait", rng.choice([3, 11]), rng.choice([None, None, 1]), d, wid, None, "swallow" if rng.random() < 0.9 else "raise"], ["ret", "10"]]
            pol = None
        else:
            r = rng.random()
            nfail = 1
            if r < 0.55:
                pol = {"kind": "attempts", "n": rng.randint(2, 3), "wait": d}
            elif r < 0.75:
                pol = {"kind": "legacy", "n": rng.randint(2, 3), "wait": d}
            else:
                nfail = 2  # a second delay is pushed when the first one has fired (onto whatever the pop left behind)
                pol = {"kind": "chain", "n": 4, "waits": [d, rng.choice([1, 2, 4, 6])]}
            sc = pre + [["fail_until", nfail, rng.randint(1, 9)], ["ret", "10"]]
        branches.append({"name": nm, "accepts": [5 + i], "nw": 1, "retry": pol, "script": sc})
    sends = [["send", 5 + i, None, rng.choice([None, 1, 2])] for i in range(n)]
    rng.shuffle(sends)
    start = {"name": "s00", "accepts": [0], "nw": 1, "retry": None, "script": sends + [["ret", "none"]]}
    coll = {"name": "s20", "accepts": [10], "nw": 1, "retry": None, "script": [["collect", [10] * n], ["ret", "stop"]]}
    steps = [start] + branches + [coll]
    rng.shuffle(steps)
    spec: dict[str, Any] = {"steps": steps, "externals": []}
    r = rng.random()
    if r < 0.2:
        spec["timeout"] = max(ds) + rng.choice([3, 10, 40])
    elif r < 0.3:
        spec["timeout"] = rng.choice([45, 1000])
    elif r < 0.35:
        spec["timeout"] = sorted(ds)[-1] - 1  # the run ends (workflow timeout) with the last timer still pending
    return spec


def gen_multi_conf(rng: random.Random, spec: dict) -> dict:
    """idle_timeout relative to the GAPS between consecutive due times (all timers armed at about the same instant): just above
    the largest gap (a run that delivers every timer on time re-announces idleness at every delivery and is never released
    with a timer pending), equal to it, never, or around one of the delays (the known losses)"""
    ds = sorted(set(_delays(spec) + ([int(spec["timeout"])] if spec.get("timeout") else [])))
    gaps = [b - a for a, b in zip([0] + ds, ds)] or [3]
    g = max(gaps)
    d = rng.choice(ds or [3])
    idle = rng.choice([g + 1, g + 1, g + 1, g + 2, g, 10 ** 6, 10 ** 6, 10 ** 6, max(1, d - 1), d + 1, 1])
    return {"idle_timeout": int(idle), "crashes": rng.choice([0, 0, 0, 0, 1]), "crash_pct": 10, "horizon": 300}


def gen_budget_case(rng: random.Random) -> tuple[str, dict, dict]:
    """A step whose retry policy is bounded by ELAPSED TIME (stop_after_delay(D) / stop_before_delay(D), wait_fixed(w)) fails
    n >= 2 times in a row -- every failure well inside the budget, so every retry is granted and the second and later ones
    are journaled as retry ticks carrying the original first-attempt time -- and then the run leaves memory for LONGER than
    the budget D:
      in_flight  the execution of retry n is still working (sleep) when the process stops; downtime 0 / D / 3D / 50 s; a
                 sibling branch keeps the run busy throughout, so the handler is never flagged idle and the next boot resumes it;
      pending    the process stops while the delay of retry n is running (the timer itself is the known loss; what the
                 reload makes of the journaled failures is still observed);
      waiting    retry n succeeds as far as a wait_for_event nobody answers; the run is released for idleness
                 (idle_timeout just above the retry delay) and reloaded by the awaited event D / 2D / 40 s later.
    Uninterrupted, each of these runs completes after n failures + 1 success of the step."""
    kind = rng.choice(["delay", "delay", "delay", "before_delay", "before_delay", "attempts"])  # (attempts: the same histories under a count-bounded policy)
    shape = rng.choice(["in_flight", "in_flight", "in_flight", "pending", "waiting", "waiting"])
    n = rng.choice([2, 2, 3])
    w = rng.choice([2, 3] if shape == "pending" else [1, 2, 3])
    D = n * w + rng.choice([1, 2, 4])  # failure k comes (k-1)*w after the first attempt: (n-1)*w (+ w) < D, every retry is granted
    pol = {"kind": kind, "d": D, "wait": w} if kind != "attempts" else {"kind": "attempts", "n": n + rng.choice([1, 2]), "wait": w}
    exc = rng.randint(1, 9)
    if shape == "waiting":
        worker = {"name": "s02", "accepts": [5], "nw": rng.randint(1, 2), "retry": pol,
                  "script": [["fail_until", n, exc], ["wait", 3, None, None, rng.choice([None, "w01"]), None], ["ret", "stop"]]}
        start = {"name": "s00", "accepts": [0], "nw": 1, "retry": None, "script": [["ret", "5"]]}
        steps = [start, worker]
        idle = w + rng.choice([1, 2])
        t_send = n * w + idle + rng.choice([D, 2 * D, 40])
        conf = {"idle_timeout": idle, "plan": [["until", t_send], ["send", 3, None, None], ["until", t_send + 20]]}
    else:
        L = rng.choice([10, 20, 40])
        worker = {"name": "s02", "accepts": [5], "nw": rng.randint(1, 2), "retry": pol,
                  "script": [["fail_until", n, exc], ["sleep", L], ["ret", "stop"]]}
        busy = rng.random() < 0.85
        start = {"name": "s00", "accepts": [0], "nw": 1, "retry": None,
                 "script": ([["send", 7, None, 1]] if busy else []) + [["ret", "5"]]}
        steps = [start, worker]
        if busy:
            steps.append({"name": "s06", "accepts": [7], "nw": 1, "retry": None, "script": [["sleep", 500], ["ret", "none"]]})
        t_cut = (n * w + rng.randint(1, L - 1)) if shape == "in_flight" else ((n - 1) * w + rng.randint(1, w - 1))
        down = rng.choice([0, D, 3 * D, 50])
        conf = {"idle_timeout": rng.choice([10 ** 6, 10 ** 6, 200]),
                "plan": [["until", t_cut], ["crash", down], ["until", t_cut + down + 2 * (n * w + L) + 10]]}
    rng.shuffle(steps)
    return shape, {"steps": steps, "externals": [], "timeout": None}, conf


def gen_conf(rng: random.Random, spec: dict, cut: bool) -> dict:
    if not cut:
        return {"idle_timeout": 10 ** 6, "crashes": 0, "horizon": 300}
    ds = _delays(spec) or [3]
    d = rng.choice(ds)
    idle = rng.choice([max(1, d - 1), d, d + 1, 1, 2 * d, 1000])
    return {"idle_timeout": int(idle), "crashes": rng.choice([0, 0, 1, 2]), "crash_pct": rng.choice([10, 25]), "horizon": 300}


# --------------------------------------------------------------------------


def _integral(spec: dict, conf: dict) -> bool:
    def ok(x: Any) -> bool:
        return x is None or float(x) == int(x)
    vals: list[Any] = [conf.get("idle_timeout"), spec.get("timeout")]
    for s in spec["steps"]:
        p = s.get("retry") or {}
        vals += [p.get("wait"), p.get("d")] + list(p.get("waits", []))
        for a in s["script"]:
            if a[0] == "wait":
                vals.append(a[3])
            if a[0] == "sleep":
                vals.append(a[1])
    for a in conf.get("plan") or []:
        if a[0] == "until":
            vals.append(a[1])
    return all(ok(v) for v in vals)


def _pending_shape(tr: Any, exps: list) -> tuple[int, str]:
    """(largest number of retry / waiter timers pending at once, how they were armed: "due_order" when every timer armed
    while others were pending was due after all of them, else "out_of_due_order")"""
    last = len(tr.trace.calls)
    iv = sorted(((e.created_idx, e.delivered_idx if e.delivered_idx is not None else (e.moot_idx if e.moot_idx is not None else last), e.due)
                 for e in exps), key=lambda x: x[0])
    peak, shape = 0, "due_order"
    for i, (c, _end, due) in enumerate(iv):
        pend = [x for x in iv[:i] if x[1] > c]
        peak = max(peak, len(pend) + 1)
        if any(x[2] > due for x in pend):
            shape = "out_of_due_order"
    return peak, shape


class _Batch:
    def __init__(self) -> None:
        self.ops: list[str] = []
        self.outs: list[str] = []
        self.owner: list[int] = []
        self.cases: list[dict] = []


def _one(out: Outcome, batch: _Batch, stream: str, fam: str, spec: dict, conf: dict, seed: int, actions: list[int] | None,
         expect_known: bool = False) -> None:
    from ..server import timers

    tr = timers.run_server(copy.deepcopy(spec), seed, conf, replay_actions=actions)
    case = {"server": {"spec": spec, "conf": conf, "seed": seed, "actions": tr.actions}}
    out.evaluations += 1
    out.count(f"{stream}:runs")
    out.count(f"{stream}:family:{fam}")
    out.count(f"{stream}:end:{tr.end}")
    out.count(f"{stream}:final:{tr.final.get('status')}")
    cs = timers.cuts(tr)
    exps, _sp = timers.expectations(tr)
    for c in cs:
        pend = [h for h in c["heap"] if h[1] in ("retry", "wtimeout")]
        out.count(f"{stream}:cut:{c['kind']}:{'timer_pending' if pend else 'no_timer'}")
    for e in exps:
        out.count(f"{stream}:timer:{e.kind}:" + ("delivered" if e.delivered_t is not None else ("moot" if e.moot else "undelivered")))
    out.count(f"{stream}:reloads", max(0, len(tr.inits) - 1))
    peak, shape = _pending_shape(tr, exps)
    out.count(f"{stream}:peak_pending_timers:{min(peak, 5)}{'+' if peak >= 5 else ''}")
    if peak >= 3:
        out.count(f"{stream}:three_or_more_pending:{shape}")
    if exps or cs:
        out.nontrivial((json.dumps(spec, sort_keys=True), json.dumps(conf, sort_keys=True), tuple(tr.actions)))
    vs = timers.mon_timers(tr, case) + timers.mon_granted_retries(tr, case)
    for (lo, hi) in timers.reloads(tr):
        fs = timers._failure_decisions(tr.trace.calls, lo, hi, "replay_ticks_stream")
        tb = [f for f in fs if any(st["name"] == f[1] and (st.get("retry") or {}).get("kind") in ("delay", "before_delay") for st in spec["steps"])]
        out.count(f"{stream}:reload:replayed_failures:{min(len(fs), 3)}{'+' if len(fs) >= 3 else ''}")
        if tb:
            out.count(f"{stream}:reload:time_bounded_policy:replayed_failures:{min(len(tb), 3)}{'+' if len(tb) >= 3 else ''}")
    if tr.end == "runaway":
        vs.append(Violation("C14/control_loop_spins", "the event loop never became quiescent: the control loop spins at one instant of virtual time "
                            f"(t={tr.final.get('t')}); timers expected: {[(e.kind, e.step, e.due) for e in exps if e.delivered_t is None]}", case))
    out.violations += vs
    # a run that never finishes is legitimately released once the (huge) idle_timeout has really elapsed on the
    # virtual clock (the loop jumps there when nothing else is scheduled): only an earlier cut is unexpected
    early = [c for c in cs if not (c["kind"] == "idle_release" and c["t"] >= 1000.0 + float(conf.get("idle_timeout") or 0))]
    if stream == "norelease" and early:
        out.violations.append(Violation("C14/unexpected_release", f"the run left memory although idle_timeout is {conf.get('idle_timeout')} and no process stop was scheduled: {[(c['kind'], c['t']) for c in cs]}", case))
    if len(out.samples) < 5 and (vs or (cs and exps)):
        out.sample({"stream": stream, "spec": spec, "conf": conf, "end": tr.end, "final": {k: v for k, v in tr.final.items() if k != "persisted"},
                    "cuts": [(c["kind"], c["t"], [h[:5] for h in c["heap"]]) for c in cs],
                    "timers": [(e.kind, e.step, e.ident, e.due, e.delivered_t, e.moot) for e in exps],
                    "signatures": sorted({v.signature for v in vs})})
    if _integral(spec, conf):
        try:
            ops, outs = timers.model_lines(tr)
        except Exception as ex:  # an unencodable trace must not pass silently
            out.divergences.append(Divergence("timers", 0, "<encode>", "", f"{type(ex).__name__}: {ex}", case))
            return
        batch.ops += ops
        batch.outs += outs
        batch.owner += [len(batch.cases)] * len(ops)
        batch.cases.append(case)


def _flush(out: Outcome, batch: _Batch) -> None:
    from ..server import timers

    if not batch.ops:
        return
    try:
        mo = Driver("timers").run(batch.ops)
    except Exception as ex:
        out.divergences.append(Divergence("timers", 0, "<driver>", repr(ex), ""))
        return
    mo = [timers.norm_rshow(l) if o == "rshow" else l for o, l in zip(batch.ops, mo)] + mo[len(batch.ops):]
    out.traces_validated += len(batch.cases)
    out.disagreements_checked += len(batch.ops)
    d = diff_streams("timers", batch.ops, mo, batch.outs)
    if d is not None:
        d.context = batch.cases[batch.owner[d.index]] if d.index < len(batch.owner) else None
        d.op, d.model_out, d.impl_out = d.op[:1500], d.model_out[:3000], d.impl_out[:3000]
        out.divergences.append(d)


def _malformed(out: Outcome) -> None:
    ops = ["sstart x", "rstep 5", "send 3 P 0", "release", "release x", "restart", "resume 4", "frobnicate", "send 1 P 0 TI x",
           "cfg C 1 0 1 0 1 0 0 0", "sstart 10 E 0 s 1 _ _ _ 5", "release 3", "send 12 P 0 TW 0 1", "hstate"]
    exp = ["bad-op"] * 9 + ["ok", "status=running idle=_ live=1 loads=1 err=_", "bad-op", "ok",
                             "status=running idle=_ live=1 loads=1 err=not-external"]
    try:
        mo = Driver("timers").run(ops)
    except Exception as ex:
        out.divergences.append(Divergence("timers-malformed", 0, "<driver>", repr(ex), ""))
        return
    out.disagreements_checked += len(ops)
    d = diff_streams("timers-malformed", ops, mo, exp)
    if d is not None:
        out.divergences.append(d)


def run(env: Env) -> Outcome:
    out = Outcome()
    out.rule = ("witnesses (F13 numbers and integral variants) + generated retry / wait_for_event / fan-out workflows on the real server stack; "
                "stream 'norelease': idle_timeout 1e6, no process stop (monitors must be silent); stream 'cut': idle_timeout = a pending delay -1/0/+1, 1, 2x or 1000, "
                "0-2 process stops at random quiescent points, service sends; stream 'multi': 3-5 timers (wait_for_event timeouts / retry delays from 2..27 s, "
                "25% with a tie, 35% with a workflow timeout) pending at once, armed in random order, idle_timeout = largest gap between consecutive due times +1/+2/+0, "
                "1e6, a delay -1/+1 or 1, one process stop in 20% of the runs; stream 'budget': retry policies bounded by elapsed time (stop_after_delay / stop_before_delay D, "
                "wait_fixed 1..3 s), 2-3 failures all granted inside D, then the run leaves memory for 0 / D / 2D / 3D / 40 / 50 s -- process stop with retry n in flight (50%) or "
                "its delay running (17%), idle release while retry n waits for an event (33%) -- and is reloaded; non-trivial = a run with at least one expected timer or one cut; "
                "distinct by (spec, conf, schedule)")
    rng = random.Random(env.rng.randrange(1 << 30))
    batch = _Batch()
    if env.replay is not None:
        case = env.replay.get("payload", {}).get("case")
        if isinstance(case, dict) and "server" in case:
            c = case["server"]
            _one(out, batch, "replay", "replay", c["spec"], c["conf"], c["seed"], c.get("actions"))
    for item in suite.load_corpus("C14"):
        if "server" in item:
            c = item["server"]
            _one(out, batch, "corpus", item.get("family", "witness"), c["spec"], c["conf"], c["seed"], c.get("actions"))
    _malformed(out)
    for _ in range(env.budget(260, 6000)):
        fam, spec = gen_timer_spec(rng)
        _one(out, batch, "norelease", fam, spec, gen_conf(rng, spec, cut=False), rng.randrange(1 << 30), None)
    for _ in range(env.budget(420, 10000)):
        fam, spec = gen_timer_spec(rng)
        _one(out, batch, "cut", fam, spec, gen_conf(rng, spec, cut=True), rng.randrange(1 << 30), None)
        if len(batch.ops) > 60000:
            _flush(out, batch)
            batch = _Batch()
    for _ in range(env.budget(100, 2500)):
        spec = gen_multi_timer_spec(rng)
        _one(out, batch, "multi", "multi", spec, gen_multi_conf(rng, spec), rng.randrange(1 << 30), None)
        if len(batch.ops) > 60000:
            _flush(out, batch)
            batch = _Batch()
    for _ in range(env.budget(60, 1500)):
        shape, spec, conf = gen_budget_case(rng)
        _one(out, batch, "budget", shape, spec, conf, rng.randrange(1 << 30), None)
        if len(batch.ops) > 60000:
            _flush(out, batch)
            batch = _Batch()
    _flush(out, batch)
    return out
