import WfModel.Context
/-!
C09 — histories of a collecting step with ANY number of invocations in flight (one buffer).

An invocation (`C09Flight`) is admitted with a snapshot of the live buffer (`_add_or_enqueue_event`:
`shared_state = StepWorkerState(collected_events = copy of the live buffers)`); when it finishes, its
`collect_events` call is evaluated against that snapshot and the reducer (`_process_step_result_tick`)
applies the results to the LIVE buffer:

* complete → `[DeleteCollectedEvent, StepWorkerResult]`: the live buffer is popped (whatever it holds now);
* pending + `AddCollectedEvent` → appended if the live buffer is not longer than the snapshot, otherwise the
  invocation stays in its slot and is re-run against a copy of the live buffer;
* pending, no result → the event is surplus for this snapshot.

`start` is the moment of admission (for a queued event: when the queue drains into a free slot), so the
histories cover every `num_workers`; with `start e` always directly followed by `finish e` they are the
single-flight histories of `collectRound` (`C09_conc_single_flight_refines`).
-/
namespace Engine

structure C09Flight where
  ev : Ev
  snap : List Ev
deriving Repr, DecidableEq

/-- `returned`: (the event the invocation was called with, the list its `collect_events` returned) -/
structure C09Conc where
  buffer : List Ev := []
  flights : List C09Flight := []
  returned : List (Ev × List Ev) := []
  dropped : List Ev := []
deriving Repr, DecidableEq

inductive C09Act
  | start (ev : Ev)
  | finish (ev : Ev)
deriving Repr, DecidableEq

def C09Act.started : C09Act → Option Ev
  | .start e => some e
  | .finish _ => none

def c09Finish (expected : List Nat) (h : C09Conc) (f : C09Flight) : C09Conc :=
  let rest := h.flights.eraseP (fun g => g.ev == f.ev)
  match collectEvents expected 0 f.snap f.ev with
  | .complete evs => { h with buffer := [], flights := rest, returned := h.returned ++ [(f.ev, evs)] }
  | .pending (some _) =>
    if h.buffer.length > f.snap.length then
      { h with flights := modifyFirst (fun g => g.ev == f.ev) (fun g => { g with snap := h.buffer }) h.flights }
    else { h with buffer := h.buffer ++ [f.ev], flights := rest }
  | .pending none => { h with flights := rest, dropped := h.dropped ++ [f.ev] }
  | .empty => { h with flights := rest }

def c09ConcStep (expected : List Nat) (h : C09Conc) : C09Act → C09Conc
  | .start ev => { h with flights := h.flights ++ [{ ev := ev, snap := h.buffer }] }
  | .finish ev =>
    match h.flights.find? (fun g => g.ev == ev) with
    | some f => c09Finish expected h f
    | none => h

def c09ConcRun (expected : List Nat) (acts : List C09Act) : C09Conc :=
  acts.foldl (c09ConcStep expected) {}

/-- the single-flight schedule of an arrival sequence -/
def c09SingleFlight : List Ev → List C09Act
  | [] => []
  | e :: es => .start e :: .finish e :: c09SingleFlight es

end Engine
