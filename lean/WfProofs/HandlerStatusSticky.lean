import WfProofs.HandlerStatus
/-! Every write the stack can issue for a row that already holds a terminal status keeps it terminal. -/
set_option linter.unusedVariables false
set_option linter.unusedSimpArgs false
namespace HandlerStatus

/-- What the in-process stack can still do to the handler row once run `cur` has stored a terminal status
(everything except starting a *new* run on the handler id, which replaces the row by design):

* `event`: any adapter of any run (late step writes, duplicate or second terminal events, old runs of the
  same handler id, replaying or not) takes any event — except a `WorkflowIdleEvent` of run `cur` itself,
  which the control loop cannot publish after the terminal event (C04);
* `idleClear`: `update_handler_status(run, idle_since=None)` from `send_event` / a reload;
* `restart`: `_on_server_start` after any crash, with any replay result and store fault;
* `cancel`: `cancel_handler`, with or without purge;
* `statusUpdate`: a late `_handle_status_update` with a terminal status (all it is ever called with);
* `arm`: the store starts failing. -/
inductive LateOp
  | event (run : Nat) (e : Ev) (replaying : Bool)
  | idleClear (run : Nat)
  | restart (rp : Replay) (active : Bool) (fault : Nat)
  | cancel (purge : Bool)
  | statusUpdate (run : Nat) (st : Status) (result : Option Nat) (error : Option Err)
  | arm (uhs app upd : Nat)

def LateOp.allowed (cur : Nat) : LateOp → Prop
  | .event run e _ => e.kind = .idle → run ≠ cur
  | .statusUpdate _ st _ _ => st.isTerminal = true
  | _ => True

def St.late (s : St) : LateOp → St
  | .event run e rp => (s.writeEvent run e rp).1
  | .idleClear run => (s.idleClear run).1
  | .restart rp a f => (s.restart rp a f).1
  | .cancel p => (s.cancel p).1
  | .statusUpdate run st res err =>
    (retry (fun x => x.uhs run { status := some st, result := res, error := err }) s.backoff s).1
  | .arm u a d => { s with failUhs := u, failApp := a, failUpd := d }

/-- the row is gone (purged) or still belongs to `cur` with a terminal status -/
def Settled (cur : Nat) (s : St) : Prop :=
  s.row = none ∨ ∃ r, s.row = some r ∧ r.runId = cur ∧ r.status.isTerminal = true

theorem settled_of_row {cur : Nat} {s s' : St} (h : s'.row = s.row) (hs : Settled cur s) : Settled cur s' := by
  unfold Settled; rw [h]; exact hs

theorem settled_step {cur run : Nat} {a : UArgs} {s s' : St} (h : UhsStep run a s s')
    (ha : run ≠ cur ∨ a.status = none ∨ ∃ st, a.status = some st ∧ st.isTerminal = true)
    (hs : Settled cur s) : Settled cur s' := by
  rcases h.row with hrow | ⟨now, hrow⟩
  · exact settled_of_row hrow hs
  · rcases hs with hn | ⟨r, hr, hrun, hterm⟩
    · left; rw [hrow, hn]; rfl
    · right
      rw [hrow, hr]
      by_cases hq : r.runId = run
      · refine ⟨r.apply a now, by simp [hq], by simpa [Rec.apply] using hrun, ?_⟩
        rcases ha with hne | hnone | ⟨st, hst, hstt⟩
        · exact absurd (hq.symm.trans hrun) hne
        · simpa [Rec.apply, hnone] using hterm
        · simpa [Rec.apply, hst] using hstt
      · exact ⟨r, by simp [hq], hrun, hterm⟩

theorem andThen_preserves (P : St → Prop) (r : St × Bool) (f : St → St × Bool) (h1 : P r.1)
    (h2 : ∀ x, P x → P (f x).1) : P (andThen r f).1 := by
  unfold andThen
  split
  · exact h2 _ h1
  · exact h1

theorem settled_statusWrite (cur run : Nat) (e : Ev) (s : St) (hs : Settled cur s) :
    Settled cur (s.statusWrite run e).1 := by
  unfold St.statusWrite
  split
  · rename_i st err res hargs
    exact settled_step (retry_uhs_step run _ s.backoff s)
      (Or.inr (Or.inr ⟨st, rfl, statusArgs_terminal e st err res hargs⟩)) hs
  · exact hs

theorem settled_append (cur run : Nat) (e : Ev) (s : St) (hs : Settled cur s) : Settled cur (s.append run e).1 := by
  unfold St.append
  split <;> exact settled_of_row rfl hs

theorem settled_forward (cur run : Nat) (e : Ev) (s : St) (hal : e.kind = .idle → run ≠ cur) (hs : Settled cur s) :
    Settled cur (s.forward run e).1 := by
  unfold St.forward
  split
  · rename_i hc
    have hidle : e.kind = .idle := (isIdle_iff e.kind).mp (by simp only [Bool.and_eq_true] at hc; exact hc.2)
    apply andThen_preserves (Settled cur)
    · exact settled_step (uhs_step s run _) (Or.inl (hal hidle)) hs
    · intro x hx; exact settled_of_row rfl hx
  · exact settled_of_row rfl hs

theorem settled_late (cur : Nat) (s : St) (op : LateOp) (hal : op.allowed cur) (hs : Settled cur s) :
    Settled cur (s.late op) := by
  cases op with
  | event run e rp =>
    simp only [St.late, St.writeEvent]
    apply andThen_preserves (Settled cur)
    · split
      · exact hs
      · apply andThen_preserves (Settled cur)
        · exact settled_statusWrite cur run e s hs
        · intro x hx; exact settled_append cur run e x hx
    · intro x hx; exact settled_forward cur run e x hal hx
  | idleClear run =>
    exact settled_step (uhs_step s run _) (Or.inr (Or.inl rfl)) hs
  | restart rp a f =>
    simp only [St.late, St.restart]
    rcases hs with hn | ⟨r, hr, hrun, hterm⟩
    · simp only [hn]; exact Or.inl hn
    · simp only [hr, terminal_not_resumed hterm, Bool.not_false, Bool.true_or, ↓reduceIte]
      exact Or.inr ⟨r, hr, hrun, hterm⟩
  | cancel p =>
    simp only [St.late, St.cancel]
    rcases hs with hn | ⟨r, hr, hrun, hterm⟩
    · simp only [hn]; exact Or.inl hn
    · simp only [hr, hterm]
      cases p
      · simp only [Bool.not_false, Bool.and_self, ↓reduceIte]
        exact Or.inr ⟨r, hr, hrun, hterm⟩
      · simp only [Bool.not_true, Bool.false_and, Bool.false_eq_true, ↓reduceIte]
        exact Or.inl rfl
  | statusUpdate run st res err =>
    exact settled_step (retry_uhs_step run _ s.backoff s) (Or.inr (Or.inr ⟨st, rfl, hal⟩)) hs
  | arm u a d => exact settled_of_row rfl hs

theorem settled_lates (cur : Nat) : ∀ (ops : List LateOp) (s : St), (∀ op ∈ ops, op.allowed cur) → Settled cur s →
    Settled cur (ops.foldl St.late s)
  | [], s, _, hs => hs
  | op :: ops, s, hal, hs => by
    simp only [List.foldl_cons]
    exact settled_lates cur ops _ (fun x hx => hal x (by simp [hx])) (settled_late cur s op (hal op (by simp)) hs)

end HandlerStatus
