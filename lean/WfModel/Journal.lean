/-!
# M17 — the DBOS task journal: record / replay of task completion order

Model of `llama_agents/dbos/journal/{crud,task_journal}.py` and of the journal-directed
`InternalDBOSAdapter.wait_for_next_task` (`llama_agents/dbos/runtime.py`), *as the code is*.

Part A (concrete, run by the driver against the real classes):
* `Db`      — the `workflow_journal` table (autoincrement `id`, `run_id`, `seq_num`, `task_key`; no
              uniqueness constraint) and the `operation_outputs` index (`function_id`, `function_name`)
              with the five CRUD statements of `SqliteJournalCrud`;
* `TJ`      — `TaskJournal` (`_entries : list | None`, `_replay_index`);
* `waitNext`— the decision structure of `wait_for_next_task`: load, `next_expected_key`, purge at the
              replay→fresh transition, replay branch (find the task by key, wait for exactly it,
              `advance`), fallback when the key is not among the tasks, fresh branch (first completed,
              `record` = in-memory append + INSERT, *then* return).

Part B (abstract, used by the theorems): a deterministic control loop `Loop` as a black box
`step : σ → Option (Task × ν) → σ × spawned tasks × outputs`, a fresh process as a labelled
transition system over `World` (control configuration + durable journal / memo / mailbox), and
recovery as the *function* `replay`.
-/
namespace Journal

/-! ## Part A — table, CRUD, TaskJournal -/

structure Row (κ : Type) where
  id : Nat
  run : String
  seq : Nat
  key : κ
deriving Repr, DecidableEq

structure Op where
  run : String
  fid : Nat
  name : String
deriving Repr, DecidableEq

structure Db (κ : Type) where
  rows : List (Row κ) := []      -- in insertion (= id) order
  nextId : Nat := 1
  ops : List Op := []
deriving Repr

variable {κ : Type}

/-- `INSERT INTO workflow_journal (run_id, seq_num, task_key) VALUES (?, ?, ?)` -/
def Db.insert (db : Db κ) (run : String) (seq : Nat) (key : κ) : Db κ :=
  { db with rows := db.rows ++ [⟨db.nextId, run, seq, key⟩], nextId := db.nextId + 1 }

/-- stable insertion by `seq_num` (`ORDER BY seq_num ASC`; ties keep id order, as SQLite does
for a rowid table scanned in rowid order) -/
def insertBySeq (r : Row κ) : List (Row κ) → List (Row κ)
  | [] => [r]
  | x :: xs => if r.seq < x.seq then r :: x :: xs else x :: insertBySeq r xs

def sortBySeq (rs : List (Row κ)) : List (Row κ) :=
  rs.foldl (fun acc r => insertBySeq r acc) []

/-- `SELECT task_key FROM workflow_journal WHERE run_id = ? ORDER BY seq_num ASC` -/
def Db.load (db : Db κ) (run : String) : List κ :=
  (sortBySeq (db.rows.filter (·.run == run))).map (·.key)

/-- `DELETE FROM workflow_journal WHERE run_id = ?` -/
def Db.delete (db : Db κ) (run : String) : Db κ :=
  { db with rows := db.rows.filter (fun r => !(r.run == run)) }

/-- `DELETE FROM workflow_journal WHERE run_id = ? AND seq_num >= ?` -/
def Db.truncateFrom (db : Db κ) (run : String) (seq : Nat) : Db κ :=
  { db with rows := db.rows.filter (fun r => !(r.run == run && seq ≤ r.seq)) }

/-- `DELETE FROM operation_outputs WHERE workflow_uuid = ? AND function_id > ?` -/
def Db.purgeOpsFrom (db : Db κ) (run : String) (fid : Nat) : Db κ :=
  { db with ops := db.ops.filter (fun o => !(o.run == run && fid < o.fid)) }

/-- `TaskJournal` : `_entries` (`none` = not loaded yet) and `_replay_index` -/
structure TJ (κ : Type) where
  entries : Option (List κ) := none
  idx : Nat := 0
deriving Repr

/-- `load()` : idempotent, reads the table once -/
def TJ.load (j : TJ κ) (db : Db κ) (run : String) : TJ κ :=
  match j.entries with
  | some _ => j
  | none => { j with entries := some (db.load run) }

def TJ.isReplaying (j : TJ κ) : Bool :=
  match j.entries with
  | none => false
  | some es => j.idx < es.length

def TJ.nextExpected (j : TJ κ) : Option κ :=
  match j.entries with
  | none => none
  | some es => if j.idx < es.length then es[j.idx]? else none

/-- `record(key)` : `seq_num = len(entries)`; in-memory append, `_replay_index += 1`, then INSERT -/
def TJ.record (j : TJ κ) (db : Db κ) (run : String) (key : κ) : TJ κ × Db κ :=
  let es := j.entries.getD []
  ({ entries := some (es ++ [key]), idx := j.idx + 1 }, db.insert run es.length key)

def TJ.advance (j : TJ κ) : TJ κ := { j with idx := j.idx + 1 }

def TJ.hasEntries (j : TJ κ) : Bool :=
  match j.entries with
  | none => false
  | some es => !es.isEmpty

/-- `purge_stale(current_fid)` : `purge_operations_from` then `truncate_from(len(entries))` -/
def TJ.purgeStale (j : TJ κ) (db : Db κ) (run : String) (fid : Nat) : Db κ :=
  match j.entries with
  | none => db
  | some es => if es.isEmpty then db else (db.purgeOpsFrom run fid).truncateFrom run es.length

/-! ### `wait_for_next_task` -/

/-- the adapter's journal-related state -/
structure Adapter (κ : Type) where
  tj : TJ κ := {}
  purgeDone : Bool := false
deriving Repr

/-- `InternalDBOSAdapter.is_replaying()` with a database configured: the journal cursor and nothing else
(`_get_or_create_journal().is_replaying()`; before the first `wait_for_next_task` the journal is not
loaded, hence `false`).  The orphan-purge flag plays no part. -/
def Adapter.isReplaying (a : Adapter κ) : Bool := a.tj.isReplaying

/-- `_ServerInternalRunAdapter.write_to_event_stream`: the events the control loop publishes for a tick
are appended to the workflow store (and the handler status updated) iff the adapter is not replaying;
they are forwarded to the inner adapter in either case. -/
def Adapter.persist {ε : Type} (a : Adapter κ) (store evs : List ε) : List ε :=
  if a.isReplaying then store else store ++ evs

inductive WaitOut (κ : Type) where
  | replayed (k : κ)           -- replay branch: the recorded task, `advance()`
  | replayTimeout (k : κ)      -- replay branch: the recorded task did not finish within the timeout
  | blocked (k : κ)            -- replay branch, no timeout, recorded task never finishes (cannot return)
  | fresh (k : κ) (seq : Nat)  -- fresh branch: first completed task, recorded under `seq`, then returned
  | timeout                    -- fresh branch: nothing completed within the timeout
  | blockedFresh               -- fresh branch, no timeout, nothing completes
  | nothing                    -- no tasks at all: `WaitForNextTaskResult(None, started)`
  | badChoice                  -- the harness named a completed task that is not in the done set
deriving Repr, DecidableEq

structure WaitRes (κ : Type) where
  out : WaitOut κ
  fallback : Bool     -- "Non-deterministic execution detected": expected key not among the tasks
  purged : Bool       -- the orphan purge ran (and had entries) in this call
deriving Repr

/-- One call.  `inflight` = keys of `running + started`; `done` = keys of the tasks that finish while
the call waits (in finishing order); `timedOut` = the timeout elapses before anything (else) finishes;
`choice` = which done task `asyncio.wait`/`set.pop` hands to the fresh branch (environment's choice,
irrelevant in the replay branch); `fid` = `ctx.function_id` at entry. -/
def waitNext [DecidableEq κ] (a : Adapter κ) (db : Db κ) (run : String) (fid : Nat)
    (inflight done : List κ) (timedOut : Bool) (choice : Option κ) : Adapter κ × Db κ × WaitRes κ :=
  let tj := a.tj.load db run
  let expected := tj.nextExpected
  -- orphan purge at the replay→fresh transition (once)
  let doPurge := expected.isNone && !a.purgeDone
  let db1 := if doPurge then tj.purgeStale db run fid else db
  let purged := doPurge && tj.hasEntries
  let a1 : Adapter κ := { tj := tj, purgeDone := a.purgeDone || doPurge }
  if inflight.isEmpty then (a1, db1, ⟨.nothing, false, purged⟩) else
  let freshBranch (fallback : Bool) : Adapter κ × Db κ × WaitRes κ :=
    match choice with
    | some k =>
      if done.contains k && inflight.contains k then
        let (tj', db') := a1.tj.record db1 run k
        ({ a1 with tj := tj' }, db', ⟨.fresh k ((a1.tj.entries.getD []).length), fallback, purged⟩)
      else (a1, db1, ⟨.badChoice, fallback, purged⟩)
    | none =>
      if timedOut then (a1, db1, ⟨.timeout, fallback, purged⟩)
      else (a1, db1, ⟨.blockedFresh, fallback, purged⟩)
  match expected with
  | some k =>
    if inflight.contains k then
      if done.contains k then ({ a1 with tj := a1.tj.advance }, db1, ⟨.replayed k, false, purged⟩)
      else if timedOut then (a1, db1, ⟨.replayTimeout k, false, purged⟩)
      else (a1, db1, ⟨.blocked k, false, purged⟩)
    else freshBranch true
  | none => freshBranch false

/-- Replay of a recorded journal by a recovering process, one `wait_for_next_task` call per entry (the
recorded task is in flight and finishes): the value of `is_replaying()` while the control loop processes
the tick of each replayed completion, i.e. right after the call that returned it. -/
def replayFlags [DecidableEq κ] (a : Adapter κ) (db : Db κ) (run : String) : List κ → List Bool
  | [] => []
  | k :: ks =>
    let r := waitNext a db run 0 [k] [k] false none
    r.1.isReplaying :: replayFlags r.1 r.2.1 run ks

/-! ### whole histories of calls: one process life, several lives (used by the history theorems of C27
and by the driver op `c27xhist`) -/

/-- the environment's part of one `wait_for_next_task` call -/
structure WaitIn (κ : Type) where
  fid : Nat := 0
  inflight : List κ := []
  done : List κ := []
  timedOut : Bool := false
  choice : Option κ := none
deriving Repr

/-- the completion a call hands to the control loop, if any -/
def WaitOut.returned : WaitOut κ → Option κ
  | .replayed k => some k
  | .fresh k _ => some k
  | _ => none

/-- the completion a call INSERTed, if any -/
def WaitOut.freshKey : WaitOut κ → Option κ
  | .fresh k _ => some k
  | _ => none

def returnedKeys (rs : List (WaitRes κ)) : List κ := rs.filterMap (·.out.returned)
def freshKeys (rs : List (WaitRes κ)) : List κ := rs.filterMap (·.out.freshKey)

section
variable [DecidableEq κ]

/-- one process life: consecutive calls of one adapter -/
def runCalls (run : String) : Adapter κ → Db κ → List (WaitIn κ) → Adapter κ × Db κ × List (WaitRes κ)
  | a, db, [] => (a, db, [])
  | a, db, i :: is =>
    let r := waitNext a db run i.fid i.inflight i.done i.timedOut i.choice
    let r' := runCalls run r.1 r.2.1 is
    (r'.1, r'.2.1, r.2.2 :: r'.2.2)

/-- several lives of the same run: each starts with a fresh adapter on the surviving table -/
def runLives (run : String) : Db κ → List (List (WaitIn κ)) → Db κ × List (WaitRes κ)
  | db, [] => (db, [])
  | db, l :: ls =>
    let r := runCalls run {} db l
    let r' := runLives run r.2.1 ls
    (r'.1, r.2.2 ++ r'.2)

end

/-! ## Part B — abstract control loop, fresh process, recovery -/

/-- A started task.  `fid` (the DBOS function id of its first operation) is its identity: step
outputs and received messages are memoised under it.  `key` is what the journal stores. -/
structure Task (κ : Type) where
  key : κ
  fid : Nat
  pull : Bool        -- the `__pull__:n` task (a `DBOS.recv`) rather than a step worker
deriving Repr, DecidableEq

/-- The control loop + reducer as a black box: a *function* of the observed event.
`some (t, v)` = task `t` completed with value `v`; `none` = the wait timed out (a scheduled wakeup
is due).  It returns the new state, the tasks to start (key, pull?) and the outputs (ticks
processed / events published). -/
structure Loop (σ κ ν ο : Type) where
  init : σ
  initTasks : List (κ × Bool)
  step : σ → Option (Task κ × ν) → σ × List (κ × Bool) × List ο
  armed : σ → Bool   -- the wait has a finite timeout (`scheduled_wakeups` non-empty)

/-- control configuration of a process -/
structure Cfg (σ κ : Type) where
  s : σ
  fl : List (Task κ)   -- in flight
  fidc : Nat           -- function-id counter
  base : Nat           -- counter value before the most recent spawn (`ctx.function_id` at wait entry)
deriving Repr

def spawn (fidc : Nat) : List (κ × Bool) → List (Task κ)
  | [] => []
  | (k, p) :: rest => ⟨k, fidc + 1, p⟩ :: spawn (fidc + 1) rest

variable {σ ν ο : Type}

def Loop.cfg0 (L : Loop σ κ ν ο) : Cfg σ κ :=
  { s := L.init, fl := spawn 0 L.initTasks, fidc := L.initTasks.length, base := 0 }

/-- act on one observed event: reduce, drop the completed task, start the new ones -/
def Loop.act [DecidableEq κ] (L : Loop σ κ ν ο) (c : Cfg σ κ) (ev : Option (Task κ × ν)) : Cfg σ κ × List ο :=
  let r := L.step c.s ev
  let fl := match ev with
    | some (t, _) => c.fl.erase t
    | none => c.fl
  ({ s := r.1, fl := fl ++ spawn c.fidc r.2.1, fidc := c.fidc + r.2.1.length, base := c.fidc }, r.2.2)

inductive ReplayErr (κ : Type) where
  | keyNotInFlight (k : κ)   -- "Non-deterministic execution detected during replay"
  | notMemoised (fid : Nat)  -- the recorded task has no recorded output: it would run again
deriving Repr, DecidableEq

/-- Recovery, replay phase: while journal entries remain, wait for exactly the recorded task (found
by key among the in-flight tasks; its value comes from the memo) and act on it.  Returns the
configuration, the outputs, and the tasks observed, in order. -/
def Loop.replay [DecidableEq κ] (L : Loop σ κ ν ο) (memo : Nat → Option ν) :
    Cfg σ κ → List κ → Except (ReplayErr κ) (Cfg σ κ × List ο × List (Task κ))
  | c, [] => .ok (c, [], [])
  | c, k :: ks =>
    match c.fl.find? (fun t => t.key == k) with
    | none => .error (.keyNotInFlight k)
    | some t =>
      match memo t.fid with
      | none => .error (.notMemoised t.fid)
      | some v =>
        let r := L.act c (some (t, v))
        match L.replay memo r.1 ks with
        | .error e => .error e
        | .ok (c', os, ts) => .ok (c', r.2 ++ os, t :: ts)

/-- A process and the durable state it shares with its successors. -/
structure World (σ κ ν ο : Type) where
  c : Cfg σ κ
  jr : List κ                 -- durable: the journal (keys in `seq_num` order)
  memo : Nat → Option ν       -- durable: recorded outputs, by function id
  mbox : List ν               -- durable: messages sent to the run and not yet received
  pend : Option (Task κ)      -- recorded in the journal, not yet returned to the control loop
  hist : List (Option (Task κ × ν))  -- ghost: events acted upon, in order
  outs : List ο               -- ghost: outputs so far

def Loop.world0 (L : Loop σ κ ν ο) : World σ κ ν ο :=
  { c := L.cfg0, jr := [], memo := fun _ => none, mbox := [], pend := none, hist := [], outs := [] }

def setMemo (memo : Nat → Option ν) (fid : Nat) (v : ν) : Nat → Option ν :=
  fun f => if f = fid then some v else memo f

/-- Atomic actions of a running process and its environment. -/
inductive Step [DecidableEq κ] (L : Loop σ κ ν ο) : World σ κ ν ο → World σ κ ν ο → Prop
  /-- a step worker finishes: DBOS records its output (any value: step bodies are arbitrary) -/
  | finish (w : World σ κ ν ο) (t : Task κ) (v : ν) :
      t ∈ w.c.fl → t.pull = false → w.memo t.fid = none →
      Step L w { w with memo := setMemo w.memo t.fid v }
  /-- the pull task's `recv`: consume the oldest message and record it, atomically -/
  | recv (w : World σ κ ν ο) (t : Task κ) (m : ν) (rest : List ν) :
      t ∈ w.c.fl → t.pull = true → w.memo t.fid = none → w.mbox = m :: rest →
      Step L w { w with memo := setMemo w.memo t.fid m, mbox := rest }
  /-- somebody (a step body, a client) sends a tick to the run -/
  | send (w : World σ κ ν ο) (m : ν) :
      Step L w { w with mbox := w.mbox ++ [m] }
  /-- fresh branch of `wait_for_next_task`: a finished task is picked and its key is INSERTed -/
  | record (w : World σ κ ν ο) (t : Task κ) (v : ν) :
      w.pend = none → t ∈ w.c.fl → w.memo t.fid = some v →
      Step L w { w with jr := w.jr ++ [t.key], pend := some t }
  /-- ... then the call returns and the control loop acts on the completion -/
  | actOn (w : World σ κ ν ο) (t : Task κ) (v : ν) :
      w.pend = some t → w.memo t.fid = some v →
      Step L w { w with c := (L.act w.c (some (t, v))).1, pend := none,
                        hist := w.hist ++ [some (t, v)], outs := w.outs ++ (L.act w.c (some (t, v))).2 }
  /-- the wait times out: due scheduled ticks are processed.  Nothing is written to the journal. -/
  | timeout (w : World σ κ ν ο) :
      w.pend = none → L.armed w.c.s = true →
      Step L w { w with c := (L.act w.c none).1, hist := w.hist ++ [none],
                        outs := w.outs ++ (L.act w.c none).2 }

/-- worlds a fresh (never crashed) process can be in -/
inductive Reach [DecidableEq κ] (L : Loop σ κ ν ο) : World σ κ ν ο → Prop
  | init : Reach L L.world0
  | step {w w' : World σ κ ν ο} : Reach L w → Step L w w' → Reach L w'

/-- keys of the completions acted upon -/
def actedKeys : List (Option (Task κ × ν)) → List κ
  | [] => []
  | some (t, _) :: r => t.key :: actedKeys r
  | none :: r => actedKeys r

def actedTasks : List (Option (Task κ × ν)) → List (Task κ)
  | [] => []
  | some (t, _) :: r => t :: actedTasks r
  | none :: r => actedTasks r

/-- no timeout was acted upon -/
def noTimeout : List (Option (Task κ × ν)) → Bool
  | [] => true
  | some _ :: r => noTimeout r
  | none :: _ => false

/-- The orphan purge at the replay→fresh transition: recorded outputs with a function id beyond the
counter value at the entry of the first fresh wait are deleted — unless the journal is empty. -/
def purgeMemo (memo : Nat → Option ν) (jr : List κ) (base : Nat) : Nat → Option ν :=
  if jr.isEmpty then memo else fun f => if base < f then none else memo f

/-- The process that recovery produces from the durable state `(jr, memo, mbox)`: replay, then purge. -/
def Loop.recover [DecidableEq κ] (L : Loop σ κ ν ο) (jr : List κ) (memo : Nat → Option ν) (mbox : List ν) :
    Except (ReplayErr κ) (World σ κ ν ο) :=
  match L.replay memo L.cfg0 jr with
  | .error e => .error e
  | .ok (c, os, ts) =>
    .ok { c := c, jr := jr, memo := purgeMemo memo jr c.base, mbox := mbox, pend := none,
          hist := ts.map (fun t => (memo t.fid).map (fun v => (t, v))), outs := os }

end Journal
