import WfModel.Engine
/-!
M1 (serialisation) — `BrokerState.to_serialized` / `BrokerState.from_serialized`
(`runtime/types/internal_state.py`) over the abstract state: what survives `ctx.to_dict()`
→ JSON → `Context.from_dict`.

* queue entries keep event, attempts (`attempts or 0`), first attempt time, last exception,
  last failure time and recovery counts;
* in-progress invocations are written as **bare events** and come back appended to the queue
  with `attempts = 0`, no first-attempt time, no exception, empty recovery counts;
* collected buffers are kept;
* waiters keep id, replay event, awaited type and resolved event; `requirements` are not
  serialisable: they come back empty with `has_requirements` remembering that there were some;
  `timed_out` is kept (added by a repair in this tree), and so is the attempt record of the
  suspended invocation (attempts, first attempt time, last exception, last failure time, recovery
  counts; added by the repair of the C08 wait-replay finding).
Event payloads and exceptions are abstract ids here; their own round trip is property C18.
-/
namespace Engine

structure SerWaiter where
  wid : Nat
  ev : Ev
  waitTy : Nat
  hasReq : Bool
  resolved : Option Ev
  timedOut : Bool
  attempts : Nat
  firstAt : Option Int
  lastExc : Option Nat
  lastFailedAt : Option Int
  rc : RC
deriving DecidableEq, Repr

structure SerStep where
  queue : List Attempt
  inProg : List Ev
  collected : Collected
  waiters : List SerWaiter
deriving DecidableEq, Repr

def serAttempt (a : Attempt) : Attempt := { a with attempts := some (orNat a.attempts 0) }

def serWaiter (w : Waiter) : SerWaiter :=
  { wid := w.wid, ev := w.ev, waitTy := w.waitTy, hasReq := w.req.isSome || w.hasReq,
    resolved := w.resolved, timedOut := w.timedOut, attempts := w.attempts, firstAt := w.firstAt,
    lastExc := w.lastExc, lastFailedAt := w.lastFailedAt, rc := w.rc }

def serStep (ss : StepState) : SerStep :=
  { queue := ss.queue.map serAttempt, inProg := ss.inProg.map (·.ev), collected := ss.collected,
    waiters := ss.waiters.map serWaiter }

def deserWaiter (w : SerWaiter) : Waiter :=
  { wid := w.wid, ev := w.ev, waitTy := w.waitTy, req := none, hasReq := w.hasReq,
    resolved := w.resolved, timedOut := w.timedOut, attempts := w.attempts, firstAt := w.firstAt,
    lastExc := w.lastExc, lastFailedAt := w.lastFailedAt, rc := w.rc }

def deserStep (s : SerStep) : StepState :=
  { queue := s.queue ++ s.inProg.map (fun e => { ev := e, attempts := some 0, firstAt := none }),
    inProg := [], collected := s.collected, waiters := s.waiters.map deserWaiter }

/-- `SerializedContext` (the broker part): running flag and one entry per step of the config -/
structure SerState where
  isRunning : Bool
  workers : List (Nat × SerStep)
deriving DecidableEq, Repr

def ser (cfg : Cfg) (st : State) : SerState :=
  { isRunning := st.isRunning, workers := cfg.names.map (fun s => (s, serStep (st.workers s))) }

/-- `from_serialized`: start from `from_workflow` (every step empty) and restore the steps that
the workflow knows -/
def deser (cfg : Cfg) (s : SerState) : State :=
  { isRunning := s.isRunning,
    workers := fun n =>
      if cfg.hasStep n then
        match s.workers.find? (fun p => p.1 == n) with
        | some p => deserStep p.2
        | none => {}
      else {} }

/-- serialise and load again -/
def roundtrip (cfg : Cfg) (st : State) : State := deser cfg (ser cfg st)

end Engine
