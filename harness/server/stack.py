"""The in-process WorkflowServer stack, assembled from /repo's real classes without starlette/uvicorn:

    ServerRuntimeDecorator(IdleReleaseDecorator(PersistenceDecorator(BasicRuntime(), store), store, idle_timeout), store)
    + _WorkflowService(runtime, store)

exactly as `WorkflowServer.__init__` / `add_workflow` wire it.  Runs under harness/vloop.py:
module-level clocks (`time`, `datetime`) of the engine and of idle_release_runtime are replaced
by the virtual clock in this process only.

    st = Stack.build("memory"|"sqlite", idle_timeout=5.0, db_path=...)
    st.add_workflow("wf", workflow)
    await st.start()                       # runtime.launch(): resumes persisted running handlers
    hd = await st.start_run("wf", "h1", start_event)
    ph = await st.handler("h1")            # PersistentHandler from the store
    await st.send("h1", event)
    st2 = await st.crash()                 # process stop: in-memory runs are aborted, nothing is written;
                                           # returns a fresh stack over the same store (same workflows re-registered
                                           # by `workflow_factory`), not yet started
"""
from __future__ import annotations

import asyncio
import datetime as _dt
import os
import tempfile
from typing import Any, Callable

from ..engine import live as _live


class VDateTime(_dt.datetime):
    """datetime whose now() follows the running virtual-time loop (epoch = virtual 0 + 1e9 s)"""

    @classmethod
    def now(cls, tz: Any = None) -> "VDateTime":  # type: ignore[override]
        try:
            t = asyncio.get_event_loop().time()
        except RuntimeError:
            t = 0.0
        return cls.fromtimestamp(1_000_000_000 + t, tz=tz)


def patch_server_clocks() -> None:
    _live.patch_clocks()
    import llama_agents.server._runtime.idle_release_runtime as IR
    import llama_agents.server._runtime.server_runtime as SR

    for m in (IR, SR):
        if getattr(m, "datetime", None) is not VDateTime:
            m.datetime = VDateTime  # type: ignore[attr-defined]


class Stack:
    def __init__(self, store: Any, idle_timeout: float | None, persistence_backoff: list[float] | None = None,
                 store_kind: str = "memory", db_path: str | None = None):
        from llama_agents.server._runtime.idle_release_runtime import IdleReleaseDecorator
        from llama_agents.server._runtime.persistence_runtime import PersistenceDecorator
        from llama_agents.server._runtime.server_runtime import ServerRuntimeDecorator
        from llama_agents.server._service import _WorkflowService
        from workflows.plugins.basic import BasicRuntime

        patch_server_clocks()
        self.store = store
        self.store_kind = store_kind
        self.db_path = db_path
        self.idle_timeout = idle_timeout
        self.persistence_backoff = persistence_backoff
        self.basic = BasicRuntime()
        self.persistence = PersistenceDecorator(self.basic, store=store)
        inner: Any = self.persistence
        self.idle = None
        if idle_timeout is not None:
            self.idle = IdleReleaseDecorator(self.persistence, store=store, idle_timeout=idle_timeout)
            inner = self.idle
        self.runtime = ServerRuntimeDecorator(inner, store=store, persistence_backoff=persistence_backoff if persistence_backoff is not None else [0.5, 3])
        self.service = _WorkflowService(self.runtime, store)
        self.workflows: dict[str, Any] = {}
        self.factories: dict[str, Callable[[], Any]] = {}

    # ---- construction
    @staticmethod
    def make_store(kind: str, db_path: str | None = None, **kw: Any) -> tuple[Any, str | None]:
        if kind == "memory":
            from llama_agents.server._store.memory_workflow_store import MemoryWorkflowStore

            return MemoryWorkflowStore(**kw), None
        from llama_agents.server._store.sqlite.sqlite_workflow_store import SqliteWorkflowStore

        if db_path is None:
            fd, db_path = tempfile.mkstemp(prefix="verif_wf_", suffix=".db")
            os.close(fd)
            os.unlink(db_path)
        return SqliteWorkflowStore(db_path, **kw), db_path

    @classmethod
    def build(cls, kind: str = "memory", idle_timeout: float | None = None, persistence_backoff: list[float] | None = None,
              db_path: str | None = None, store: Any = None) -> "Stack":
        if store is None:
            store, db_path = cls.make_store(kind, db_path)
        return cls(store, idle_timeout, persistence_backoff, kind, db_path)

    def add_workflow(self, name: str, factory: Callable[[], Any]) -> Any:
        """as WorkflowServer.add_workflow; `factory` builds a fresh Workflow instance (needed again after crash())"""
        wf = factory()
        wf._switch_workflow_name(name)
        wf._switch_runtime(self.runtime)
        self.workflows[name] = wf
        self.factories[name] = factory
        return wf

    # ---- lifecycle
    async def start(self) -> None:
        await self.service.start()
        rt = self.persistence.resume_task
        if rt is not None:
            try:
                await rt
            except Exception:
                pass

    async def stop(self) -> None:
        await self.service.stop()

    async def crash(self) -> "Stack":
        """the process dies: every in-memory control loop is aborted without any store write"""
        for run_id in list(self.persistence._active_run_ids):
            try:
                ad = self.basic.get_external_adapter(run_id)
                ad.abort()  # type: ignore[attr-defined]
            except Exception:
                pass
        for t in list(getattr(self.idle, "_background_tasks", []) or []) + list(self.persistence._background_tasks):
            t.cancel()
        for _ in range(5):
            await asyncio.sleep(0)
        st2 = Stack(self.store, self.idle_timeout, self.persistence_backoff, self.store_kind, self.db_path)
        for name, f in self.factories.items():
            st2.add_workflow(name, f)
        return st2

    # ---- operations (through the service, as _api.py does)
    async def start_run(self, name: str, handler_id: str, start_event: Any) -> Any:
        return await self.service.start_workflow(self.workflows[name], handler_id, start_event=start_event)

    async def handler(self, handler_id: str) -> Any:
        from llama_agents.server._store.abstract_workflow_store import HandlerQuery

        found = await self.store.query(HandlerQuery(handler_id_in=[handler_id]))
        return found[0] if found else None

    async def send(self, handler_id: str, event: Any, step: str | None = None) -> None:
        await self.service.send_event(handler_id, event, step=step)

    async def cancel(self, handler_id: str, purge: bool = False) -> Any:
        return await self.service.cancel_handler(handler_id, purge=purge)

    async def ticks(self, run_id: str) -> list:
        from llama_agents.server._store.abstract_workflow_store import stream_workflow_ticks

        return [t async for t in stream_workflow_ticks(self.store, run_id)]

    async def events(self, run_id: str) -> list:
        return await self.store.query_events(run_id)

    def active(self, run_id: str) -> bool:
        return run_id in (self.idle._active_run_ids if self.idle is not None else self.persistence._active_run_ids)

    def cleanup(self) -> None:
        if self.db_path and os.path.exists(self.db_path):
            for suf in ("", "-wal", "-shm"):
                try:
                    os.unlink(self.db_path + suf)
                except OSError:
                    pass
