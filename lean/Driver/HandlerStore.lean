import WfModel.HandlerStore
import Driver.Util
open HandlerStore Drv

/-! Line protocol for the handler-store model (C24).

```
init mem <max|_>        | init sql                                  → ok
init mem <negative>                                                 → raise:ValueError   (store unchanged)
init mem d              (the constructor's default bound)           → ok
T                       (`_terminal_queue`, oldest first)           → queue <ids>
L                       (the table in store order, unsorted)        → list <table>
R                       (reopen: a new store object on the same data) → ok|<table>
B start count wf status (upserts of `count` bare handlers)          → n <rows> <terminal rows>
U id wf status run err res started updated completed idle           → ok|<table>
S run status res err idle now          (idle: u = unset, _ = None)  → ok|<table>
Q hid run wf st idle    (lists: _ none, e empty, 1,2,3; idle _/0/1) → rows <result>
D hid run wf st idle                                                → <count>|<table>
```
Tables/results are sorted by handler id; a row is its ten fields joined by `,`, rows by `;`. -/
namespace Drv.HandlerStore

def parseOpt? (s : String) : Option (Option Nat) :=
  if s == "_" then some none else (s.toNat?).map some

def parseList? (s : String) : Option (Option (List Nat)) :=
  if s == "_" then some none
  else if s == "e" then some (some [])
  else ((s.splitOn ",").mapM String.toNat?).map some

def parseIdleQ? (s : String) : Option (Option Bool) :=
  if s == "_" then some none else (parseBool? s).map some

def parseQuery? : List String → Option Query
  | [a, b, c, d, e] => do
    let a ← parseList? a
    let b ← parseList? b
    let c ← parseList? c
    let d ← parseList? d
    let e ← parseIdleQ? e
    some { handlerIdIn := a, runIdIn := b, workflowNameIn := c, statusIn := d, isIdle := e }
  | _ => none

def parseHandler? : List String → Option Handler
  | [id, wf, st, run, err, res, t0, t1, t2, idle] => do
    let id ← id.toNat?
    let wf ← wf.toNat?
    let st ← st.toNat?
    let run ← parseOpt? run
    let err ← parseOpt? err
    let res ← parseOpt? res
    let t0 ← parseOpt? t0
    let t1 ← parseOpt? t1
    let t2 ← parseOpt? t2
    let idle ← parseOpt? idle
    some { handlerId := id, workflowName := wf, status := st, runId := run, error := err, result := res,
           startedAt := t0, updatedAt := t1, completedAt := t2, idleSince := idle }
  | _ => none

def parseStatus? : List String → Option StatusUpdate
  | [run, st, res, err, idle, now] => do
    let run ← run.toNat?
    let st ← parseOpt? st
    let res ← parseOpt? res
    let err ← parseOpt? err
    let idle ← if idle == "u" then some IdleArg.unset else (parseOpt? idle).map IdleArg.set
    let now ← now.toNat?
    some { runId := run, status := st, result := res, error := err, idle := idle, now := now }
  | _ => none

def showOpt : Option Nat → String
  | none => "_"
  | some n => toString n

def showRow (h : Handler) : String :=
  ",".intercalate [toString h.handlerId, toString h.workflowName, toString h.status, showOpt h.runId, showOpt h.error,
    showOpt h.result, showOpt h.startedAt, showOpt h.updatedAt, showOpt h.completedAt, showOpt h.idleSince]

def showRows (rows : List Handler) : String :=
  ";".intercalate ((rows.mergeSort (fun a b => a.handlerId ≤ b.handlerId)).map showRow)

def parseMax? (s : String) : Option (Option Int) :=
  if s == "_" then some none else (s.toInt?).map some

def bulk (s : Store) (start wf st : Nat) : Nat → Store
  | 0 => s
  | n + 1 => bulk (s.update { handlerId := start, workflowName := wf, status := st }) (start + 1) wf st n

def step (s : Store) (line : String) : Store × String :=
  match line.splitOn " " with
  | ["init", "sql"] => (Store.init .sql, "ok")
  | ["init", "mem", "d"] =>
    match Store.initMemDefault? with
    | some s' => (s', "ok")
    | none => (s, "raise:ValueError")
  | ["init", "mem", m] =>
    match parseMax? m with
    | some m =>
      match Store.initMem? m with
      | some s' => (s', "ok")
      | none => (s, "raise:ValueError")
    | none => (s, "bad-op")
  | ["T"] => (s, "queue " ++ ",".intercalate (s.queue.map toString))
  | ["L"] => (s, "list " ++ ";".intercalate (s.rows.map showRow))
  | ["R"] => (s, "ok|" ++ showRows s.rows)
  | ["B", a, n, wf, st] =>
    match a.toNat?, n.toNat?, wf.toNat?, st.toNat? with
    | some a, some n, some wf, some st =>
      let s' := bulk s a wf st n
      (s', "n " ++ toString s'.rows.length ++ " " ++ toString (s'.rows.filter (·.terminal)).length)
    | _, _, _, _ => (s, "bad-op")
  | "U" :: rest =>
    match parseHandler? rest with
    | some h => let s' := s.update h; (s', "ok|" ++ showRows s'.rows)
    | none => (s, "bad-op")
  | "S" :: rest =>
    match parseStatus? rest with
    | some u => let s' := s.updateStatus u; (s', "ok|" ++ showRows s'.rows)
    | none => (s, "bad-op")
  | "Q" :: rest =>
    match parseQuery? rest with
    | some q => (s, "rows " ++ showRows (s.query q))
    | none => (s, "bad-op")
  | "D" :: rest =>
    match parseQuery? rest with
    | some q => let r := s.delete q; (r.1, toString r.2 ++ "|" ++ showRows r.1.rows)
    | none => (s, "bad-op")
  | _ => (s, "bad-op")

end Drv.HandlerStore
