import WfModel.DeployId
/-! Helper lemmas for C32 (core Lean only). -/
set_option linter.unusedSimpArgs false

namespace DeployId

theorem isLower_isAlnum {c : Char} (h : isLower c = true) : isAlnum c = true := by
  simp [isAlnum, h]

theorem isAlnum_isLabelChar {c : Char} (h : isAlnum c = true) : isLabelChar c = true := by
  simp [isLabelChar, h]

theorem isHex_isAlnum {c : Char} (h : isHex c = true) : isAlnum c = true := by
  simp only [isHex, isAlnum, isLower, isDigit, Bool.or_eq_true, Bool.and_eq_true, decide_eq_true_eq] at *
  omega

theorem isHexAlpha_isLower {c : Char} (h : isHexAlpha c = true) : isLower c = true := by
  simp only [isHexAlpha, isLower, Bool.and_eq_true, decide_eq_true_eq] at *
  omega

theorem isHex_not_digit_isLower {c : Char} (h : isHex c = true) (hd : isDigit c = false) :
    isLower c = true := by
  simp only [isHex, isLower, isDigit, Bool.or_eq_true, Bool.and_eq_true, decide_eq_true_eq,
    Bool.and_eq_false_iff, decide_eq_false_iff_not] at *
  omega

theorem isLower_not_hyphen {c : Char} (h : isLower c = true) : isHyphen c = false := by
  simp only [isHyphen, beq_eq_false_iff_ne, ne_eq]
  intro hc; subst hc; revert h; decide

theorem isAlnum_not_hyphen {c : Char} (h : isAlnum c = true) : isHyphen c = false := by
  simp only [isHyphen, beq_eq_false_iff_ne, ne_eq]
  intro hc; subst hc; revert h; decide

theorem label_not_hyphen_alnum {c : Char} (h : isLabelChar c = true) (hh : isHyphen c = false) :
    isAlnum c = true := by
  simpa [isLabelChar, hh] using h

theorem stripLead_cons (c : Char) (r : List Char) :
    stripLead (c :: r) = if isHyphen c then r else c :: r := rfl

theorem addPrefix_cons (c : Char) (r : List Char) :
    addPrefix (c :: r) = if isLower c then c :: r else 'd' :: '-' :: c :: r := rfl

/-! ### all characters are label characters -/

theorem sanitize_all (cs : List Char) : (sanitize cs).all isLabelChar = true := by
  simp only [sanitize, List.all_map, List.all_eq_true]
  intro c _
  simp only [Function.comp]
  split
  · exact isAlnum_isLabelChar ‹_›
  · decide

theorem collapse_all : ∀ cs : List Char, cs.all isLabelChar = true → (collapse cs).all isLabelChar = true
  | [], _ => by simp [collapse]
  | [c], h => by simpa [collapse] using h
  | c :: d :: rest, h => by
    have hc : isLabelChar c = true := by simp [List.all_cons] at h; exact h.1
    have ht : (d :: rest).all isLabelChar = true := by simp [List.all_cons] at h ⊢; exact h.2
    unfold collapse
    split
    · exact collapse_all (d :: rest) ht
    · simp only [List.all_cons, Bool.and_eq_true]; exact ⟨hc, collapse_all (d :: rest) ht⟩

theorem stripLead_all (cs : List Char) (h : cs.all isLabelChar = true) :
    (stripLead cs).all isLabelChar = true := by
  cases cs with
  | nil => simp [stripLead]
  | cons c r =>
    simp only [List.all_cons, Bool.and_eq_true] at h
    rw [stripLead_cons]; split
    · exact h.2
    · simp only [List.all_cons, Bool.and_eq_true]; exact h

theorem stripEnds_all (cs : List Char) (h : cs.all isLabelChar = true) :
    (stripEnds cs).all isLabelChar = true := by
  unfold stripEnds
  rw [List.all_reverse]
  apply stripLead_all
  rw [List.all_reverse]
  exact stripLead_all cs h

theorem addPrefix_all (cs : List Char) (h : cs.all isLabelChar = true) :
    (addPrefix cs).all isLabelChar = true := by
  cases cs with
  | nil => simp [addPrefix]
  | cons c r =>
    rw [addPrefix_cons]; split
    · exact h
    · simp only [List.all_cons, Bool.and_eq_true] at h ⊢
      exact ⟨by decide, by decide, h⟩

theorem take_all (n : Nat) (cs : List Char) (h : cs.all isLabelChar = true) :
    (cs.take n).all isLabelChar = true := by
  simp only [List.all_eq_true] at h ⊢
  intro c hc; exact h c (List.mem_of_mem_take hc)

theorem rstrip_all (cs : List Char) (h : cs.all isLabelChar = true) :
    (rstrip cs).all isLabelChar = true := by
  unfold rstrip
  rw [List.all_reverse]
  simp only [List.all_eq_true] at h ⊢
  intro c hc
  exact h c (List.mem_reverse.mp ((List.dropWhile_sublist _).mem hc))

theorem baseId_all (name : List Char) : (baseId name).all isLabelChar = true := by
  unfold baseId
  exact rstrip_all _ (take_all _ _ (addPrefix_all _ (stripEnds_all _ (collapse_all _ (sanitize_all name)))))

/-! ### the first character -/

/-- no two adjacent hyphens -/
def NoDouble : List Char → Prop
  | [] => True
  | [_] => True
  | c :: d :: rest => ¬ (isHyphen c = true ∧ isHyphen d = true) ∧ NoDouble (d :: rest)

theorem collapse_head : ∀ (c : Char) (rest : List Char),
    ∃ r', collapse (c :: rest) = c :: r'
  | c, [] => ⟨[], by simp [collapse]⟩
  | c, d :: rest => by
    unfold collapse
    split
    · rename_i h
      simp only [Bool.and_eq_true, isHyphen, beq_iff_eq] at h
      obtain ⟨r', hr⟩ := collapse_head d rest
      refine ⟨r', ?_⟩
      rw [hr, h.1, h.2]
    · exact ⟨_, rfl⟩

theorem collapse_noDouble : ∀ cs : List Char, NoDouble (collapse cs)
  | [] => by simp [collapse, NoDouble]
  | [c] => by simp [collapse, NoDouble]
  | c :: d :: rest => by
    unfold collapse
    split
    · exact collapse_noDouble (d :: rest)
    · rename_i h
      obtain ⟨r', hr⟩ := collapse_head d rest
      rw [hr]
      refine ⟨?_, ?_⟩
      · simpa [Bool.and_eq_true] using h
      · rw [← hr]; exact collapse_noDouble (d :: rest)

/-- after removing one leading hyphen from a list without adjacent hyphens, the head is not a hyphen -/
theorem stripLead_head (cs : List Char) (h : NoDouble cs) :
    ∀ c r, stripLead cs = c :: r → isHyphen c = false := by
  intro c r hcr
  cases cs with
  | nil => simp [stripLead] at hcr
  | cons a t =>
    rw [stripLead_cons] at hcr
    split at hcr
    · rename_i ha
      subst hcr
      have := h.1
      simp only [ha, true_and] at this
      simpa using this
    · rename_i ha
      injection hcr with h1 h2
      subst h1; simpa using ha

theorem head_reverse_stripLead_reverse (cs : List Char) (c : Char) (r : List Char)
    (hne : isHyphen c = false) (h : cs = c :: r) :
    ∃ r', (stripLead cs.reverse).reverse = c :: r' := by
  subst h
  cases hrev : (c :: r).reverse with
  | nil => simp at hrev
  | cons a t =>
    rw [stripLead_cons]
    split
    · rename_i ha
      -- (c :: r).reverse = a :: t  ⇒  c :: r = t.reverse ++ [a]
      have : c :: r = t.reverse ++ [a] := by
        have := congrArg List.reverse hrev; simpa using this
      cases ht : t.reverse with
      | nil =>
        rw [ht] at this; simp at this
        rw [this.1] at hne; rw [hne] at ha; cases ha
      | cons x y =>
        rw [ht] at this; simp at this
        exact ⟨y, by rw [this.1]⟩
    · exact ⟨r, by rw [← hrev]; simp⟩

theorem stripEnds_head (cs : List Char) (h : NoDouble cs) :
    ∀ c r, stripEnds cs = c :: r → isHyphen c = false := by
  intro c r hcr
  unfold stripEnds at hcr
  cases hs : stripLead cs with
  | nil => rw [hs] at hcr; simp [stripLead] at hcr
  | cons a t =>
    have ha := stripLead_head cs h a t hs
    obtain ⟨r', hr'⟩ := head_reverse_stripLead_reverse (stripLead cs) a t ha hs
    rw [hr'] at hcr
    injection hcr with h1 _
    subst h1; exact ha

/-- the id before truncation is empty or starts with a lowercase letter -/
theorem prefixed_head (name : List Char) :
    ∀ c r, addPrefix (stripEnds (collapse (sanitize name))) = c :: r → isLower c = true := by
  intro c r h
  cases hs : stripEnds (collapse (sanitize name)) with
  | nil => rw [hs] at h; simp [addPrefix] at h
  | cons a t =>
    rw [hs] at h
    rw [addPrefix_cons] at h
    split at h
    · injection h with h1 _; subst h1; assumption
    · injection h with h1 _; subst h1; decide

theorem rstrip_cons_lower (c : Char) (r : List Char) (hc : isLower c = true) :
    ∃ r', rstrip (c :: r) = c :: r' := by
  unfold rstrip
  have key : ∀ (l : List Char) (acc : List Char),
      ∃ r', ((l ++ [c]).dropWhile isHyphen).reverse = c :: r' := by
    intro l
    induction l with
    | nil =>
      intro _
      simp [isLower_not_hyphen hc]
    | cons x xs ih =>
      intro acc
      simp only [List.cons_append, List.dropWhile]
      split
      · exact ih acc
      · simp
  have := key r.reverse []
  simpa using this

theorem baseId_head (name : List Char) :
    ∀ c r, baseId name = c :: r → isLower c = true := by
  intro c r h
  unfold baseId at h
  cases hp : addPrefix (stripEnds (collapse (sanitize name))) with
  | nil => rw [hp] at h; simp [rstrip] at h
  | cons a t =>
    have ha := prefixed_head name a t hp
    rw [hp] at h
    have hmax : Gen.C32.maxLength = 63 := rfl
    rw [hmax] at h
    simp only [List.take_succ_cons] at h
    obtain ⟨r', hr'⟩ := rstrip_cons_lower a (t.take 62) ha
    rw [hr'] at h
    injection h with h1 _
    subst h1; exact ha

/-! ### the last character -/

theorem rstrip_last (cs : List Char) :
    ∀ l, (rstrip cs).getLast? = some l → isHyphen l = false := by
  intro l h
  unfold rstrip at h
  rw [List.getLast?_reverse] at h
  cases hd : cs.reverse.dropWhile isHyphen with
  | nil => rw [hd] at h; simp at h
  | cons a t =>
    rw [hd] at h
    simp at h
    subst h
    have := List.head_dropWhile_not isHyphen (l := cs.reverse) (by rw [hd]; simp)
    simp only [hd, List.head_cons] at this
    simpa using this

theorem rstrip_length_le (cs : List Char) : (rstrip cs).length ≤ cs.length := by
  unfold rstrip
  rw [List.length_reverse]
  calc (cs.reverse.dropWhile isHyphen).length ≤ cs.reverse.length :=
        (List.dropWhile_sublist _).length_le
    _ = cs.length := List.length_reverse ..

theorem baseId_length (name : List Char) : (baseId name).length ≤ 63 := by
  unfold baseId
  refine Nat.le_trans (rstrip_length_le _) ?_
  rw [List.length_take]
  exact Nat.min_le_left _ _

theorem getLast?_mem {α} (l : List α) (a : α) (h : l.getLast? = some a) : a ∈ l :=
  List.mem_of_getLast? h

/-- a non-empty base id is a valid label -/
theorem baseId_valid (name : List Char) (hne : baseId name ≠ []) : isDns1035 (baseId name) = true := by
  cases hb : baseId name with
  | nil => exact absurd hb hne
  | cons c rest =>
    have hall := baseId_all name
    have hhead := baseId_head name c rest hb
    have hlen := baseId_length name
    rw [hb] at hall hlen
    simp only [List.all_cons, Bool.and_eq_true] at hall
    unfold isDns1035
    simp only [Bool.and_eq_true, decide_eq_true_eq]
    refine ⟨⟨⟨hhead, hall.2⟩, ?_⟩, hlen⟩
    cases hl : (c :: rest).getLast? with
    | none => simp at hl
    | some l =>
      have hnh : isHyphen l = false := rstrip_last _ l (by
        have : rstrip ((addPrefix (stripEnds (collapse (sanitize name)))).take Gen.C32.maxLength) = c :: rest := hb
        rw [this]; exact hl)
      have hmem : l ∈ c :: rest := getLast?_mem _ _ hl
      have hlab : isLabelChar l = true := by
        have hall' : (c :: rest).all isLabelChar = true := by
          simp only [List.all_cons, Bool.and_eq_true]; exact hall
        exact (List.all_eq_true.mp hall') l hmem
      exact label_not_hyphen_alnum hlab hnh

end DeployId

namespace DeployId

/-! ### alphanumerics are preserved by the pipeline -/

theorem not_alnum_hyphen : isAlnum '-' = false := by decide

theorem filter_sanitize (cs : List Char) : (sanitize cs).filter isAlnum = cs.filter isAlnum := by
  induction cs with
  | nil => rfl
  | cons c r ih =>
    simp only [sanitize, List.map_cons] at ih ⊢
    by_cases hc : isAlnum c = true
    · simp [hc, List.filter_cons, ih]
    · simp only [Bool.not_eq_true] at hc
      simp [hc, List.filter_cons, not_alnum_hyphen, ih]

theorem hyphen_not_alnum {c : Char} (h : isHyphen c = true) : isAlnum c = false := by
  simp only [isHyphen, beq_iff_eq] at h; subst h; decide

theorem filter_collapse : ∀ cs : List Char, (collapse cs).filter isAlnum = cs.filter isAlnum
  | [] => rfl
  | [c] => rfl
  | c :: d :: rest => by
    unfold collapse
    split
    · rename_i h
      simp only [Bool.and_eq_true] at h
      rw [filter_collapse (d :: rest)]
      simp [List.filter_cons, hyphen_not_alnum h.1]
    · rw [List.filter_cons, List.filter_cons (x := c), filter_collapse (d :: rest)]

theorem filter_stripLead (cs : List Char) : (stripLead cs).filter isAlnum = cs.filter isAlnum := by
  cases cs with
  | nil => rfl
  | cons c r =>
    rw [stripLead_cons]; split
    · rename_i h; simp [List.filter_cons, hyphen_not_alnum h]
    · rfl

theorem filter_stripEnds (cs : List Char) : (stripEnds cs).filter isAlnum = cs.filter isAlnum := by
  unfold stripEnds
  rw [List.filter_reverse, filter_stripLead, ← List.filter_reverse, List.reverse_reverse,
    filter_stripLead]

/-- `"d"` when the sanitised name starts with a digit -/
def dPrefix (name : List Char) : List Char :=
  match name.filter isAlnum with
  | c :: _ => if isLower c then [] else ['d']
  | [] => []

theorem pre_filter (name : List Char) :
    (stripEnds (collapse (sanitize name))).filter isAlnum = name.filter isAlnum := by
  rw [filter_stripEnds, filter_collapse, filter_sanitize]

theorem filter_head_of_not_hyphen (c : Char) (r : List Char) (hl : isLabelChar c = true)
    (h : isHyphen c = false) : (c :: r).filter isAlnum = c :: r.filter isAlnum := by
  simp [List.filter_cons, label_not_hyphen_alnum hl h]

theorem filter_addPrefix (name : List Char) :
    (addPrefix (stripEnds (collapse (sanitize name)))).filter isAlnum
      = dPrefix name ++ name.filter isAlnum := by
  have hpre := pre_filter name
  have hnd := collapse_noDouble (sanitize name)
  have hall := stripEnds_all _ (collapse_all _ (sanitize_all name))
  cases hs : stripEnds (collapse (sanitize name)) with
  | nil =>
    rw [hs] at hpre
    simp only [List.filter_nil] at hpre
    simp [addPrefix, dPrefix, ← hpre]
  | cons a t =>
    have hnh := stripEnds_head _ hnd a t hs
    rw [hs] at hpre hall
    simp only [List.all_cons, Bool.and_eq_true] at hall
    rw [filter_head_of_not_hyphen a t hall.1 hnh] at hpre
    rw [addPrefix_cons]
    unfold dPrefix
    rw [← hpre]
    split
    · rename_i hl; simp [filter_head_of_not_hyphen a t hall.1 hnh, hl]
    · rename_i hl
      have hd : isAlnum 'd' = true := by decide
      simp [List.filter_cons, not_alnum_hyphen, label_not_hyphen_alnum hall.1 hnh, hl, hd]

theorem rstrip_prefix (cs : List Char) : rstrip cs <+: cs := by
  unfold rstrip
  have := List.dropWhile_suffix isHyphen (l := cs.reverse)
  have := List.reverse_prefix.mpr this
  simpa using this

theorem baseId_prefix (name : List Char) :
    baseId name <+: addPrefix (stripEnds (collapse (sanitize name))) :=
  (rstrip_prefix _).trans (List.take_prefix _ _)

theorem baseId_ne_nil (name : List Char) (h : 0 < alnumCount name) : baseId name ≠ [] := by
  have hf := filter_addPrefix name
  cases hp : addPrefix (stripEnds (collapse (sanitize name))) with
  | nil =>
    rw [hp] at hf
    simp only [List.filter_nil] at hf
    have : (name.filter isAlnum) = [] := by
      have := congrArg List.length hf
      simp at this
      exact List.eq_nil_of_length_eq_zero (by omega)
    simp [alnumCount, this] at h
  | cons a t =>
    have ha := prefixed_head name a t hp
    unfold baseId
    rw [hp]
    have hmax : Gen.C32.maxLength = 63 := rfl
    rw [hmax]
    simp only [List.take_succ_cons]
    obtain ⟨r', hr'⟩ := rstrip_cons_lower a (t.take 62) ha
    rw [hr']; simp

/-! ### suffixing -/

theorem appendSuffix_valid (base : List Char) (d : Draw)
    (hall : base.all isLabelChar = true)
    (hhead : ∀ c r, base = c :: r → isLower c = true)
    (hd : wfDraw d = true) : isDns1035 (appendSuffix base d) = true := by
  simp only [wfDraw, Bool.and_eq_true, beq_iff_eq, List.all_eq_true] at hd
  obtain ⟨⟨hlen, hhex⟩, halt⟩ := hd
  have hr : Gen.C32.randomness = 5 := rfl
  rw [hr] at hlen
  match hh : d.hex, hlen with
  | [h0, h1, h2, h3, h4], _ =>
    have hx : ∀ c ∈ [h0, h1, h2, h3, h4], isHex c = true := by rw [← hh]; exact hhex
    have x0 := hx h0 (by simp)
    have x1 := isAlnum_isLabelChar (isHex_isAlnum (hx h1 (by simp)))
    have x2 := isAlnum_isLabelChar (isHex_isAlnum (hx h2 (by simp)))
    have x3 := isAlnum_isLabelChar (isHex_isAlnum (hx h3 (by simp)))
    have x4 := isHex_isAlnum (hx h4 (by simp))
    cases base with
    | nil =>
      simp only [appendSuffix, hh]
      split
      · simp [isDns1035, isHexAlpha_isLower halt, x1, x2, x3, x4, isAlnum_isLabelChar x4]
      · rename_i hnd
        simp only [Bool.not_eq_true] at hnd
        simp [isDns1035, isHex_not_digit_isLower x0 hnd, x1, x2, x3, x4, isAlnum_isLabelChar x4]
    | cons c r =>
      have hc := hhead c r rfl
      simp only [List.all_cons, Bool.and_eq_true] at hall
      have h57 : Gen.C32.maxLength - Gen.C32.randomness - 1 = 56 + 1 := rfl
      simp only [appendSuffix, hh, h57, List.take_succ_cons, List.cons_append]
      have htake : (r.take 56).all isLabelChar = true := take_all 56 r hall.2
      have hlen56 : (r.take 56).length ≤ 56 := by rw [List.length_take]; exact Nat.min_le_left _ _
      simp only [isDns1035, Bool.and_eq_true, decide_eq_true_eq, List.all_append, List.all_cons,
        List.all_nil, Bool.and_true]
      refine ⟨⟨⟨hc, htake, by decide, isAlnum_isLabelChar (isHex_isAlnum x0), x1, x2, x3,
        isAlnum_isLabelChar x4⟩, ?_⟩, ?_⟩
      · have : (c :: (r.take 56 ++ [ '-', h0, h1, h2, h3, h4])).getLast? = some h4 := by
          rw [show c :: (r.take 56 ++ ['-', h0, h1, h2, h3, h4])
              = (c :: r.take 56 ++ ['-', h0, h1, h2, h3]) ++ [h4] by simp]
          exact List.getLast?_concat ..
        rw [this]; exact x4
      · simp only [List.length_cons, List.length_append, List.length_nil]; omega

theorem findLoop_cases (base : List Char) :
    ∀ (n : Nat) (cur : List Char) (answers : List Bool) (ds : List Draw) (r : List Char),
      findLoop base n cur answers ds = some r →
      r = cur ∨ ∃ d ∈ ds, r = appendSuffix base d
  | 0, _, _, _, _, h => by simp [findLoop] at h
  | n + 1, cur, answers, ds, r, h => by
    unfold findLoop at h
    match answers, h with
    | true :: _, h => simp at h; exact Or.inl h.symm
    | false :: answers', h =>
      match ds, h with
      | d :: ds', h =>
        simp at h
        rcases findLoop_cases base n _ answers' ds' r h with h1 | ⟨d', hd', h2⟩
        · exact Or.inr ⟨d, by simp, h1⟩
        · exact Or.inr ⟨d', by simp [hd'], h2⟩

end DeployId
