"""C36 — idle runs are released after the idle timeout and reloaded on demand."""
from __future__ import annotations

from ..runner import Env, Outcome, Violation
from ..server import idle_check as IC
from ..server import lifecycle_db as LDB
from ..server import lifecycle_props as LP

THEOREMS = ["C36_source_shape", "C36_release_after_timeout", "C36_never_released_early", "C36_early_release_window_witness",
            "C36_reload_on_send", "C36_send_to_active_run", "C36_reload_state_is_replay", "C36_no_release_while_sending",
            "C36_refuted_dbos_never_released", "C36_dbos_release_resume_partial", "C36_dbos_release_not_abandoned"]
LEAN_TARGETS = ["WfProps.C36"]
EXPLANATION = (
    "Lean (same model M7 as C26): for every schedule — every release was decided on an idle_since at least idle_timeout old, idle_since holds the "
    "last announcement or nothing, and whenever the row says idle-since-t with a registered loop a release task that will act on that t is pending; "
    "running it releases: loop aborted, run inactive, handler still marked idle (C36_release_after_timeout); with truthful announcements outside "
    "the query->decide window no release is early w.r.t. the LAST announcement (C36_never_released_early; model witness of the window: "
    "C36_early_release_window_witness); a send to a released run reloads exactly once, from all persisted ticks, clears idle_since and delivers to "
    "the new loop, a send to an active run starts nothing (C36_reload_on_send, C36_send_to_active_run); what is rebuilt is the live reducer state "
    "and on a quiescent state rewind_in_progress is the identity (C36_reload_state_is_replay, via C11); a loop is aborted / started only by the "
    "lock holder (C36_no_release_while_sending). DBOS stack: release/resume cycle proved given the lifecycle row (C36_dbos_release_resume_partial); "
    "the production code never inserts the row, so no DBOS run is ever released (C36_refuted_dbos_never_released; known finding, reproduced by "
    "running the real DBOSIdleReleaseDecorator + SqliteRunLifecycleLock over a stand-in runtime and by re-extracting the call sites); with the row, "
    "along every schedule without a process crash a release that has begun is carried through — the `releasing` row is held by a live releaser "
    "whose TickIdleRelease / complete_release is enabled, whatever ticks the run consumes meanwhile (C36_dbos_release_not_abandoned; that the timer "
    "task de-registers itself before it starts the release is part of C36_source_shape). DBOS half under latency (harness/server/dbos_gated.py): "
    "virtual-time latency on every lifecycle-store call and on every delivery to the run, client sends placed in the windows of a release; every "
    "observed protocol action is compared with the protocol machine of M7 (B) (row, incarnation, mailbox, consumed ticks, releaser / sender "
    "positions, releaser task ended early), and the monitors: a committed begin_release is followed by TickIdleRelease and complete_release within "
    "the case's own latencies, an idle undisturbed run is out of memory after idle_timeout + the longest release, a released run is marked idle, "
    "the next send reloads exactly once and the run finishes with everything it consumed. "
    "Tie and search as C26 (same observation stream); C36's monitors: release timing against the stream's own idle announcements, release "
    "liveness (announced idle, undisturbed for idle_timeout => released exactly then, handler marked idle), reload exactly once, state after "
    "release / reload, lock sections, final result equals the run without idle release."
)
LEVEL_TEXT = ("proof (Lean 4) over the lifecycle model M7 (release after the timeout, reload on send, lock discipline; DBOS release/resume "
              "given the lifecycle row) + per-action correspondence with the real in-process server stack + monitors; PARTIAL for the DBOS "
              "half: dbos/asyncpg/sqlalchemy are absent (stand-in inner runtime, PostgreSQL lock extracted, not run); the DBOS clause itself is "
              "refuted on the tree (no lifecycle row is ever created)")
ASSUMPTIONS = LP.COMMON_ASSUMPTIONS + [
    "C36_release_after_timeout(b) runs the pending release task from a state with the lock free and no send in between; fairness of the asyncio scheduler "
    "(the timer task eventually runs) is not modelled — the monitor checks on the real stack that the release happens at exactly announcement + idle_timeout",
    "DBOS half under latency: what DBOS adds to the decorator is taken to be latency (and suspension of the calling task) on the lifecycle statements and on "
    "deliveries; a process crash in the middle of a release (C26's crash timeout) is not injected; the protocol machine's `processed` is what the run has reduced, "
    "including the reloading tick that _do_resume folds into the rebuilt state (which is NOT in the tick log: finding C36/dbos_second_reload_fails)",
    "'continues from where it stopped': the reducer state (C11) — context state store contents are persisted by the store itself (C19-C21), not modelled here; "
    "the monitor compares the final result with the uninterrupted run",
]
TRUSTED_EXTRA = LP.TRUSTED_EXTRA + [
    "harness/server/dbos_gated.py: the stand-in engine under DBOSIdleReleaseDecorator (BasicRuntime; ticks delivered by run id after a virtual-time latency, "
    "as DBOS.send is; DBOS.retrieve_workflow_async / delete_workflow_async emulated by hooks), the latency wrapper around the real SqliteRunLifecycleLock, the "
    "task bookkeeping that attributes lock calls to releasers / senders, the lifecycle row inserted by the harness",
]

WITNESSES = [
    ("premature_idle(F14)", IC.WITNESS_PREMATURE_IDLE, "C36/released_while_not_idle:premature_idle"),
    ("send_window", IC.WITNESS_SEND_WINDOW, "C36/released_while_not_idle:send_window"),
    ("query_window", IC.WITNESS_QUERY_WINDOW, "C36/released_early:query_window"),
    ("wait_requirements_lost", IC.WITNESS_REQUIREMENTS_LOST, "C36/wait_requirements_lost_on_reload"),
]


def _dbos_never_released(out: Outcome) -> None:
    """known finding: no production code path inserts the run_lifecycle row"""
    sites = LDB.create_call_sites()
    out.count("RunLifecycleLock.create call sites", len(sites))
    o = LP.run_dbos_standin(out, create_row=False)
    tl = {t["tag"]: t for t in o["timeline"]}
    idle = tl.get("after_idle", {})
    begins = [c for c in o["lock_calls"] if c[0] == "begin_release"]
    if (not sites and begins and all(c[1] == "False" for c in begins) and idle.get("row") == "row=-"
            and idle.get("first_loop_done") is False and idle.get("idle_since_set") is False and o.get("idle_release_ticks") == 0):
        out.violations.append(Violation(
            "C36/dbos_never_released",
            f"DBOSIdleReleaseDecorator (idle_timeout 0.2 s): 1.0 s after the idle announcement the run is still in memory, begin_release returned {begins[0][1]} "
            f"because no run_lifecycle row exists (RunLifecycleLock.create has {len(sites)} production call sites), no TickIdleRelease was sent, idle_since is unset",
            {"kind": "dbos_standin", "create_row": False}))
    else:
        out.notes.append(f"dbos_never_released did not reproduce: sites={sites} begins={begins} after_idle={idle}")
    # positive control: with the row present (inserted by the harness where the start hook is missing) the same stack releases and resumes
    o2 = LP.run_dbos_standin(out, create_row=True)
    tl2 = {t["tag"]: t for t in o2["timeline"]}
    ok = (tl2.get("after_idle", {}).get("row", "").startswith("row=released") and tl2.get("after_idle", {}).get("first_loop_done") is True
          and tl2.get("after_idle", {}).get("idle_since_set") is True and tl2.get("after_send_1", {}).get("row", "").startswith("row=active")
          and tl2.get("after_send_1", {}).get("idle_since_set") is False and tl2.get("after_send_99", {}).get("result") == [1, 99])
    if not ok:
        out.violations.append(Violation("C36/dbos_standin_cycle", f"with the lifecycle row present the run was not released after the timeout and resumed by the next send: {o2['timeline']}",
                                        {"kind": "dbos_standin", "create_row": True}))


def run(env: Env) -> Outcome:
    out = Outcome()
    out.rule = ("generated idle workflows (1-5 external events + optional final, durations and send times on a grid around idle_timeout incl. +-1 ms, 1-2 workers, "
                "memory/sqlite store, 1/3 with scheduler-controlled store suspension, 1/4 with work longer than idle_timeout and retries); "
                "non-trivial = at least one release and one reload; distinct by (case, schedule)")
    LP.run_malformed(out)
    LP.run_inprocess(env, out, "C36", env.budget(24, 2400), WITNESSES)
    LP.run_row_corr(env, out, env.budget(150, 20000), "C36")
    _dbos_never_released(out)
    LP.run_dbos_gated(env, out, "C36", env.budget(40, 1500))
    return out
