"""Quiescence test, deferred idle check and queue-drain guards -> lean/WfModel/GenIdleShape.lean (C03).

Re-read from /repo's current `workflows/runtime/control_loop.py` (and the idle marker of
`llama_agents/server/_runtime/idle_release_runtime.py`) on every run:

* `_check_idle_state`: the per-step busy test is *translated* into a Lean function `stepBusy` over the truthiness
  of the step's fields, and the statement skeleton of the function is emitted (locals alpha-renamed);
* the `while` conditions that refill free worker slots (`rewind_in_progress`, `_process_step_result_tick`), the
  guard around the latter and `_add_or_enqueue_event`'s `has_space` are translated into Lean functions over
  `(queueLen, inProgLen, numWorkers)` / booleans;
* skeletons of: the `TickIdleCheck` branch of `_reduce_tick`, the `CommandScheduleIdleCheck` branch of
  `process_command`, the buffer-drain loop of `run()` up to the `_process_tick` call, `rewind_in_progress`
  (semantic: sorted iteration, re-insert index, clear, pop index, callee), the `idle=` argument of `UnhandledEvent`;
* which event class makes `_IdleReleaseInternalRunAdapter.write_to_event_stream` mark the run idle.

`C03_source_shape` (WfProps/C03.lean) proves that the model's `checkIdle`, `drain` guard and `addOrEnqueue` capacity
test ARE these functions and pins the skeletons; an edit of any of these places stops the theorem from checking.
Untranslatable shapes produce a sentinel (a definition of another arity / `"<missing>"`) and a note.
"""
from __future__ import annotations

import ast
import copy

from ..boot import repo_path

LEAN_MODULE = "GenIdleShape"
CL = "packages/llama-index-workflows/src/workflows/runtime/control_loop.py"
IR = "packages/llama-agents-server/src/llama_agents/server/_runtime/idle_release_runtime.py"
MISSING = "<missing>"


def _lean_str(s: str) -> str:
    return '"' + s.replace("\\", "\\\\").replace('"', '\\"').replace("\n", " ") + '"'


def _lst(xs: list[str]) -> str:
    return "[" + ", ".join(_lean_str(x) for x in xs) + "]"


def _chain(n: ast.AST) -> str | None:
    """attribute chain without its root variable: `worker_state.config.num_workers` -> `.config.num_workers`"""
    parts: list[str] = []
    while isinstance(n, ast.Attribute):
        parts.append(n.attr)
        n = n.value
    if not isinstance(n, ast.Name):
        return None
    return "." + ".".join(reversed(parts)) if parts else None


TRUTHY = {".queue": "queueNonEmpty", ".in_progress": "inProgressNonEmpty",
          ".collected_waiters": "collectedWaitersNonEmpty", ".collected_events": "collectedEventsNonEmpty"}
LENS = {".queue": "queueLen", ".in_progress": "inProgLen"}
INTS = {".config.num_workers": "numWorkers"}
CMP = {ast.Gt: ">", ast.Lt: "<", ast.GtE: "≥", ast.LtE: "≤", ast.Eq: "=", ast.NotEq: "≠"}


def _int_term(n: ast.AST) -> str | None:
    if isinstance(n, ast.Constant) and isinstance(n.value, int) and not isinstance(n.value, bool) and n.value >= 0:
        return str(n.value)
    if isinstance(n, ast.Call) and isinstance(n.func, ast.Name) and n.func.id == "len" and len(n.args) == 1 and not n.keywords:
        c = _chain(n.args[0])
        return LENS.get(c) if c else None
    c = _chain(n)
    return INTS.get(c) if c else None


def _bool_expr(n: ast.AST, names: dict[str, str]) -> str | None:
    if isinstance(n, ast.BoolOp):
        parts = [_bool_expr(v, names) for v in n.values]
        if any(p is None for p in parts):
            return None
        op = " && " if isinstance(n.op, ast.And) else " || "
        return "(" + op.join(parts) + ")"  # type: ignore[arg-type]
    if isinstance(n, ast.UnaryOp) and isinstance(n.op, ast.Not):
        p = _bool_expr(n.operand, names)
        return None if p is None else f"(!{p})"
    if isinstance(n, ast.Compare) and len(n.ops) == 1 and type(n.ops[0]) in CMP:
        a, b = _int_term(n.left), _int_term(n.comparators[0])
        if a is None or b is None:
            return None
        return f"decide ({a} {CMP[type(n.ops[0])]} {b})"
    if isinstance(n, ast.Name):
        return names.get(n.id)
    c = _chain(n)
    if c is not None:
        return TRUTHY.get(c)
    return None


class _Alpha(ast.NodeTransformer):
    """rename the enclosing function's locals (arguments, assigned names, loop targets) that occur in the selected statements to
    v0, v1, … in order of first occurrence (source order) within the selection"""

    def __init__(self, fn: ast.AST, selection: list[ast.stmt]):
        local: set[str] = set()
        for a in getattr(getattr(fn, "args", None), "args", []) or []:
            local.add(a.arg)
        for n in ast.walk(fn):
            if isinstance(n, ast.Name) and isinstance(n.ctx, ast.Store):
                local.add(n.id)
        local.discard("self")
        occ = [n for st in selection for n in ast.walk(st) if isinstance(n, ast.Name) and n.id in local]
        occ.sort(key=lambda n: (n.lineno, n.col_offset))
        self.map: dict[str, str] = {}
        for n in occ:
            if n.id not in self.map:
                self.map[n.id] = f"v{len(self.map)}"

    def visit_Name(self, n: ast.Name) -> ast.AST:
        return ast.copy_location(ast.Name(id=self.map.get(n.id, n.id), ctx=n.ctx), n)


def _skeleton(body: list[ast.stmt]) -> list[str]:
    out: list[str] = []
    for st in body:
        if isinstance(st, ast.Expr) and isinstance(st.value, ast.Constant) and isinstance(st.value.value, str):
            continue
        if isinstance(st, ast.If):
            out.append("if " + ast.unparse(st.test))
            out += _skeleton(st.body)
            if st.orelse:
                out.append("else")
                out += _skeleton(st.orelse)
            out.append("endif")
        elif isinstance(st, (ast.For, ast.AsyncFor)):
            out.append("for " + ast.unparse(st.target) + " in " + ast.unparse(st.iter))
            out += _skeleton(st.body)
            out.append("endfor")
        elif isinstance(st, ast.While):
            out.append("while " + ast.unparse(st.test))
            out += _skeleton(st.body)
            out.append("endwhile")
        else:
            out.append(ast.unparse(st))
    return out


def _alpha_skeleton(fn: ast.AST, body: list[ast.stmt] | None = None) -> list[str]:
    sel = list(fn.body if body is None else body)  # type: ignore[attr-defined]
    al = _Alpha(fn, sel)
    return _skeleton([al.visit(copy.deepcopy(st)) for st in sel])


def _find_fn(tree: ast.AST, name: str) -> ast.AST | None:
    for n in ast.walk(tree):
        if isinstance(n, (ast.FunctionDef, ast.AsyncFunctionDef)) and n.name == name:
            return n
    return None


def _isinstance_branch(fn: ast.AST, var: str, cls: str) -> ast.If | None:
    for n in ast.walk(fn):
        if isinstance(n, ast.If):
            t = n.test
            if (isinstance(t, ast.Call) and isinstance(t.func, ast.Name) and t.func.id == "isinstance" and len(t.args) == 2
                    and isinstance(t.args[0], ast.Name) and t.args[0].id == var and isinstance(t.args[1], ast.Name) and t.args[1].id == cls):
                return n
    return None


def generate(notes: list[str]) -> list[str]:
    L: list[str] = ["namespace GenIdleShape", ""]
    try:
        tree = ast.parse(open(repo_path(CL)).read())
    except (OSError, SyntaxError) as e:
        notes.append(f"gen/idle_shape: cannot parse control_loop.py: {e}")
        return L + ["-- control_loop.py unparsed", "end GenIdleShape"]

    # ---- _check_idle_state ------------------------------------------------------------------------------------------
    ci = _find_fn(tree, "_check_idle_state")
    busy = None
    ci_skel = [MISSING]
    if ci is None:
        notes.append("gen/idle_shape: _check_idle_state not found")
    else:
        ci_skel = _alpha_skeleton(ci)
        loops = [s for s in ci.body if isinstance(s, ast.For)]  # type: ignore[attr-defined]
        if len(loops) == 1 and len(loops[0].body) == 1 and isinstance(loops[0].body[0], ast.If):
            test = loops[0].body[0]
            ret = test.body[0] if len(test.body) == 1 else None
            if isinstance(ret, ast.Return) and isinstance(ret.value, ast.Constant) and ret.value.value is False and not test.orelse:
                busy = _bool_expr(test.test, {})
        if busy is None:
            notes.append("gen/idle_shape: the per-step test of _check_idle_state is not `for …: if <fields>: return False`")
    L.append("/-- `_check_idle_state`: the test under which a step makes the run non-idle, over the truthiness of its fields -/")
    if busy is not None:
        L.append("def stepBusy (queueNonEmpty inProgressNonEmpty collectedWaitersNonEmpty collectedEventsNonEmpty : Bool) : Bool :=")
        L.append(f"  {busy}")
    else:
        L.append("def stepBusy : Unit := ()  -- sentinel: shape not recognised")
    L.append("/-- the statements of `_check_idle_state` (locals renamed in order of first binding) -/")
    L.append(f"def checkIdleSkeleton : List String := {_lst(ci_skel)}")
    L.append("")

    # ---- the refill loops -------------------------------------------------------------------------------------------
    def refill(fn_name: str, lean_name: str, doc: str) -> ast.While | None:
        fn = _find_fn(tree, fn_name)
        wh = None
        if fn is not None:
            for n in ast.walk(fn):
                if isinstance(n, ast.While) and any(isinstance(c, ast.Call) and isinstance(c.func, ast.Name) and c.func.id == "_add_or_enqueue_event"
                                                   for c in ast.walk(n)):
                    wh = n
                    break
        expr = _bool_expr(wh.test, {}) if wh is not None else None
        L.append(f"/-- {doc} -/")
        if expr is None:
            notes.append(f"gen/idle_shape: the refill loop of {fn_name} is missing or its condition is not over (len(queue), len(in_progress), num_workers)")
            L.append(f"def {lean_name} : Unit := ()  -- sentinel: shape not recognised")
        else:
            L.append(f"def {lean_name} (queueLen inProgLen numWorkers : Nat) : Bool :=")
            L.append(f"  {expr}")
        return wh

    rw_loop = refill("rewind_in_progress", "rewindDrainContinues", "`rewind_in_progress`: the condition of the loop that starts queued invocations on free worker slots")
    sr_loop = refill("_process_step_result_tick", "resultDrainContinues", "`_process_step_result_tick`: the condition of the loop that pulls queued events into free worker slots")
    # guard around the step-result refill loop
    guard = None
    sr = _find_fn(tree, "_process_step_result_tick")
    if sr is not None and sr_loop is not None:
        for n in ast.walk(sr):
            if isinstance(n, ast.If) and sr_loop in n.body and len(n.body) == 1 and not n.orelse and n in sr.body:  # type: ignore[attr-defined]
                guard = _bool_expr(n.test, {"is_completed": "isCompleted", "did_complete_step": "didCompleteStep",
                                            "step_no_longer_in_progress": "stepNoLongerInProgress"})
        if guard is None and sr_loop in sr.body:  # type: ignore[attr-defined]
            guard = "true"
    L.append("/-- `_process_step_result_tick`: the guard around that loop -/")
    if guard is None:
        notes.append("gen/idle_shape: the guard around the refill loop of _process_step_result_tick is not recognised")
        L.append("def resultDrainGuard : Unit := ()  -- sentinel: shape not recognised")
    else:
        L.append("def resultDrainGuard (isCompleted didCompleteStep stepNoLongerInProgress : Bool) : Bool :=")
        L.append(f"  {guard}")
    # is_completed = len([x for x in commands if indicates_exit(x)]) > 0
    ic = None
    if sr is not None:
        for n in ast.walk(sr):
            if isinstance(n, ast.Assign) and len(n.targets) == 1 and isinstance(n.targets[0], ast.Name) and n.targets[0].id == "is_completed":
                ic = ast.unparse(n.value)
    L.append(f"def isCompletedExpr : String := {_lean_str(ic or MISSING)}")
    # has_space
    ae = _find_fn(tree, "_add_or_enqueue_event")
    hs = None
    hs_used = False
    if ae is not None:
        for n in ae.body:  # type: ignore[attr-defined]
            if isinstance(n, ast.Assign) and len(n.targets) == 1 and isinstance(n.targets[0], ast.Name) and n.targets[0].id == "has_space":
                hs = _bool_expr(n.value, {}) if hs is None else None  # a second assignment (an override) is not the recognised shape
            if isinstance(n, ast.If) and isinstance(n.test, ast.Name) and n.test.id == "has_space":
                hs_used = True
            elif isinstance(n, ast.If) and any(isinstance(t, ast.Name) and t.id == "has_space" and isinstance(t.ctx, ast.Store) for t in ast.walk(n)):
                hs = None
    L.append("/-- `_add_or_enqueue_event`: `has_space`, the test under which the event starts at once instead of being queued -/")
    if hs is None or not hs_used:
        notes.append("gen/idle_shape: has_space of _add_or_enqueue_event is not a single assignment over (len(in_progress), num_workers) tested by `if has_space:`")
        L.append("def hasSpace : Unit := ()  -- sentinel: shape not recognised")
    else:
        L.append("def hasSpace (queueLen inProgLen numWorkers : Nat) : Bool :=")
        L.append(f"  {hs}")
    L.append("")

    # ---- rewind_in_progress, semantically ---------------------------------------------------------------------------
    rw = _find_fn(tree, "rewind_in_progress")
    rw_facts: list[str] = [MISSING]
    if rw is not None:
        rw_facts = []
        outer = [s for s in rw.body if isinstance(s, ast.For)]  # type: ignore[attr-defined]
        if len(outer) == 1:
            it = outer[0].iter
            rw_facts.append("iter:" + ("sorted-by-name" if isinstance(it, ast.Call) and isinstance(it.func, ast.Name) and it.func.id == "sorted" else ast.unparse(it)))
            for st in outer[0].body:
                if isinstance(st, ast.For):
                    ins = [c for c in ast.walk(st) if isinstance(c, ast.Call) and isinstance(c.func, ast.Attribute) and c.func.attr in ("insert", "append")]
                    for c in ins:
                        pos = ast.unparse(c.args[0]) if c.func.attr == "insert" and c.args else "end"  # type: ignore[union-attr]
                        rw_facts.append(f"requeue:{_chain(c.func.value)}.{c.func.attr}@{pos} for {_chain(st.iter)}")  # type: ignore[union-attr]
                    kws = sorted(k.arg or "" for c in ast.walk(st) if isinstance(c, ast.Call) and isinstance(c.func, ast.Name) and c.func.id == "EventAttempt" for k in c.keywords)
                    rw_facts.append("carried:" + ",".join(kws))
                elif isinstance(st, ast.Assign) and len(st.targets) == 1:
                    tg = _chain(st.targets[0])
                    if tg is not None:
                        rw_facts.append(f"assign:{tg}={ast.unparse(st.value)}")
                    else:
                        rw_facts.append("local")
                elif isinstance(st, ast.While):
                    pops = [ast.unparse(c.args[0]) if c.args else "last" for c in ast.walk(st)
                            if isinstance(c, ast.Call) and isinstance(c.func, ast.Attribute) and c.func.attr == "pop"]
                    callee = [c.func.id for c in ast.walk(st) if isinstance(c, ast.Call) and isinstance(c.func, ast.Name) and c.func.id.startswith("_")]
                    rw_facts.append("while:pop@" + ",".join(pops) + "->" + ",".join(callee))
                else:
                    rw_facts.append("stmt:" + type(st).__name__)
        else:
            rw_facts.append(f"outer-loops:{len(outer)}")
    else:
        notes.append("gen/idle_shape: rewind_in_progress not found")
    L.append("/-- `rewind_in_progress`: iteration order, where in-progress invocations are re-queued, what they carry, the clear, the refill -/")
    L.append(f"def rewindFacts : List String := {_lst(rw_facts)}")
    L.append("")

    # ---- the deferred idle check ------------------------------------------------------------------------------------
    red = _find_fn(tree, "_reduce_tick")
    br = _isinstance_branch(red, "tick", "TickIdleCheck") if red is not None else None
    L.append("/-- `_reduce_tick`: the `TickIdleCheck` branch -/")
    L.append(f"def idleCheckBranch : List String := {_lst(_alpha_skeleton(red, br.body) if br is not None and red is not None else [MISSING])}")
    tail = [MISSING]
    if red is not None:
        tail = _alpha_skeleton(red, [s for s in red.body if not (isinstance(s, ast.If) and isinstance(s.test, ast.Call)  # type: ignore[attr-defined]
                                                                  and getattr(s.test.func, "id", "") == "isinstance")])
    L.append("/-- `_reduce_tick`: what follows the dispatch -/")
    L.append(f"def reduceTail : List String := {_lst(tail)}")
    pc = _find_fn(tree, "process_command")
    br2 = _isinstance_branch(pc, "command", "CommandScheduleIdleCheck") if pc is not None else None
    L.append("/-- `process_command`: the `CommandScheduleIdleCheck` branch -/")
    L.append(f"def scheduleIdleCheckBranch : List String := {_lst(_skeleton(br2.body) if br2 is not None else [MISSING])}")
    run = _find_fn(tree, "run")
    drain_skel = [MISSING]
    if run is not None:
        for n in ast.walk(run):
            if isinstance(n, ast.While) and ast.unparse(n.test) == "self.tick_buffer":
                drain_skel = _alpha_skeleton(run, [n])
                break
    if drain_skel == [MISSING]:
        notes.append("gen/idle_shape: the `while self.tick_buffer:` drain loop of run() not found")
    L.append("/-- `run()`: the loop that drains the tick buffer (FIFO) before the loop waits again -/")
    L.append(f"def drainLoop : List String := {_lst(drain_skel)}")
    # UnhandledEvent(idle=…)
    idle_args = sorted({ast.unparse(k.value) for n in ast.walk(tree) if isinstance(n, ast.Call) and isinstance(n.func, ast.Name) and n.func.id == "UnhandledEvent"
                        for k in n.keywords if k.arg == "idle"})
    L.append("/-- the `idle=` argument of every `UnhandledEvent(...)` the reducer builds -/")
    L.append(f"def unhandledIdleArgs : List String := {_lst(idle_args)}")
    # who else publishes WorkflowIdleEvent
    pubs = []
    for fn in ast.walk(tree):
        if isinstance(fn, (ast.FunctionDef, ast.AsyncFunctionDef)):
            for n in ast.walk(fn):
                if isinstance(n, ast.Call) and isinstance(n.func, ast.Name) and n.func.id == "WorkflowIdleEvent":
                    pubs.append(fn.name)
    L.append("/-- the functions of control_loop.py that construct a `WorkflowIdleEvent` -/")
    L.append(f"def idleEventBuiltIn : List String := {_lst(sorted(set(pubs)))}")
    L.append("")

    # ---- the server's idle marker -----------------------------------------------------------------------------------
    mark: list[str] = [MISSING]
    try:
        t2 = ast.parse(open(repo_path(IR)).read())
        cls = next((n for n in t2.body if isinstance(n, ast.ClassDef) and n.name == "_IdleReleaseInternalRunAdapter"), None)
        w = _find_fn(cls, "write_to_event_stream") if cls is not None else None
        if w is not None:
            mark = sorted({ast.unparse(n.args[1]) for n in ast.walk(w) if isinstance(n, ast.Call) and isinstance(n.func, ast.Name)
                           and n.func.id == "isinstance" and len(n.args) == 2})
    except (OSError, SyntaxError) as e:
        notes.append(f"gen/idle_shape: cannot parse idle_release_runtime.py: {e}")
    L.append("/-- the event classes `_IdleReleaseInternalRunAdapter.write_to_event_stream` treats as \"the run is idle\" -/")
    L.append(f"def idleMarkClasses : List String := {_lst(mark)}")
    L.append("")
    L.append("end GenIdleShape")
    return L
