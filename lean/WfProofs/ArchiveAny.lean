import WfProofs.ArchiveWrite
/-!
Helper lemmas for C33, part 5: member names built from **arbitrary** deployment names (dots,
upper case, empty, duplicates — nothing assumed), and what follows for every backup whatsoever:
a different password / no password never gets past the first encrypted member.
-/
namespace Archive
open GenArchive

variable {Y : Type}

/-! ## the chain's tests on `n ++ s` for arbitrary `n`: decided on the constants where they can be -/

/-- `some b`: the test of entry `e` on `n ++ s` is `b` whatever `n` is; `none`: it depends on `n` -/
def verdict (s : Name) (e : ChainEntry) : Option Bool :=
  if e.1 then
    if e.2.1.length ≤ s.length then some (e.2.1.isSuffixOf s)
    else if s.isSuffixOf e.2.1 then none else some false
  else if s.isSuffixOf e.2.1 then none else some false

theorem verdict_sound {s : Name} {e : ChainEntry} {b : Bool} (h : verdict s e = some b) (n : Name) :
    (if e.1 then e.2.1.isSuffixOf (n ++ s) else (n ++ s) == e.2.1) = b := by
  obtain ⟨isSuf, lit, rm, code⟩ := e
  cases isSuf with
  | true =>
    simp only [verdict, if_true] at h
    simp only [if_true]
    by_cases hle : lit.length ≤ s.length
    · simp only [hle, if_true, Option.some.injEq] at h
      rw [← h, Bool.eq_iff_iff, List.isSuffixOf_iff_suffix, List.isSuffixOf_iff_suffix]
      exact ⟨fun hs => List.suffix_of_suffix_length_le hs (List.suffix_append n s) hle,
        fun hs => hs.trans (List.suffix_append n s)⟩
    · simp only [hle, if_false] at h
      by_cases hsl : s.isSuffixOf lit = true
      · simp [hsl] at h
      · simp only [hsl, Bool.false_eq_true, if_false, Option.some.injEq] at h
        rw [← h]
        cases hx : lit.isSuffixOf (n ++ s) with
        | false => rfl
        | true =>
          exfalso
          rw [List.isSuffixOf_iff_suffix] at hx
          apply hsl
          rw [List.isSuffixOf_iff_suffix]
          exact List.suffix_of_suffix_length_le (List.suffix_append n s) hx (by omega)
  | false =>
    simp only [verdict, Bool.false_eq_true, if_false] at h
    simp only [Bool.false_eq_true, if_false]
    by_cases hsl : s.isSuffixOf lit = true
    · simp [hsl] at h
    · simp only [hsl, Bool.false_eq_true, if_false, Option.some.injEq] at h
      rw [← h]
      cases hx : (n ++ s) == lit with
      | false => rfl
      | true =>
        exfalso
        apply hsl
        rw [List.isSuffixOf_iff_suffix, ← (beq_iff_eq.mp hx)]
        exact List.suffix_append n s

/-- entries that certainly do not fire are skipped -/
theorem classifyGo_skip {s : Name} (n : Name) :
    ∀ (pre rest : List ChainEntry), (∀ e ∈ pre, verdict s e = some false) →
      classifyGo (n ++ s) (pre ++ rest) = classifyGo (n ++ s) rest
  | [], _, _ => rfl
  | e :: pre, rest, h => by
    obtain ⟨isSuf, lit, rm, code⟩ := e
    have hv := verdict_sound (h _ (List.mem_cons_self ..)) n
    simp only at hv
    simp only [List.cons_append, classifyGo, hv, Bool.false_eq_true, if_false]
    exact classifyGo_skip n pre rest (fun e he => h e (List.mem_cons_of_mem _ he))

/-- the first entry that certainly fires decides -/
theorem classifyGo_hit {s : Name} (n : Name) (pre : List ChainEntry) (e : ChainEntry) (rest : List ChainEntry)
    (hpre : ∀ e' ∈ pre, verdict s e' = some false) (he : verdict s e = some true) :
    classifyGo (n ++ s) (pre ++ e :: rest) =
      (Cat.ofCode e.2.2.2).map fun c => (c, if e.1 then removeSuffix (n ++ s) e.2.2.1 else n ++ s) := by
  rw [classifyGo_skip n pre _ hpre]
  obtain ⟨isSuf, lit, rm, code⟩ := e
  have hv := verdict_sound he n
  simp only at hv
  simp only [classifyGo, hv, if_true]

/-- every name whatsoever: the encrypted-secret member is taken for an encrypted secret of that name -/
theorem classify_secEnc_any (n : Name) : classify (n ++ secEncSuffix) = some (.secEnc, n) := by
  have h := classifyGo_hit (s := secEncSuffix) n (readerChain.take 1) (true, secEncSuffix, secEncSuffix, 1)
    (readerChain.drop 2) (by decide) (by decide)
  have hc : readerChain = readerChain.take 1 ++ (true, secEncSuffix, secEncSuffix, 1) :: readerChain.drop 2 := by decide
  rw [classify, hc, h]
  simp [Cat.ofCode, removeSuffix_append]

theorem classify_meta_any (n : Name) : classify (n ++ metaSuffix) = some (.gmeta, n) := by
  have h := classifyGo_hit (s := metaSuffix) n (readerChain.take 2) (true, metaSuffix, metaSuffix, 2)
    (readerChain.drop 3) (by decide) (by decide)
  have hc : readerChain = readerChain.take 2 ++ (true, metaSuffix, metaSuffix, 2) :: readerChain.drop 3 := by decide
  rw [classify, hc, h]
  simp [Cat.ofCode, removeSuffix_append]

theorem classify_secClear_any (n : Name) : classify (n ++ secClearSuffix) = some (.secClear, n) := by
  have h := classifyGo_hit (s := secClearSuffix) n (readerChain.take 3) (true, secClearSuffix, secClearSuffix, 3)
    (readerChain.drop 4) (by decide) (by decide)
  have hc : readerChain = readerChain.take 3 ++ (true, secClearSuffix, secClearSuffix, 3) :: readerChain.drop 4 := by
    decide
  rw [classify, hc, h]
  simp [Cat.ofCode, removeSuffix_append]

/-- every name whatsoever: the resource member is taken for a resource of that name or — when the name
ends in `.secret` — for the clear-text secret of another name; never for anything else, never ignored -/
theorem classify_cr_any (n : Name) :
    classify (n ++ crSuffix) = some (.cr, n) ∨ ∃ n', classify (n ++ crSuffix) = some (.secClear, n') := by
  have hc : readerChain = readerChain.take 3 ++
      [(true, secClearSuffix, secClearSuffix, 3), (true, crSuffix, crSuffix, 4)] := by decide
  have hskip := classifyGo_skip (s := crSuffix) n (readerChain.take 3)
    [(true, secClearSuffix, secClearSuffix, 3), (true, crSuffix, crSuffix, 4)] (by decide)
  rw [classify, hc, hskip]
  by_cases hx : secClearSuffix.isSuffixOf (n ++ crSuffix) = true
  · right
    exact ⟨removeSuffix (n ++ crSuffix) secClearSuffix, by simp [classifyGo, hx, Cat.ofCode]⟩
  · left
    have h4 := classifyGo_hit (s := crSuffix) n [] (true, crSuffix, crSuffix, 4) [] (by simp) (by decide)
    simp only [List.nil_append] at h4
    simp only [classifyGo, hx] at h4 ⊢
    rw [h4]
    simp [Cat.ofCode, removeSuffix_append]

/-! ## reading written members, whatever the names -/

/-- a member the reader accepts in every state -/
def AlwaysOk (A : Aead) (C : Codec Y) (rpw : Option Bytes) (m : Member) : Prop :=
  ∀ st : RState Y, ∃ st', readMember A C rpw st m = .ok st'

/-- a member the reader refuses with `e` in every state -/
def AlwaysErr (A : Aead) (C : Codec Y) (rpw : Option Bytes) (e : Err) (m : Member) : Prop :=
  ∀ st : RState Y, readMember A C rpw st m = .error e

theorem readMembers_first_error {A : Aead} {C : Codec Y} {rpw : Option Bytes} {e : Err} :
    ∀ (ms : List Member), (∀ m ∈ ms, AlwaysOk A C rpw m ∨ AlwaysErr A C rpw e m) →
      (∃ m ∈ ms, AlwaysErr A C rpw e m) → ∀ st, readMembers A C rpw st ms = .error e
  | [], _, hex, _ => by obtain ⟨m, hm, _⟩ := hex; cases hm
  | m :: ms, hall, hex, st => by
    simp only [readMembers]
    rcases hall m (List.mem_cons_self ..) with hok | herr
    · obtain ⟨st', hst'⟩ := hok st
      rw [hst']
      have hex' : ∃ m' ∈ ms, AlwaysErr A C rpw e m' := by
        obtain ⟨m', hm', he'⟩ := hex
        rcases List.mem_cons.mp hm' with rfl | hin
        · have := he' st; rw [hst'] at this; cases this
        · exact ⟨m', hin, he'⟩
      exact readMembers_first_error ms (fun m' hm' => hall m' (List.mem_cons_of_mem _ hm')) hex' st'
    · rw [herr st]

/-- any member list: one member the reader refuses in every state makes the whole read fail (with
that member's error or an earlier one) -/
theorem readMembers_some_error {A : Aead} {C : Codec Y} {rpw : Option Bytes} :
    ∀ (ms : List Member), (∃ m ∈ ms, ∀ st : RState Y, ∃ e, readMember A C rpw st m = .error e) →
      ∀ st, ∃ e, readMembers A C rpw st ms = .error e
  | [], hex, _ => by obtain ⟨m, hm, _⟩ := hex; cases hm
  | m :: ms, hex, st => by
    simp only [readMembers]
    cases hm : readMember A C rpw st m with
    | error e => exact ⟨e, rfl⟩
    | ok st' =>
      have hex' : ∃ m' ∈ ms, ∀ st : RState Y, ∃ e, readMember A C rpw st m' = .error e := by
        obtain ⟨m', hm', he'⟩ := hex
        rcases List.mem_cons.mp hm' with rfl | hin
        · obtain ⟨e, he⟩ := he' st; rw [hm] at he; cases he
        · exact ⟨m', hin, he'⟩
      exact readMembers_some_error ms hex' st'

theorem alwaysOk_cr {A : Aead} {C : Codec Y} (hC : C.Lawful) (rpw : Option Bytes) (n : Name) (y : Y) :
    AlwaysOk A C rpw (n ++ crSuffix, C.encY y) := by
  intro st
  rcases classify_cr_any n with h | ⟨n', h⟩
  · simp only [readMember, h, hC.y_rt]; exact ⟨_, rfl⟩
  · simp only [readMember, h, hC.y_rt]; exact ⟨_, rfl⟩

theorem alwaysOk_meta {A : Aead} {C : Codec Y} (hC : C.Lawful) (rpw : Option Bytes) (n : Name) (g : Int) :
    AlwaysOk A C rpw (n ++ metaSuffix, C.encMeta g) := by
  intro st
  simp only [readMember, classify_meta_any, hC.meta_rt]; exact ⟨_, rfl⟩

theorem alwaysOk_secClear {A : Aead} {C : Codec Y} (hC : C.Lawful) (rpw : Option Bytes) (n : Name) (y : Y) :
    AlwaysOk A C rpw (n ++ secClearSuffix, C.encY y) := by
  intro st
  simp only [readMember, classify_secClear_any, hC.y_rt]; exact ⟨_, rfl⟩

theorem alwaysOk_manifest {A : Aead} {C : Codec Y} (hC : C.Lawful) (rpw : Option Bytes) (m : Manifest) :
    AlwaysOk A C rpw (manifestName, C.encManifest m) := by
  intro st
  simp only [readMember, classify_manifest, hC.manifest_rt]; exact ⟨_, rfl⟩

theorem alwaysErr_wrong_pw {A : Aead} (hA : A.Lawful) {C : Codec Y} (pw pw' : Bytes) (hne : pw' ≠ pw)
    (salt nonce x : Bytes) (hs : salt.length = encSaltLen) (hn : nonce.length = encNonceLen) (n : Name) :
    AlwaysErr A C (some pw') .invalidTag (n ++ secEncSuffix, encrypt A pw salt nonce x) := by
  intro st
  have hR : decPw readNoPwTest (some pw') = some pw' := rfl
  simp only [readMember, classify_secEnc_any, hR, decrypt_encrypt_wrong hA pw pw' salt nonce x hne hs hn]

theorem alwaysErr_no_pw {A : Aead} {C : Codec Y} (n : Name) (blob : Bytes) :
    AlwaysErr A C none .noPassword (n ++ secEncSuffix, blob) := by
  intro st
  have hR : decPw readNoPwTest (none : Option Bytes) = none := rfl
  simp only [readMember, classify_secEnc_any, hR]

/-- if a deployment of the list has a secret, its encrypted member is among the written members -/
theorem secEnc_mem_writeDeps {A : Aead} {C : Codec Y} (pw : Bytes) {rnd : Nat → Bytes × Bytes}
    {secrets : List (Name × Y)} {gens : Option (List (Name × Int))} :
    ∀ (ds : List (Option Name × Y)) (k : Nat) (d : Option Name × Y) (s : Y), d ∈ ds →
      alookup (depName d) secrets = some s →
      ∃ k', (⟨.secEnc, depName d, (depName d ++ secEncSuffix, encrypt A pw (rnd k').1 (rnd k').2 (C.encY s))⟩ : Tagged)
        ∈ writeDeps A C (some pw) rnd secrets gens k ds
  | [], _, _, _, hd, _ => by cases hd
  | d0 :: ds, k, d, s, hd, hs => by
    have hW : encPw writeEncTest (some pw) = some pw := rfl
    rcases List.mem_cons.mp hd with rfl | hin
    · refine ⟨k, ?_⟩
      simp only [writeDeps, List.mem_append]
      left
      simp [writeDep, hs, hW]
    · obtain ⟨k', hk'⟩ := secEnc_mem_writeDeps pw ds (writeDep A C (some pw) rnd secrets gens k d0).2 d s hin hs
      exact ⟨k', by simp only [writeDeps, List.mem_append]; exact Or.inr hk'⟩

/-- every backup whatsoever, written with a password: each member is read without error in every
state, except the encrypted secrets, which a reader with another password / none refuses -/
theorem read_write_fail_any {A : Aead} {C : Codec Y} (hC : C.Lawful) (pw : Bytes)
    (rpw : Option Bytes) {rnd : Nat → Bytes × Bytes} (b : Backup Y) (e : Err)
    (hbad : ∀ (n : Name) (k : Nat) (x : Bytes),
      AlwaysErr A C rpw e (n ++ secEncSuffix, encrypt A pw (rnd k).1 (rnd k).2 x))
    (hex : ∃ d ∈ b.deps, secretOf b d ≠ none) :
    read A C rpw (write A C (some pw) rnd b) = .error e := by
  have hW : encPw writeEncTest (some pw) = some pw := rfl
  have hall : ∀ m ∈ write A C (some pw) rnd b, AlwaysOk A C rpw m ∨ AlwaysErr A C rpw e m := by
    intro m hm
    simp only [write, List.mem_map] at hm
    obtain ⟨t, ht, rfl⟩ := hm
    simp only [writeTagged, List.mem_cons] at ht
    rcases ht with rfl | ht
    · exact Or.inl (alwaysOk_manifest hC rpw _)
    · obtain ⟨d, _, k', hk'⟩ := mem_writeDeps _ _ ht
      rcases mem_writeDep hk' with rfl | ⟨g, _, rfl⟩ | ⟨s, p, _, hp, rfl⟩ | ⟨s, _, _, rfl⟩
      · exact Or.inl (alwaysOk_cr hC rpw _ _)
      · exact Or.inl (alwaysOk_meta hC rpw _ _)
      · rw [hW] at hp; cases hp
        exact Or.inr (hbad _ _ _)
      · exact Or.inl (alwaysOk_secClear hC rpw _ _)
  have hone : ∃ m ∈ write A C (some pw) rnd b, AlwaysErr A C rpw e m := by
    obtain ⟨d, hd, hne⟩ := hex
    cases hs : alookup (depName d) b.secrets with
    | none => exact absurd hs hne
    | some s =>
      obtain ⟨k', hk'⟩ := secEnc_mem_writeDeps (A := A) (C := C) (rnd := rnd) (gens := b.gens) pw b.deps 0 d s hd hs
      refine ⟨_, ?_, hbad (depName d) k' (C.encY s)⟩
      simp only [write, List.mem_map]
      exact ⟨_, List.mem_cons_of_mem _ hk', rfl⟩
  simp only [read, readMembers_first_error _ hall hone]

end Archive
