import WfModel.GenLifecycle
/-!
M7 — idle release and on-demand resume.

## (A) `IdleReleaseDecorator` (in-process server stack), one run

All state of the decorator is keyed by `run_id` (`_active_run_ids`, the keyed reload
lock, `BasicRuntime._queues`, the handler row), so one run is modelled; runs do not
interact (C25_independent_keys for the lock).

Atomic actions are the code's await-free sections.  Every store call is an `await`, so
every store call is its own action and the synchronous code that follows it runs in the
next action:

* engine / `_IdleReleaseInternalRunAdapter.write_to_event_stream` (not under the lock):
  `eMark` (idle_since := now), `eSpawn j` (create the `_deferred_release` task);
* `IdleReleaseExternalRunAdapter.send_event` of sender `i` (tick id `i`):
  `sCall`, `sAcq` (lock granted, `run_id in _active_run_ids` read), then either
  `sClear` (update_handler_status(idle_since=None)) or the reload
  `sQuery`, `sLog` (context_from_ticks reads the persisted ticks), `sStart`
  (`workflow.run(ctx, run_id)`: BasicRuntime registers queues and creates the control
  loop task, or raises if the run id is registered; `_active_run_ids.add`), `sRClear`;
  finally `sDeliver` (put the tick into the registered loop's mailbox, leave the lock);
* `_deferred_release` task `j`: `tAcq` (sleep over and lock granted), `tQuery` (handler row
  read), `tDecide` (idle_since / elapsed / active tests; `discard` + `abort`; leave the lock).

The engine is the environment: it can put internal ticks while a step runs (`ePut`), pull
(`ePull`), reduce-and-persist (`eReduce`), finish its work (`eDone`), schedule and fire
delayed retries (`eTimerSet`, `eTimerFire`), and announce idleness whenever the reducer
sees no work (`eMark`; C03_idle_reducer_sound) — also with ticks in the mailbox or retries
pending (C03's known findings).  The reload lock is an atomic mutex granted to any waiter
(C25_mutex discharges the mutual exclusion; FIFO order is not relied upon).

Disabled actions are `none`; `stepD` skips them, so schedules are arbitrary action lists.

## (B) the DBOS lifecycle lock (`journal/lifecycle.py`) and its use by
`DBOSIdleReleaseDecorator`: the row machine `active → releasing → released → active` with
the CAS statements as single atomic actions (SQLite: statement(s) under the process-local
keyed lock; PostgreSQL: one statement, or `SELECT … FOR UPDATE` + `UPDATE` in one
transaction — the row lock is modelled as atomicity), any number of releasers and
resumers, releaser crashes at any point, and the workflow's inbox for the
check-then-send window.
-/
set_option linter.unusedVariables false
namespace Lifecycle

def upd {α : Type} (f : Nat → α) (k : Nat) (v : α) : Nat → α := fun i => if i = k then v else f i

@[simp] theorem upd_same {α : Type} (f : Nat → α) (k : Nat) (v : α) : upd f k v k = v := by simp [upd]
theorem upd_apply {α : Type} (f : Nat → α) (k i : Nat) (v : α) : upd f k v i = if i = k then v else f i := rfl
theorem upd_other {α : Type} (f : Nat → α) (k i : Nat) (v : α) (h : i ≠ k) : upd f k v i = f i := by simp [upd, h]

/-! ## (A) -/

/-- the registered control loop of the run (`BasicRuntime._queues[run_id]` + its task) -/
structure Loop where
  inc : Nat                 -- incarnation: 0 = first start, +1 per reload
  start : List Nat          -- the persisted ticks its state was rebuilt from
  mailbox : List Nat := []  -- receive_queue: ticks put, not yet pulled
  buf : List Nat := []      -- tick_buffer: pulled, not yet reduced / persisted
  retry : Nat := 0          -- delayed retries in the runner's timer heap (not reducer state)
  marking : Bool := false   -- inside write_to_event_stream(WorkflowIdleEvent): idle_since written, timer not yet spawned
deriving DecidableEq, Repr

/-- a `send_event` call outside the lock section -/
inductive SPc
  | absent | waiting | locked | done | failed
deriving DecidableEq, Repr

/-- a `_deferred_release` task outside the lock section -/
inductive TPc
  | absent | sleeping (due : Nat) | locked | done
deriving DecidableEq, Repr

/-- the holder of the reload lock together with its position inside the lock section.
The reload lock is an atomic mutex (C25_mutex): at most one task is inside a section, so the
section's program counter lives in the lock. -/
inductive Hold
  | sClear (i : Nat)                      -- saw the run active; next: update_handler_status(idle_since=None)
  | sQuery (i : Nat)                      -- saw the run released; next: store.query
  | sLog (i : Nat)                        -- next: context_from_ticks reads the persisted ticks
  | sStart (i : Nat) (snap : List Nat)    -- next: workflow.run(ctx, run_id); _active_run_ids.add
  | sRClear (i : Nat)                     -- next: update_handler_status(idle_since=None)
  | sDeliver (i : Nat)                    -- next: put the tick into the registered loop's mailbox, leave
  | tQuery (j : Nat)                      -- next: store.query (reads idle_since)
  | tDecide (j : Nat) (seen : Option Nat) -- next: idle_since / elapsed / active tests, discard + abort, leave
deriving DecidableEq, Repr

structure S where
  tau : Nat                       -- idle_timeout
  now : Nat := 0
  cur : Option Loop               -- the registered, running control loop
  active : Bool                   -- run_id ∈ _active_run_ids
  idleSince : Option Nat := none  -- handler.idle_since in the store
  log : List Nat := []            -- persisted ticks (ids of mailbox ticks, in reduction order)
  work : Bool                     -- reducer-visible work (queue / in-progress non-empty); a function of the persisted ticks
  lock : Option Hold := none      -- the reload lock
  senders : Nat → SPc := fun _ => .absent
  timers : Nat → TPc := fun _ => .absent
  -- ghosts
  sent : List Nat := []           -- every tick put into a mailbox (external and internal), in order
  lost : List Nat := []           -- ticks that were in the mailbox / buffer of a loop when it was aborted
  started : Nat := 1              -- control loops started
  aborted : Nat := 0              -- control loops aborted by a release
  busyReleases : Nat := 0         -- releases of a run that was not quiet
  errs : Nat := 0                 -- exceptions raised inside send_event (run id already registered / not registered)
  lastMark : Option Nat := none   -- time of the last idle announcement
  releases : List (Nat × Nat) := []  -- (time of release, idle_since it was decided on)
  earlyReleases : Nat := 0        -- releases less than tau after the last idle announcement

/-- initial state: `run_workflow` has added the run to the active set and started loop 0 with the start event -/
def init (tau : Nat) : S := { tau := tau, cur := some { inc := 0, start := [] }, active := true, work := true }

/-- nothing can happen without new external input -/
def Loop.quiet (l : Loop) : Bool := l.mailbox.isEmpty && l.buf.isEmpty && l.retry == 0

def S.quiet (s : S) : Bool :=
  match s.cur with
  | none => !s.work
  | some l => !s.work && l.quiet

inductive Act
  | advance (dt : Nat)
  | ePut (t : Nat) | ePull | eReduce | eDone | eTimerSet | eTimerFire | eMark | eSpawn (j : Nat)
  | sCall (i : Nat) | sAcq (i : Nat) | sClear (i : Nat) | sQuery (i : Nat) | sLog (i : Nat) | sStart (i : Nat)
  | sRClear (i : Nat) | sDeliver (i : Nat)
  | tAcq (j : Nat) | tQuery (j : Nat) | tDecide (j : Nat)
deriving DecidableEq, Repr

/-- `discard` + `_abort_inner_run`: the registered loop is cancelled and unregistered; what it held in
memory only (mailbox, tick buffer, retry timers, running steps) is gone -/
def release (s : S) (seen : Nat) : S :=
  let early := match s.lastMark with | some m => decide (s.now < m + s.tau) | none => false
  let s1 : S := { s with active := false, releases := s.releases ++ [(s.now, seen)],
                         earlyReleases := s.earlyReleases + (if early then 1 else 0) }
  match s.cur with
  | none => s1          -- get_external_adapter raised: nothing to abort
  | some l =>
    { s1 with cur := none, aborted := s.aborted + 1, lost := s.lost ++ l.buf ++ l.mailbox,
              busyReleases := s.busyReleases + (if s.quiet then 0 else 1) }

def step (s : S) : Act → Option S
  | .advance dt => some { s with now := s.now + dt }
  -- engine
  | .ePut t =>
    match s.cur with
    | some l => if s.work then some { s with cur := some { l with mailbox := l.mailbox ++ [t] }, sent := s.sent ++ [t] } else none
    | none => none
  | .ePull =>
    match s.cur with
    | some l =>
      if l.marking then none else
      match l.mailbox with
      | t :: m => some { s with cur := some { l with mailbox := m, buf := l.buf ++ [t] } }
      | [] => none
    | none => none
  | .eReduce =>
    match s.cur with
    | some l =>
      if l.marking then none else
      match l.buf with
      | t :: b => some { s with cur := some { l with buf := b }, log := s.log ++ [t], work := true }
      | [] => none
    | none => none
  | .eDone =>
    match s.cur with
    | some l => if s.work && !l.marking then some { s with work := false } else none
    | none => none
  | .eTimerSet =>
    match s.cur with
    | some l => if s.work then some { s with cur := some { l with retry := l.retry + 1 } } else none
    | none => none
  | .eTimerFire =>
    match s.cur with
    | some l => if !l.marking && l.retry > 0 then some { s with cur := some { l with retry := l.retry - 1 }, work := true } else none
    | none => none
  | .eMark =>
    match s.cur with
    | some l =>
      if !l.marking && !s.work then
        some { s with cur := some { l with marking := true }, idleSince := some s.now, lastMark := some s.now }
      else none
    | none => none
  | .eSpawn j =>
    match s.cur with
    | some l =>
      if l.marking && s.timers j == .absent then
        some { s with cur := some { l with marking := false }, timers := upd s.timers j (.sleeping (s.now + s.tau)) }
      else none
    | none => none
  -- send_event
  | .sCall i => if s.senders i == .absent then some { s with senders := upd s.senders i .waiting } else none
  | .sAcq i =>
    if s.senders i == .waiting && s.lock == none then
      some { s with lock := some (if s.active then .sClear i else .sQuery i), senders := upd s.senders i .locked }
    else none
  | .sClear i =>
    if s.lock == some (.sClear i) then some { s with idleSince := none, lock := some (.sDeliver i) } else none
  | .sQuery i => if s.lock == some (.sQuery i) then some { s with lock := some (.sLog i) } else none
  | .sLog i => if s.lock == some (.sLog i) then some { s with lock := some (.sStart i s.log) } else none
  | .sStart i =>
    match s.lock with
    | some (.sStart i' snap) =>
      if i' = i then
        match s.cur with
        | some _ =>  -- BasicRuntime.run_workflow: "Workflow run with run_id .. already exists"
          some { s with senders := upd s.senders i .failed, lock := none, errs := s.errs + 1 }
        | none =>
          some { s with cur := some { inc := s.started, start := snap }, started := s.started + 1, active := true,
                        lock := some (.sRClear i) }
      else none
    | _ => none
  | .sRClear i =>
    if s.lock == some (.sRClear i) then some { s with idleSince := none, lock := some (.sDeliver i) } else none
  | .sDeliver i =>
    if s.lock == some (.sDeliver i) then
      match s.cur with
      | none =>  -- get_external_adapter: "No active workflow with run_id"
        some { s with senders := upd s.senders i .failed, lock := none, errs := s.errs + 1 }
      | some l =>
        some { s with cur := some { l with mailbox := l.mailbox ++ [i] }, sent := s.sent ++ [i],
                      senders := upd s.senders i .done, lock := none }
    else none
  -- _deferred_release
  | .tAcq j =>
    match s.timers j with
    | .sleeping due =>
      if due ≤ s.now && s.lock == none then some { s with lock := some (.tQuery j), timers := upd s.timers j .locked } else none
    | _ => none
  | .tQuery j => if s.lock == some (.tQuery j) then some { s with lock := some (.tDecide j s.idleSince) } else none
  | .tDecide j =>
    match s.lock with
    | some (.tDecide j' seen) =>
      if j' = j then
        let s1 : S := { s with lock := none, timers := upd s.timers j .done }
        match seen with
        | none => some s1
        | some t0 =>
          if GenLifecycle.elapsedTooShort (s.now - t0) s.tau then some s1
          else if !s.active then some s1
          else some (release s1 t0)
      else none
    | _ => none

def stepD (s : S) (a : Act) : S := (step s a).getD s

def run (s : S) (acts : List Act) : S := acts.foldl stepD s

/-! ### schedule hypotheses -/

/-- the lock holder has read or written `idle_since` inside its section and has not yet acted on it:
a sender between its clear and its delivery, a release task between its query and its decision -/
def S.inWindow (s : S) : Bool :=
  match s.lock with
  | some (.sDeliver _) => true
  | some (.tDecide _ _) => true
  | _ => false

/-- C03's statement on this abstraction: idleness is announced only when nothing can happen
without new external input -/
def idleSoundAt (s : S) : Act → Bool
  | .eMark => s.quiet
  | _ => true

/-- no idle announcement lands inside the lock holder's `idle_since` window -/
def windowFreeAt (s : S) : Act → Bool
  | .eMark => !s.inWindow
  | _ => true

/-- `p` holds at every step of the schedule -/
def alongB (p : S → Act → Bool) : S → List Act → Bool
  | _, [] => true
  | s, a :: as => p s a && alongB p (stepD s a) as

def Along (p : S → Act → Bool) (s : S) (acts : List Act) : Prop := alongB p s acts = true

instance (p : S → Act → Bool) (s : S) (acts : List Act) : Decidable (Along p s acts) :=
  inferInstanceAs (Decidable (_ = true))

/-! ## (B) the lifecycle row -/

inductive LState | active | releasing | released
deriving DecidableEq, Repr

def LState.ofName (n : String) : LState :=
  if n == "releasing" then .releasing else if n == "released" then .released else .active

def LState.name : LState → String
  | .active => "active" | .releasing => "releasing" | .released => "released"

structure Row where
  st : LState
  upd : Nat
deriving DecidableEq, Repr

abbrev DB := Option Row

/-- source / target states of the CAS statements, as bound in the SQLite lock's SQL -/
def createTo : LState := .ofName GenLifecycle.sqlite_create_to
def beginFrom : LState := .ofName GenLifecycle.sqlite_begin_from
def beginTo : LState := .ofName GenLifecycle.sqlite_begin_to
def completeFrom : LState := .ofName GenLifecycle.sqlite_complete_from
def completeTo : LState := .ofName GenLifecycle.sqlite_complete_to
def resumeTo : LState := .ofName GenLifecycle.sqlite_resume_to

/-- `create`: INSERT OR REPLACE … state = active -/
def dbCreate (db : DB) (now : Nat) : DB := some { st := createTo, upd := now }

/-- `begin_release`: UPDATE … SET state = releasing WHERE run_id = ? AND state = active; rowcount > 0 -/
def dbBeginRelease (db : DB) (now : Nat) : DB × Bool :=
  match db with
  | some r => if r.st = beginFrom then (some { st := beginTo, upd := now }, true) else (db, false)
  | none => (db, false)

/-- `complete_release`: UPDATE … SET state = released WHERE run_id = ? AND state = releasing -/
def dbCompleteRelease (db : DB) (now : Nat) : DB :=
  match db with
  | some r => if r.st = completeFrom then some { st := completeTo, upd := now } else db
  | none => db

/-- `try_begin_resume` (one atomic action: under the keyed lock / inside the transaction holding the row lock).
`none`: no row or active (send normally); `released`: the caller now owns the resume; `releasing`: retry later -/
def dbTryBeginResume (db : DB) (now : Nat) (crashTimeout : Option Nat) : DB × Option LState :=
  match db with
  | none => (db, none)
  | some r =>
    if r.st = .active then (db, none)
    else if r.st = .released ||
        (r.st = .releasing && (match crashTimeout with | some ct => GenLifecycle.crashExpired (now - r.upd) ct | none => false)) then
      (some { st := resumeTo, upd := now }, some (.ofName GenLifecycle.sqlite_resume_returnsWin))
    else (db, some (.ofName GenLifecycle.sqlite_resume_returnsBusy))

/-- the same method written as the code issues it — a SELECT, a decision in Python, and an UPDATE
*without* a state predicate (`WHERE run_id = ?` only) -/
def dbSelect (db : DB) : Option Row := db
def dbUpdateNoPredicate (db : DB) (st : LState) (now : Nat) : DB :=
  match db with
  | some _ => some { st := st, upd := now }
  | none => none

def dbTryBeginResumeTwoStatements (db : DB) (now : Nat) (crashTimeout : Option Nat) : DB × Option LState :=
  match dbSelect db with
  | none => (db, none)
  | some r =>
    if r.st = .active then (db, none)
    else if r.st = .released ||
        (r.st = .releasing && (match crashTimeout with | some ct => GenLifecycle.crashExpired (now - r.upd) ct | none => false)) then
      (dbUpdateNoPredicate db resumeTo now, some (.ofName GenLifecycle.sqlite_resume_returnsWin))
    else (db, some (.ofName GenLifecycle.sqlite_resume_returnsBusy))

/-! ### the protocol around the row (`DBOSIdleReleaseDecorator`) -/

/-- releaser `_release_idle_handler` → `_await_and_mark_released` -/
inductive RPc
  | absent
  | start                              -- timer fired, before begin_release
  | won (at_ : Nat)                    -- begin_release returned True (at time `at_`)
  | sentRelease (at_ : Nat) (inc : Nat) -- TickIdleRelease sent to workflow incarnation `inc`; awaiting its result
  | done                               -- complete_release executed
  | lostCas                            -- begin_release returned False
deriving DecidableEq, Repr

/-- resumer `DBOSIdleReleaseExternalRunAdapter.send_event` (tick id = its index) -/
inductive UPc
  | absent | start
  | pass                   -- try_begin_resume returned None: will send to the running workflow
  | waiting                -- returned `releasing`: sleeps 0.5 s and retries
  | owner                  -- returned `released`: inside _do_resume
  | done
deriving DecidableEq, Repr

inductive Msg | tick (k : Nat) | idleRelease
deriving DecidableEq, Repr

/-- a CAS that changed the row (ghost) -/
inductive Win | created | release (i : Nat) | resume (k : Nat) (takeover : Bool)
deriving DecidableEq, Repr

def Win.isRelease : Win → Bool
  | .release _ => true
  | _ => false

/-- a resume that took over a row stuck in `releasing` (ghost record) -/
structure Takeover where
  releaser : Nat       -- whose release was superseded
  began : Nat          -- time of its begin_release
  at_ : Nat            -- time of the takeover
  wasCrashed : Bool    -- the releaser had crashed by then
deriving DecidableEq, Repr

structure Sys where
  db : DB := none
  now : Nat := 0
  rel : Nat → RPc := fun _ => .absent
  res : Nat → UPc := fun _ => .absent
  crashed : Nat → Bool := fun _ => false
  wfUp : Bool := true              -- a DBOS workflow for this run id is executing
  wfInc : Nat := 0                 -- its incarnation
  inbox : List Msg := []           -- messages sent to the executing (or last) workflow, not yet consumed
  processed : List Nat := []       -- ticks the run has reduced (persisted in the tick log)
  stranded : List Nat := []        -- ticks sent to a workflow that had exited; purged by the next resume
  -- ghosts
  wins : List Win := []            -- row-changing CAS wins, newest first
  holder : Option Nat := none      -- the releaser whose `releasing` the row currently shows
  takeovers : List Takeover := []
  busyStops : Nat := 0             -- workflows that exited on TickIdleRelease with ticks still in the inbox

inductive BAct
  | tick (dt : Nat)
  | create                 -- the start hook that would insert the row (never called by the production code)
  | rSpawn (i : Nat) | rBegin (i : Nat) | rSend (i : Nat) | rComplete (i : Nat) | rCrash (i : Nat)
  | uSpawn (k : Nat) | uTry (k : Nat) | uSend (k : Nat) | uFinish (k : Nat)
  | wfStep                 -- the workflow consumes the head of its inbox
deriving DecidableEq, Repr

def crashTimeout : Nat := GenLifecycle.crashTimeoutMs

def bstep (s : Sys) : BAct → Option Sys
  | .tick dt => some { s with now := s.now + dt }
  | .create => if s.db.isNone then some { s with db := dbCreate s.db s.now, wins := .created :: s.wins } else none
  | .rSpawn i => if s.rel i == .absent then some { s with rel := upd s.rel i .start } else none
  | .rBegin i =>
    if s.rel i == .start && !s.crashed i then
      let r := dbBeginRelease s.db s.now
      if r.2 then some { s with db := r.1, rel := upd s.rel i (.won s.now), wins := .release i :: s.wins, holder := some i }
      else some { s with rel := upd s.rel i .lostCas }
    else none
  | .rSend i =>
    match s.rel i with
    | .won t =>
      if s.crashed i then none
      else some { s with rel := upd s.rel i (.sentRelease t s.wfInc), inbox := s.inbox ++ [.idleRelease] }
    | _ => none
  | .rComplete i =>
    match s.rel i with
    | .sentRelease _ inc =>
      -- `await external.get_result()` returns once the workflow it released has exited
      if s.crashed i || (inc == s.wfInc && s.wfUp) then none else
      some { s with db := dbCompleteRelease s.db s.now, rel := upd s.rel i .done,
                    holder := if s.holder = some i then none else s.holder }
    | _ => none
  | .rCrash i =>
    match s.rel i with
    | .won _ => some { s with crashed := upd s.crashed i true }
    | .sentRelease _ _ => some { s with crashed := upd s.crashed i true }
    | .start => some { s with crashed := upd s.crashed i true }
    | _ => none
  | .uSpawn k => if s.res k == .absent then some { s with res := upd s.res k .start } else none
  | .uTry k =>
    if s.res k == .start || s.res k == .waiting then
      let r := dbTryBeginResume s.db s.now (some crashTimeout)
      match r.2 with
      | none => some { s with res := upd s.res k .pass }
      | some .released =>
        let take := match s.db with | some row => decide (row.st = .releasing) | none => false
        some { s with db := r.1, res := upd s.res k .owner, wins := .resume k take :: s.wins,
                      holder := none,
                      takeovers := match take, s.holder, s.db with
                        | true, some i, some row => { releaser := i, began := row.upd, at_ := s.now, wasCrashed := s.crashed i } :: s.takeovers
                        | _, _, _ => s.takeovers }
      | some _ => some { s with res := upd s.res k .waiting }
    else none
  | .uSend k =>
    -- `await self._decorated.send_event(tick)` after try_begin_resume returned None
    if s.res k == .pass then
      if s.wfUp then some { s with res := upd s.res k .done, inbox := s.inbox ++ [.tick k] }
      else some { s with res := upd s.res k .done, stranded := s.stranded ++ [k] }
    else none
  | .uFinish k =>
    -- _do_resume: awaits the old workflow's result (assumption OldWorkflowFinished: the code logs and
    -- continues if the handle cannot be retrieved), purges its DBOS state, rebuilds from the tick log
    -- plus the pending tick, starts a new workflow under the same run id
    if s.res k == .owner && !s.wfUp then
      some { s with res := upd s.res k .done, wfUp := true, wfInc := s.wfInc + 1,
                    stranded := s.stranded ++ s.inbox.filterMap (fun m => match m with | .tick t => some t | .idleRelease => none),
                    inbox := [.tick k] }
    else none
  | .wfStep =>
    if !s.wfUp then none else
    match s.inbox with
    | .tick t :: m => some { s with inbox := m, processed := s.processed ++ [t] }
    | .idleRelease :: m =>
      -- TickIdleRelease: CommandCompleteRun(IdleReleasedEvent), unconditionally
      some { s with inbox := m, wfUp := false, busyStops := s.busyStops + (if m.isEmpty then 0 else 1) }
    | [] => none

def bstepD (s : Sys) (a : BAct) : Sys := (bstep s a).getD s
def brun (s : Sys) (acts : List BAct) : Sys := acts.foldl bstepD s

/-- CAS wins alternate between release wins and activating wins (create / resume) -/
def altWins : List Win → Bool
  | a :: b :: rest => (a.isRelease != b.isRelease) && altWins (b :: rest)
  | _ => true

/-- every live releaser that holds the `releasing` state is younger than the crash timeout -/
def promptAt (s : Sys) (_ : BAct) : Bool :=
  match s.holder, s.db with
  | some i, some row => s.crashed i || !(row.st == .releasing) || !GenLifecycle.crashExpired (s.now - row.upd) crashTimeout
  | _, _ => true

def balongB (p : Sys → BAct → Bool) : Sys → List BAct → Bool
  | _, [] => true
  | s, a :: as => p s a && balongB p (bstepD s a) as

end Lifecycle
