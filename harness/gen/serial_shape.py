"""What `ctx.to_dict()` writes and `Context.from_dict` reads back -> lean/WfModel/GenSerialShape.lean (C12).

Re-read from /repo's current sources on every run:

* `runtime/types/internal_state.py`: the keyword arguments (name=expression) of every record `to_serialized` writes (queue
  entry, in-progress entry, waiter, per-step record, context) and of every object `from_serialized` builds (queue entry, the
  entry made of an in-progress event and the list method that places it, waiter), the guard that skips unknown steps, the
  `is_running` hand-over; the dataclass fields of `EventAttempt` and `InProgressState`;
* `runtime/types/results.py`: the dataclass fields of `StepWorkerWaiter`;
* `context/context_types.py`: fields and defaults of the four `Serialized*` models, the version test of `from_dict_auto`,
  the legacy `requirements` validator, and the facts of `from_v0` (what a V0 step record is made of, in which order, under
  which buffer id, which names are skipped);
* `context/pre_context.py`: the statements of the `try:` block of `PreContext.__init__` and its `except` clauses;
* `context/context.py`: where `_workflow_run` computes the initial state from and what `from_dict` builds.

`C12_source_shape` (WfProps/C12.lean) pins all of them next to the model equations they justify; an edit of any of these
places (a field added to `EventAttempt` but not written, the version bumped on one side only, in-progress entries written
with retry info, ...) stops the theorem from checking.  Untranslatable shapes produce `"<missing>"` and a note.
"""
from __future__ import annotations

import ast

from ..boot import repo_path

LEAN_MODULE = "GenSerialShape"
BASE = "packages/llama-index-workflows/src/workflows/"
IS = BASE + "runtime/types/internal_state.py"
RS = BASE + "runtime/types/results.py"
CT = BASE + "context/context_types.py"
PC = BASE + "context/pre_context.py"
CX = BASE + "context/context.py"
MISSING = "<missing>"


def _lean_str(s: str) -> str:
    return '"' + s.replace("\\", "\\\\").replace('"', '\\"').replace("\n", " ") + '"'


def _lst(xs: list[str]) -> str:
    return "[" + ", ".join(_lean_str(x) for x in xs) + "]"


def _parse(rel: str) -> ast.Module | None:
    try:
        return ast.parse(open(repo_path(rel)).read())
    except (OSError, SyntaxError):
        return None


def _find(tree: ast.AST | None, name: str, kinds: tuple = (ast.FunctionDef, ast.AsyncFunctionDef, ast.ClassDef)) -> ast.AST | None:
    if tree is None:
        return None
    for n in ast.walk(tree):
        if isinstance(n, kinds) and getattr(n, "name", None) == name:
            return n
    return None


def _calls(node: ast.AST | None, callee: str) -> list[ast.Call]:
    """calls of `callee(...)` (a bare name or the last attribute) inside `node`, in source order"""
    if node is None:
        return []
    out = []
    for n in ast.walk(node):
        if isinstance(n, ast.Call):
            f = n.func
            nm = f.id if isinstance(f, ast.Name) else f.attr if isinstance(f, ast.Attribute) else None
            if nm == callee:
                out.append(n)
    out.sort(key=lambda c: (c.lineno, c.col_offset))
    return out


def _kwargs(c: ast.Call | None) -> list[str]:
    if c is None:
        return [MISSING]
    out = [ast.unparse(a) for a in c.args]
    out += [f"{k.arg}={ast.unparse(k.value)}" if k.arg else "**" + ast.unparse(k.value) for k in c.keywords]
    return out


def _fields(cls: ast.AST | None) -> list[str]:
    """annotated class-level fields `name` / `name=default`, in order"""
    if not isinstance(cls, ast.ClassDef):
        return [MISSING]
    out = []
    for st in cls.body:
        if isinstance(st, ast.AnnAssign) and isinstance(st.target, ast.Name):
            out.append(st.target.id if st.value is None else f"{st.target.id}={ast.unparse(st.value)}")
    return out


def _names(fields: list[str]) -> list[str]:
    return [f.split("=", 1)[0] for f in fields]


def _skeleton(body: list[ast.stmt]) -> list[str]:
    out: list[str] = []
    for st in body:
        if isinstance(st, ast.Expr) and isinstance(st.value, ast.Constant) and isinstance(st.value.value, str):
            continue
        if isinstance(st, ast.If):
            out.append("if " + ast.unparse(st.test))
            out += _skeleton(st.body)
            if st.orelse:
                out.append("else")
                out += _skeleton(st.orelse)
            out.append("endif")
        elif isinstance(st, (ast.For, ast.AsyncFor)):
            out.append("for " + ast.unparse(st.target) + " in " + ast.unparse(st.iter))
            out += _skeleton(st.body)
            out.append("endfor")
        elif isinstance(st, ast.Try):
            out.append("try")
            out += _skeleton(st.body)
            for h in st.handlers:
                out.append("except " + (ast.unparse(h.type) if h.type is not None else ""))
                out += _skeleton(h.body)
            out.append("endtry")
        else:
            out.append(ast.unparse(st))
    return out


def _int_const(n: ast.AST | None) -> int | None:
    if isinstance(n, ast.Constant) and isinstance(n.value, int) and not isinstance(n.value, bool):
        return n.value
    return None


def _kw(c: ast.Call | None, name: str) -> ast.AST | None:
    if c is None:
        return None
    for k in c.keywords:
        if k.arg == name:
            return k.value
    return None


def generate(notes: list[str]) -> list[str]:
    def note(what: str) -> None:
        notes.append("translate: gen/serial_shape: " + what)

    L: list[str] = ["namespace GenSerialShape", ""]

    def emit_list(name: str, doc: str, xs: list[str]) -> None:
        if MISSING in xs or not xs:
            note(f"{name}: expected shape not found")
        L.append(f"/-- {doc} -/")
        L.append(f"def {name} : List String := {_lst(xs)}")

    def emit_str(name: str, doc: str, s: str | None) -> None:
        if s is None:
            note(f"{name}: expected shape not found")
            s = MISSING
        L.append(f"/-- {doc} -/")
        L.append(f"def {name} : String := {_lean_str(s)}")

    def emit_int(name: str, doc: str, v: int | None) -> None:
        L.append(f"/-- {doc} -/")
        if v is None:
            note(f"{name}: expected an integer literal")
            L.append(f"def {name} : String := {_lean_str(MISSING)}")
        else:
            L.append(f"def {name} : Int := {v}")

    ist = _parse(IS)
    bs = _find(ist, "BrokerState", (ast.ClassDef,))
    to_ser = _find(bs, "to_serialized")
    from_ser = _find(bs, "from_serialized")

    # ---- to_serialized
    c = _calls(to_ser, "SerializedEventAttempt")
    emit_list("queueWritten", "`to_serialized`: the record written for a queue entry", _kwargs(c[0] if len(c) == 1 else None))
    ip_expr = None
    ip_over = None
    if to_ser is not None:
        for n in ast.walk(to_ser):
            if isinstance(n, ast.Assign) and len(n.targets) == 1 and isinstance(n.targets[0], ast.Name) and n.targets[0].id == "in_progress" \
                    and isinstance(n.value, ast.ListComp) and len(n.value.generators) == 1 and not n.value.generators[0].ifs:
                g = n.value.generators[0]
                tn = g.target.id if isinstance(g.target, ast.Name) else None
                elt = ast.parse(ast.unparse(n.value.elt), mode="eval").body
                for m in ast.walk(elt):
                    if isinstance(m, ast.Name) and m.id == tn:
                        m.id = "x"
                ip_expr = ast.unparse(elt)
                ip_over = ast.unparse(g.iter)
    emit_str("inProgressWritten", "`to_serialized`: what is written for an in-progress invocation `x`", ip_expr)
    emit_str("inProgressWrittenOver", "`to_serialized`: the list the in-progress entries are taken from", ip_over)
    c = _calls(to_ser, "SerializedWaiter")
    emit_list("waiterWritten", "`to_serialized`: the record written for a waiter", _kwargs(c[0] if len(c) == 1 else None))
    c = _calls(to_ser, "SerializedStepWorkerState")
    emit_list("stepWritten", "`to_serialized`: the per-step record", _kwargs(c[0] if len(c) == 1 else None))
    c = _calls(to_ser, "SerializedContext")
    ctxc = c[0] if len(c) == 1 else None
    emit_list("contextWritten", "`to_serialized`: the context record", _kwargs(ctxc))
    emit_int("writtenVersion", "`to_serialized`: the version marker written", _int_const(_kw(ctxc, "version")))
    over = None
    if to_ser is not None:
        fors = [n for n in to_ser.body if isinstance(n, ast.For)]  # type: ignore[attr-defined]
        if len(fors) == 1:
            over = ast.unparse(fors[0].iter)
    emit_str("stepsWrittenOver", "`to_serialized`: the steps written", over)

    # ---- from_serialized
    c = _calls(from_ser, "EventAttempt")
    emit_list("queueRead", "`from_serialized`: the queue entry rebuilt from a written one", _kwargs(c[0] if len(c) == 2 else None))
    emit_list("requeued", "`from_serialized`: the queue entry made of an in-progress event", _kwargs(c[1] if len(c) == 2 else None))
    via = None
    over = None
    if from_ser is not None and len(c) == 2:
        for n in ast.walk(from_ser):
            if isinstance(n, ast.For) and any(c[1] is m for m in ast.walk(n)) and not any(isinstance(m, ast.For) and m is not n and any(c[1] is q for q in ast.walk(m)) for m in ast.walk(n)):
                over = ast.unparse(n.iter)
                for m in ast.walk(n):
                    if isinstance(m, ast.Call) and c[1] in m.args and isinstance(m.func, ast.Attribute):
                        via = ast.unparse(m.func)
    emit_str("requeuedVia", "`from_serialized`: how that entry is placed (after the restored queue)", via)
    emit_str("requeuedOver", "`from_serialized`: the events it is made for", over)
    c = _calls(from_ser, "StepWorkerWaiter")
    emit_list("waiterRead", "`from_serialized`: the waiter rebuilt from a written one", _kwargs(c[0] if len(c) == 1 else None))
    guard = None
    running = None
    assigns: list[str] = []
    if from_ser is not None:
        for n in ast.walk(from_ser):
            if isinstance(n, ast.If) and len(n.body) == 1 and isinstance(n.body[0], ast.Continue):
                guard = ast.unparse(n.test)
            if isinstance(n, ast.Assign) and len(n.targets) == 1 and isinstance(n.targets[0], ast.Attribute):
                t = ast.unparse(n.targets[0])
                if t.endswith(".is_running"):
                    running = t + " = " + ast.unparse(n.value)
                elif t.startswith("worker."):
                    assigns.append(t)
    emit_str("unknownStepSkipped", "`from_serialized`: the test under which a written step is ignored", guard)
    emit_str("runningRestored", "`from_serialized`: the running flag", running)
    emit_list("workerAssigned", "`from_serialized`: the attributes of a step's state that are assigned, in order", assigns or [MISSING])

    # ---- dataclasses
    emit_list("eventAttemptFields", "fields of `EventAttempt`", _names(_fields(_find(ist, "EventAttempt", (ast.ClassDef,)))))
    emit_list("inProgressFields", "fields of `InProgressState`", _names(_fields(_find(ist, "InProgressState", (ast.ClassDef,)))))
    emit_list("waiterFields", "fields of `StepWorkerWaiter`", _names(_fields(_find(_parse(RS), "StepWorkerWaiter", (ast.ClassDef,)))))

    # ---- which fields survive
    def kwnames(c: ast.Call | None) -> list[str]:
        return [MISSING] if c is None else [k.arg or "**" for k in c.keywords]

    cw = _calls(to_ser, "SerializedEventAttempt")
    cr = _calls(from_ser, "EventAttempt")
    emit_list("queueWrittenNames", "`to_serialized`: the fields written for a queue entry", kwnames(cw[0] if len(cw) == 1 else None))
    emit_list("queueReadNames", "`from_serialized`: the fields given to a rebuilt queue entry", kwnames(cr[0] if len(cr) == 2 else None))
    ipf = _names(_fields(_find(ist, "InProgressState", (ast.ClassDef,))))
    used = set()
    if ip_expr is not None:
        for n in ast.walk(ast.parse(ip_expr, mode="eval")):
            if isinstance(n, ast.Attribute) and isinstance(n.value, ast.Name) and n.value.id == "x":
                used.add(n.attr)
    emit_list("inProgressDropped", "fields of `InProgressState` that `to_serialized` does not write",
              [MISSING] if ip_expr is None or MISSING in ipf else ([f for f in ipf if f not in used] or ["<none>"]))
    ww = _calls(to_ser, "SerializedWaiter")
    wr_ = _calls(from_ser, "StepWorkerWaiter")
    wf = _names(_fields(_find(_parse(RS), "StepWorkerWaiter", (ast.ClassDef,))))
    wwn = kwnames(ww[0] if len(ww) == 1 else None)
    emit_list("waiterNotWritten", "fields of `StepWorkerWaiter` for which `to_serialized` writes no field of that name",
              [MISSING] if MISSING in wf or MISSING in wwn else ([f for f in wf if f not in wwn] or ["<none>"]))
    emit_list("waiterReadNames", "`from_serialized`: the fields given to a rebuilt waiter", kwnames(wr_[0] if len(wr_) == 1 else None))

    # ---- context_types
    ct = _parse(CT)
    for cls, nm in (("SerializedEventAttempt", "serializedAttemptFields"), ("SerializedWaiter", "serializedWaiterFields"),
                    ("SerializedStepWorkerState", "serializedStepFields"), ("SerializedContext", "serializedContextFields")):
        fs = [f for f in _fields(_find(ct, cls, (ast.ClassDef,))) if not f.startswith("model_config")]
        emit_list(nm, f"fields and defaults of `{cls}`", fs)
    sc = _find(ct, "SerializedContext", (ast.ClassDef,))
    fda = _find(sc, "from_dict_auto")
    test = None
    dv = None
    if fda is not None:
        ifs = [n for n in fda.body if isinstance(n, ast.If)]  # type: ignore[attr-defined]
        if len(ifs) == 1:
            test = ast.unparse(ifs[0].test)
            for n in ast.walk(ifs[0].test):
                if isinstance(n, ast.Compare) and len(n.ops) == 1 and isinstance(n.ops[0], ast.Eq):
                    dv = _int_const(n.comparators[0])
    emit_str("dispatchTest", "`from_dict_auto`: the test under which a dict is read in the current format", test)
    emit_int("dispatchVersion", "`from_dict_auto`: the version that test accepts", dv)
    emit_list("dispatchSkeleton", "`from_dict_auto`: the statements", _skeleton(fda.body) if fda is not None else [MISSING])  # type: ignore[attr-defined]
    dfl = None
    for f in _fields(sc):
        if f.startswith("version="):
            try:
                call = ast.parse(f.split("=", 1)[1], mode="eval").body
                dfl = _int_const(_kw(call, "default")) if isinstance(call, ast.Call) else _int_const(call)
            except SyntaxError:
                dfl = None
    emit_int("defaultVersion", "`SerializedContext.version`: the default", dfl)
    dr = _find(_find(ct, "SerializedWaiter", (ast.ClassDef,)), "deserialize_requirements")
    emit_list("legacyRequirements", "`SerializedWaiter.deserialize_requirements`: the statements", _skeleton(dr.body) if dr is not None else [MISSING])  # type: ignore[attr-defined]

    # ---- from_v0
    fv0 = _find(sc, "from_v0")
    facts: list[str] = []
    if fv0 is not None:
        loop = next((n for n in fv0.body if isinstance(n, ast.For)), None)  # type: ignore[attr-defined]
        names = None
        for n in fv0.body:  # type: ignore[attr-defined]
            if isinstance(n, ast.Assign) and isinstance(n.targets[0], ast.Name) and n.targets[0].id == "all_step_names":
                names = ast.unparse(n.value)
        facts.append("names:" + (names or MISSING))
        if loop is not None:
            for st in loop.body:
                if isinstance(st, ast.If) and len(st.body) == 1 and isinstance(st.body[0], ast.Continue):
                    facts.append("skip:" + ast.unparse(st.test))
                elif isinstance(st, ast.If):
                    made = _calls(st, "SerializedEventAttempt")
                    tgt = [ast.unparse(m.func) for m in ast.walk(st) if isinstance(m, ast.Call) and isinstance(m.func, ast.Attribute)
                           and m.func.attr in ("append", "extend", "insert") and m.args and not isinstance(m.args[0], ast.Name)]
                    if made:
                        facts.append("queue-from:" + ast.unparse(st.test) + " -> " + ",".join(_kwargs(made[0])) + " via " + ",".join(sorted(set(tgt))))
                    else:
                        keys = [ast.unparse(m.slice) for m in ast.walk(st) if isinstance(m, ast.Subscript) and isinstance(m.ctx, ast.Store)]
                        inner = [ast.unparse(m.iter) for m in ast.walk(st) if isinstance(m, ast.For)]
                        tests = [ast.unparse(m.test) for m in ast.walk(st) if isinstance(m, ast.If) and m is not st]
                        facts.append("buffers-from:" + ast.unparse(st.test) + " over " + ",".join(inner) + " if " + ",".join(tests) + " key " + ",".join(keys))
                elif isinstance(st, ast.Assign) and _calls(st, "SerializedStepWorkerState"):
                    facts.append("step:" + ",".join(_kwargs(_calls(st, "SerializedStepWorkerState")[0])))
        ret = _calls(fv0, "SerializedContext")
        facts.append("context:" + ",".join(_kwargs(ret[0] if ret else None)))
    emit_list("fromV0Facts", "`from_v0`: names converted, names skipped, what the queue and the buffer of a step are made of (in order), the record", facts or [MISSING])

    # ---- pre_context / context
    pc = _find(_find(_parse(PC), "PreContext", (ast.ClassDef,)), "__init__")
    sk: list[str] = [MISSING]
    if pc is not None:
        for n in ast.walk(pc):
            if isinstance(n, ast.Try):
                sk = _skeleton([n])
    emit_list("preContextParse", "`PreContext.__init__`: parsing and synchronous validation of a previous context", sk)
    cx = _find(_parse(CX), "Context", (ast.ClassDef,))
    wr = _find(cx, "_workflow_run")
    init = None
    if wr is not None:
        for n in ast.walk(wr):
            if isinstance(n, ast.Assign) and isinstance(n.targets[0], ast.Name) and n.targets[0].id == "init_state":
                init = ast.unparse(n.value)
    emit_str("runInitialState", "`Context._workflow_run`: where the initial broker state comes from", init)
    fd = _find(cx, "from_dict")
    emit_list("fromDictBody", "`Context.from_dict`: the statements", _skeleton(fd.body) if fd is not None else [MISSING])  # type: ignore[attr-defined]
    ec = _find(_find(_parse(BASE + "context/external_context.py"), "ExternalContext", (ast.ClassDef,)), "to_dict")
    emit_list("toDictBody", "`ExternalContext.to_dict`: the statements", _skeleton(ec.body) if ec is not None else [MISSING])  # type: ignore[attr-defined]

    L += ["", "end GenSerialShape"]
    return L
