import Driver.Util
import Driver.DeployId
import Driver.Engine
import Driver.Policy
import Driver.PolicyTree
import Driver.Handlers
import Driver.Version
import Driver.Validate
import Driver.ValidateCache
import Driver.KeyedLock
import Driver.CliConfig
import Driver.RunLimit
import Driver.IterUtils
import Driver.HandlerStore
import Driver.Migrate
import Driver.Archive
import Driver.SseClient
import Driver.Resource
import Driver.SqliteConn
import Driver.StateStore
import Driver.StateStoreHist
import Driver.Timers
import Driver.Journal
import Driver.Replay
import Driver.EventLog
import Driver.Lifecycle
import Driver.HandlerStatus
import Driver.EventSerial
import Driver.StreamGate
import Driver.DbosTimer
import Driver.SerialCtx
import Driver.Slots
import Driver.WorkerCleanup

def main (args : List String) : IO UInt32 := do
  let stdin ← IO.getStdin
  match args with
  | ["deployid"] => Drv.loop stdin Drv.DeployId.step (); return 0
  | ["engine"] => Drv.loop stdin Drv.Engine.step {}; return 0
  | ["slots"] => Drv.loop stdin Drv.Slots.step {}; return 0
  | ["policy"] => Drv.loop stdin Drv.Policy.step (); return 0
  | ["policytree"] => Drv.loop stdin Drv.PolicyTree.step (); return 0
  | ["handlers"] => Drv.loop stdin Drv.Handlers.step (); return 0
  | ["version"] => Drv.loop stdin Drv.Version.step (); return 0
  | ["validate"] => Drv.loop stdin Drv.Validate.step (); return 0
  | ["validatecache"] => Drv.loop stdin Drv.ValidateCache.step {}; return 0
  | ["keyedlock"] => Drv.loop stdin Drv.KeyedLock.step {}; return 0
  | ["cliconfig"] => Drv.loop stdin Drv.CliConfig.step (CliConfig.init CliConfig.srcCfg); return 0
  | ["runlimit"] => Drv.loop stdin Drv.RunLimit.step {}; return 0
  | ["iterutils"] => Drv.loop stdin Drv.IterUtils.step .none; return 0
  | ["handlerstore"] => Drv.loop stdin Drv.HandlerStore.step (HandlerStore.Store.init (.mem none)); return 0
  | ["migrate"] => Drv.loop stdin Drv.Migrate.step (Migrate.fresh, []); return 0
  | ["archive"] => Drv.loop stdin Drv.Archive.step (); return 0
  | ["sseclient"] => Drv.loop stdin Drv.SseClient.step (); return 0
  | ["resource"] => Drv.loop stdin Drv.Resource.step {}; return 0
  | ["sqliteconn"] => Drv.loop stdin Drv.SqliteConn.step {}; return 0
  | ["statestore"] => Drv.loop stdin Drv.StateStore.step {}; return 0
  | ["statestorehist"] => Drv.loop stdin Drv.StateStoreHist.step {}; return 0
  | ["timers"] => Drv.loop stdin Drv.Timers.step {}; return 0
  | ["journal"] => Drv.loop stdin Drv.Journal.step {}; return 0
  | ["replay"] => Drv.loop stdin Drv.Replay.step {}; return 0
  | ["eventlog"] => Drv.loop stdin Drv.EventLog.step {}; return 0
  | ["lifecycle"] => Drv.loop stdin Drv.Lifecycle.step {}; return 0
  | ["handlerstatus"] => Drv.loop stdin Drv.HandlerStatus.step {}; return 0
  | ["eventserial"] => Drv.loop stdin Drv.EventSerial.step {}; return 0
  | ["streamgate"] => Drv.loop stdin Drv.StreamGate.step {}; return 0
  | ["dbostimer"] => Drv.loop stdin Drv.DbosTimer.step []; return 0
  | ["serialctx"] => Drv.loop stdin Drv.SerialCtx.step {}; return 0
  | ["workercleanup"] => Drv.loop stdin Drv.WorkerCleanup.step (); return 0
  | _ => IO.eprintln "usage: wfdriver <model>"; return 2
