import WfProofs.IterUtilsMergeThm
import WfProofs.IterUtilsSort
/-! Invariants of the `debounced_sorted_prefix` transition system (helper lemmas for C29). -/
namespace IterUtils
open Merge

/-- items among a list of merged tokens -/
def vals (out : List (Nat × Tok β)) : List β := out.filterMap (fun p => p.2.val?)

theorem vals_append (a b : List (Nat × Tok β)) : vals (a ++ b) = vals a ++ vals b := by
  simp [vals]

/-- consumer-loop invariant, relative to the merged tokens `out` consumed so far -/
structure ConsInv (key : β → Nat) (mode : PassMode) (fired flushed early : Bool) (buffer dout : List β)
    (burst : Nat) (out : List (Nat × Tok β)) : Prop where
  flushedOut : flushed = true ↔ ∃ p ∈ out, p.2 = Tok.marker
  flushedFired : flushed = true → fired = true
  perm : (dout ++ buffer).Perm (vals out)
  flushBuf : mode ≠ .unknown → flushed = true → buffer = []
  order : mode ≠ .unknown → early = false →
    (flushed = false → dout = [] ∧ buffer = vals out) ∧
    (flushed = true → burst ≤ (vals out).length ∧
      dout = sortByKey key ((vals out).take burst) ++ (vals out).drop burst)
  earlyMode : mode = .onMarkerConsumed → early = false

def Dsp.cons (key : β → Nat) (s : Dsp β) (out : List (Nat × Tok β)) : Prop :=
  ConsInv key s.mode s.fired s.flushed s.early s.buffer s.dout s.burst out

theorem consume_inv (key : β → Nat) (s : Dsp β) (out : List (Nat × Tok β)) (i : Nat) (tok : Tok β)
    (hc : s.cons key out) (hout : s.m.out = out ++ [(i, tok)])
    (hfire : tok = .marker → s.fired = true) :
    (Dsp.consume key s tok).1.cons key (out ++ [(i, tok)]) := by
  obtain ⟨c1, c2, c3, c4, c5, c6⟩ := hc
  cases tok with
  | marker =>
    have harr : s.arrived = vals out := by
      simp [Dsp.arrived, hout, vals, Tok.val?]
    have hv : vals (out ++ [(i, (Tok.marker : Tok β))]) = vals out := by simp [vals, Tok.val?]
    simp only [Dsp.consume, Dsp.cons, harr]
    constructor <;> (try simp only [hv])
    · simp
    · intro _; exact hfire rfl
    · simp only [List.append_nil]
      exact (List.Perm.append_left _ (sortByKey_perm key s.buffer)).trans c3
    · intro _ _; trivial
    · intro hm he
      refine ⟨fun h => by simp at h, fun _ => ?_⟩
      cases hf : s.flushed with
      | false =>
        obtain ⟨h1, h2⟩ := (c5 hm he).1 hf
        simp [h1, h2]
      | true =>
        obtain ⟨h1, h2⟩ := (c5 hm he).2 hf
        have hb := c4 hm hf
        simp [hb, sortByKey, h1, ← h2]
    · exact c6
  | val x =>
    have hv : vals (out ++ [(i, Tok.val x)]) = vals out ++ [x] := by simp [vals, Tok.val?]
    have hnp : s.passes = false → s.mode ≠ .unknown → s.flushed = true → False := by
      intro hp hm hf
      have hfi := c2 hf
      simp only [Dsp.passes] at hp
      cases hmode : s.mode <;> simp_all
    simp only [Dsp.consume]
    split
    · rename_i hp
      simp only [Dsp.cons]
      constructor <;> (try simp only [hv])
      · rw [c1]; simp
      · exact c2
      · have : (s.dout ++ [x] ++ s.buffer).Perm ((s.dout ++ s.buffer) ++ [x]) := by
          simp only [List.append_assoc]
          exact List.Perm.append_left _ List.perm_append_comm
        exact this.trans (List.Perm.append_right _ c3)
      · exact c4
      · intro hm he
        simp only [Bool.or_eq_false_iff, Bool.not_eq_false'] at he
        obtain ⟨he, hf⟩ := he
        refine ⟨fun h => by simp [hf] at h, fun _ => ?_⟩
        obtain ⟨h1, h2⟩ := (c5 hm he).2 hf
        refine ⟨by simp; omega, ?_⟩
        rw [List.take_append_of_le_length h1, List.drop_append_of_le_length h1, h2]
        simp
      · intro hm
        have he := c6 hm
        simp only [Dsp.passes, hm] at hp
        simp [he, hp]
    · rename_i hp
      have hp : s.passes = false := by simpa using hp
      simp only [Dsp.cons]
      constructor <;> (try simp only [hv])
      · rw [c1]; simp
      · exact c2
      · rw [← List.append_assoc]; exact List.Perm.append_right _ c3
      · intro hm hf; exact (hnp hp hm hf).elim
      · intro hm he
        refine ⟨fun hf => ?_, fun hf => (hnp hp hm hf).elim⟩
        obtain ⟨h1, h2⟩ := (c5 hm he).1 hf
        exact ⟨h1, by rw [h2]⟩
      · exact c6

/-- environment invariant: the merge, the debouncer flags and the tags of produced tokens -/
structure EnvInv (m : Merge (Tok β)) (marked fired : Bool) : Prop where
  minv : MInv m
  stopF : m.stopFirst = Gen.dspMergeStop
  len : m.slots.length = Gen.dspSources
  tags : ∀ p ∈ m.hist, (p.1 = 0 ∧ ∃ x, p.2 = Tok.val x) ∨ p = (1, Tok.marker)
  histMarked : marked = true → (1, Tok.marker) ∈ m.hist
  markedHist : (∃ p ∈ m.hist, p.2 = Tok.marker) → marked = true
  markedFired : marked = true → fired = true
  endsMarked : 1 ∈ m.ends → marked = true

structure DInv (key : β → Nat) (s : Dsp β) : Prop where
  env : EnvInv s.m s.marked s.fired
  cons : s.cons key s.m.out

theorem afterMerge_inv (key : β → Nat) (s : Dsp β) (out : List (Nat × Tok β))
    (m' : Merge (Tok β)) (em : Option (Nat × Tok β))
    (henv : EnvInv m' s.marked s.fired) (hc : s.cons key out) (hout : m'.out = out ++ em.toList) :
    DInv key (Dsp.afterMerge key s (m', em)).1 := by
  cases em with
  | none =>
    simp only [Dsp.afterMerge]
    refine ⟨henv, ?_⟩
    simp only [Option.toList, List.append_nil] at hout
    simpa [Dsp.cons, hout] using hc
  | some p =>
    obtain ⟨i, tok⟩ := p
    simp only [Dsp.afterMerge]
    simp only [Option.toList] at hout
    have hfire : tok = .marker → s.fired = true := by
      intro ht
      subst ht
      have hmem : (i, (Tok.marker : Tok β)) ∈ m'.out := by rw [hout]; simp
      have hh := mem_hist_of_mem_out henv.minv hmem
      exact henv.markedFired (henv.markedHist ⟨_, hh, rfl⟩)
    have hci := consume_inv key { s with m := m' } out i tok hc hout hfire
    have hm : (Dsp.consume key { s with m := m' } tok).1.m = m' := by
      cases tok <;> simp only [Dsp.consume] <;> (try split) <;> rfl
    have hmk : (Dsp.consume key { s with m := m' } tok).1.marked = s.marked := by
      cases tok <;> simp only [Dsp.consume] <;> (try split) <;> rfl
    have hfi : (Dsp.consume key { s with m := m' } tok).1.fired = s.fired := by
      cases tok <;> simp only [Dsp.consume] <;> (try split) <;> rfl
    refine ⟨by rw [hm, hmk, hfi]; exact henv, ?_⟩
    rw [hm, hout]
    exact hci

end IterUtils

namespace IterUtils
open Merge

theorem env_step {m m' : Merge (Tok β)} {a : Act (Tok β)} {em : Option (Nat × Tok β)}
    {marked fired marked' fired' : Bool}
    (h : EnvInv m marked fired) (hs : m.step a = some (m', em))
    (hmk : marked = true → marked' = true) (hfi : marked' = true → fired' = true)
    (hprod : ∀ p, a.prodOf = some p →
      ((p.1 = 0 ∧ ∃ x, p.2 = Tok.val x) ∨ (p = (1, Tok.marker) ∧ marked' = true)))
    (hnew : marked' = true → marked = true ∨ a.prodOf = some (1, Tok.marker))
    (hfin : a.finOf = some 1 → marked' = true) : EnvInv m' marked' fired' := by
  obtain ⟨_, f2, _, f4, f5, f6⟩ := step_fields hs
  constructor
  · exact step_inv h.minv hs
  · rw [f5]; exact h.stopF
  · rw [f6]; exact h.len
  · intro p hp
    rw [f2, List.mem_append] at hp
    rcases hp with hp | hp
    · exact h.tags p hp
    · cases hq : a.prodOf with
      | none => simp [hq] at hp
      | some q =>
        simp only [hq, Option.toList, List.mem_singleton] at hp
        subst hp
        rcases hprod p hq with h1 | ⟨h1, _⟩
        · exact Or.inl h1
        · exact Or.inr h1
  · intro hm
    rw [f2, List.mem_append]
    rcases hnew hm with h1 | h1
    · exact Or.inl (h.histMarked h1)
    · right; simp [h1]
  · rintro ⟨p, hp, hpm⟩
    rw [f2, List.mem_append] at hp
    rcases hp with hp | hp
    · exact hmk (h.markedHist ⟨p, hp, hpm⟩)
    · cases hq : a.prodOf with
      | none => simp [hq] at hp
      | some q =>
        simp only [hq, Option.toList, List.mem_singleton] at hp
        subst hp
        rcases hprod p hq with ⟨_, x, hx⟩ | ⟨_, h1⟩
        · rw [hx] at hpm; simp at hpm
        · exact h1
  · exact hfi
  · intro he
    rw [f4, List.mem_append] at he
    rcases he with he | he
    · exact hmk (h.endsMarked he)
    · cases hq : a.finOf with
      | none => simp [hq] at he
      | some q =>
        simp only [hq, Option.toList, List.mem_singleton] at he
        subst he
        exact hfin hq

theorem init_dinv (key : β → Nat) (mode : PassMode) : DInv key (Dsp.init mode : Dsp β) := by
  constructor
  · constructor
    · exact init_inv _ _
    · rfl
    · simp [Dsp.init, Merge.init]
    · intro p hp; simp [Dsp.init, Merge.init] at hp
    · intro h; simp [Dsp.init] at h
    · rintro ⟨p, hp, _⟩; simp [Dsp.init, Merge.init] at hp
    · intro h; simp [Dsp.init] at h
    · intro h; simp [Dsp.init, Merge.init] at h
  · simp only [Dsp.cons, Dsp.init, Merge.init]
    constructor
    · simp
    · intro h; simp at h
    · simp [vals]
    · intro _ _; rfl
    · intro _ _
      exact ⟨fun _ => ⟨rfl, by simp [vals]⟩, fun h => by simp at h⟩
    · intro _; rfl

theorem dstep_inv (key : β → Nat) {s s' : Dsp β} {a : DAct β} {ys : List β} (h : DInv key s)
    (hs : s.step key a = some (s', ys)) : DInv key s' := by
  obtain ⟨henv, hcons⟩ := h
  cases a with
  | prod x =>
    simp only [Dsp.step, Option.map_eq_some_iff] at hs
    obtain ⟨⟨m', em⟩, hm, hr⟩ := hs
    have e := env_step (marked' := s.marked) (fired' := s.fired) henv hm id henv.markedFired
      (by intro p hp; simp only [Act.prodOf, Option.some.injEq] at hp; subst hp; exact Or.inl ⟨rfl, x, rfl⟩)
      (fun h => Or.inl h) (by intro h; simp [Act.finOf] at h)
    have := afterMerge_inv key s s.m.out m' em e hcons (step_fields hm).1
    rw [hr] at this; exact this
  | fin =>
    simp only [Dsp.step, Option.map_eq_some_iff] at hs
    obtain ⟨⟨m', em⟩, hm, hr⟩ := hs
    have e := env_step (marked' := s.marked) (fired' := s.fired) henv hm id henv.markedFired
      (by intro p hp; simp [Act.prodOf] at hp)
      (fun h => Or.inl h) (by intro h; simp [Act.finOf] at h)
    have := afterMerge_inv key s s.m.out m' em e hcons (step_fields hm).1
    rw [hr] at this; exact this
  | err e0 =>
    simp only [Dsp.step, Option.map_eq_some_iff] at hs
    obtain ⟨⟨m', em⟩, hm, hr⟩ := hs
    have e := env_step (marked' := s.marked) (fired' := s.fired) henv hm id henv.markedFired
      (by intro p hp; simp [Act.prodOf] at hp)
      (fun h => Or.inl h) (by intro h; simp [Act.finOf] at h)
    have := afterMerge_inv key s s.m.out m' em e hcons (step_fields hm).1
    rw [hr] at this; exact this
  | fire =>
    simp only [Dsp.step] at hs
    split at hs
    · simp at hs
    · simp only [Option.some.injEq, Prod.mk.injEq] at hs
      obtain ⟨rfl, _⟩ := hs
      constructor
      · obtain ⟨e1, e2, e3, e4, e5, e6, _, e8⟩ := henv
        exact ⟨e1, e2, e3, e4, e5, e6, fun _ => rfl, e8⟩
      · obtain ⟨c1, _, c3, c4, c5, c6⟩ := hcons
        exact ⟨c1, fun _ => rfl, c3, c4, c5, c6⟩
  | mark =>
    simp only [Dsp.step] at hs
    split at hs
    · rename_i hg
      simp only [Bool.and_eq_true, Bool.not_eq_true'] at hg
      simp only [Option.map_eq_some_iff] at hs
      obtain ⟨⟨m', em⟩, hm, hr⟩ := hs
      have e := env_step (marked' := true) (fired' := s.fired) henv hm (fun _ => rfl) (fun _ => hg.1)
        (by intro p hp; simp only [Act.prodOf, Option.some.injEq] at hp; subst hp; exact Or.inr ⟨rfl, rfl⟩)
        (fun _ => Or.inr rfl) (by intro h; simp [Act.finOf] at h)
      have := afterMerge_inv key { s with marked := true } s.m.out m' em e hcons (step_fields hm).1
      rw [hr] at this; exact this
    · simp at hs
  | dfin =>
    simp only [Dsp.step] at hs
    split at hs
    · rename_i hg
      simp only [Option.map_eq_some_iff] at hs
      obtain ⟨⟨m', em⟩, hm, hr⟩ := hs
      have e := env_step (marked' := s.marked) (fired' := s.fired) henv hm id henv.markedFired
        (by intro p hp; simp [Act.prodOf] at hp)
        (fun h => Or.inl h) (fun _ => hg)
      have := afterMerge_inv key s s.m.out m' em e hcons (step_fields hm).1
      rw [hr] at this; exact this
    · simp at hs
  | batch order =>
    simp only [Dsp.step, Option.map_eq_some_iff] at hs
    obtain ⟨⟨m', em⟩, hm, hr⟩ := hs
    have e := env_step (marked' := s.marked) (fired' := s.fired) henv hm id henv.markedFired
      (by intro p hp; simp [Act.prodOf] at hp)
      (fun h => Or.inl h) (by intro h; simp [Act.finOf] at h)
    have := afterMerge_inv key s s.m.out m' em e hcons (step_fields hm).1
    rw [hr] at this; exact this
  | resume =>
    simp only [Dsp.step, Option.map_eq_some_iff] at hs
    obtain ⟨⟨m', em⟩, hm, hr⟩ := hs
    have e := env_step (marked' := s.marked) (fired' := s.fired) henv hm id henv.markedFired
      (by intro p hp; simp [Act.prodOf] at hp)
      (fun h => Or.inl h) (by intro h; simp [Act.finOf] at h)
    have := afterMerge_inv key s s.m.out m' em e hcons (step_fields hm).1
    rw [hr] at this; exact this

theorem dexec_inv (key : β → Nat) {s s' : Dsp β} (h : DInv key s) (acts : List (DAct β))
    (he : s.exec key acts = some s') : DInv key s' := by
  induction acts generalizing s with
  | nil => simp only [Dsp.exec, Option.some.injEq] at he; exact he ▸ h
  | cons a as ih =>
    simp only [Dsp.exec] at he
    split at he
    · rename_i s1 ys hs
      exact ih (dstep_inv key h hs) he
    · simp at he

/-- the mode never changes -/
theorem dstep_mode (key : β → Nat) {s s' : Dsp β} {a : DAct β} {ys : List β}
    (hs : s.step key a = some (s', ys)) : s'.mode = s.mode := by
  have hc : ∀ (t : Dsp β) (tok : Tok β), (Dsp.consume key t tok).1.mode = t.mode := by
    intro t tok; cases tok <;> simp only [Dsp.consume] <;> (try split) <;> rfl
  have ha : ∀ (t : Dsp β) (r : Merge (Tok β) × Option (Nat × Tok β)), (Dsp.afterMerge key t r).1.mode = t.mode := by
    intro t r
    obtain ⟨m', em⟩ := r
    cases em with
    | none => rfl
    | some p => obtain ⟨i, tok⟩ := p; simp only [Dsp.afterMerge]; rw [hc]
  cases a <;> simp only [Dsp.step] at hs
  case fire =>
    split at hs
    · simp at hs
    · simp only [Option.some.injEq, Prod.mk.injEq] at hs; rw [← hs.1]
  case mark =>
    split at hs
    · simp only [Option.map_eq_some_iff] at hs
      obtain ⟨r, _, hr⟩ := hs
      have := ha { s with marked := true } r
      rw [hr] at this; exact this
    · simp at hs
  case dfin =>
    split at hs
    · simp only [Option.map_eq_some_iff] at hs
      obtain ⟨r, _, hr⟩ := hs
      have := ha s r
      rw [hr] at this; exact this
    · simp at hs
  all_goals
    simp only [Option.map_eq_some_iff] at hs
    obtain ⟨r, _, hr⟩ := hs
    have := ha s r
    rw [hr] at this; exact this

theorem dexec_mode (key : β → Nat) {s s' : Dsp β} (acts : List (DAct β))
    (he : s.exec key acts = some s') : s'.mode = s.mode := by
  induction acts generalizing s with
  | nil => simp only [Dsp.exec, Option.some.injEq] at he; rw [← he]
  | cons a as ih =>
    simp only [Dsp.exec] at he
    split at he
    · rename_i s1 ys hs
      rw [ih he, dstep_mode key hs]
    · simp at he

end IterUtils
