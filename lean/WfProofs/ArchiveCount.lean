import WfProofs.ArchiveAny
/-!
Helper lemmas for C33, part 7: counting what the writer emits, for every backup whatsoever —
how many members, and which `os.urandom` draw seals which encrypted member.
-/
namespace Archive
open GenArchive

variable {Y : Type}

/-- the encrypted member of the secret `x.1 = (name, secret)` sealed with draw number `x.2` -/
def sealAt (A : Aead) (C : Codec Y) (p : Bytes) (rnd : Nat → Bytes × Bytes) (x : (Name × Y) × Nat) : Member :=
  (x.1.1 ++ secEncSuffix, encrypt A p (rnd x.2).1 (rnd x.2).2 (C.encY x.1.2))

def isEnc (t : Tagged) : Bool := t.cat == .secEnc

theorem metaTagged_no_enc (C : Codec Y) (gens : Option (List (Name × Int))) (n : Name) :
    (metaTagged C gens n).filter isEnc = [] := by
  simp only [metaTagged]
  cases genOf gens n <;> simp [isEnc]

/-- the draw counter after the deployments `ds` -/
theorem enc_writeDeps {A : Aead} {C : Codec Y} (p : Bytes) {rnd : Nat → Bytes × Bytes}
    {secrets : List (Name × Y)} {gens : Option (List (Name × Int))} :
    ∀ (ds : List (Option Name × Y)) (k : Nat),
      ((writeDeps A C (some p) rnd secrets gens k ds).filter isEnc).map (·.member) =
        ((secPairs secrets ds).zipIdx k).map (sealAt A C p rnd)
  | [], k => by simp [writeDeps, secPairs]
  | d :: ds, k => by
    have hW : encPw writeEncTest (some p) = some p := rfl
    simp only [writeDeps, List.filter_append, List.map_append]
    cases hs : alookup (depName d) secrets with
    | none =>
      have ih := enc_writeDeps p ds k (A := A) (C := C) (rnd := rnd) (secrets := secrets) (gens := gens)
      simp only [writeDep, hs, secPairs, List.filterMap_cons, Option.map_none] at ih ⊢
      rw [ih]
      simp [isEnc, metaTagged_no_enc]
    | some s =>
      have ih := enc_writeDeps p ds (k + 1) (A := A) (C := C) (rnd := rnd) (secrets := secrets) (gens := gens)
      simp only [writeDep, hs, hW, secPairs, List.filterMap_cons, Option.map_some, List.zipIdx_cons,
        List.map_cons] at ih ⊢
      rw [ih]
      simp [isEnc, metaTagged_no_enc, sealAt]

theorem clear_writeDeps {A : Aead} {C : Codec Y} {rnd : Nat → Bytes × Bytes}
    {secrets : List (Name × Y)} {gens : Option (List (Name × Int))} :
    ∀ (ds : List (Option Name × Y)) (k : Nat),
      (writeDeps A C none rnd secrets gens k ds).filter isEnc = []
  | [], k => by simp [writeDeps]
  | d :: ds, k => by
    have hW : encPw writeEncTest (none : Option Bytes) = none := rfl
    simp only [writeDeps, List.filter_append]
    rw [clear_writeDeps ds]
    cases hs : alookup (depName d) secrets <;>
      simp [writeDep, hs, hW, isEnc, metaTagged_no_enc]

theorem length_writeDeps {A : Aead} {C : Codec Y} (pw : Option Bytes) {rnd : Nat → Bytes × Bytes}
    {secrets : List (Name × Y)} {gens : Option (List (Name × Int))} :
    ∀ (ds : List (Option Name × Y)) (k : Nat),
      (writeDeps A C pw rnd secrets gens k ds).length =
        ds.length + (secPairs secrets ds).length + (metaPairs gens ds).length
  | [], k => by simp [writeDeps, secPairs, metaPairs]
  | d :: ds, k => by
    simp only [writeDeps, List.length_append, length_writeDeps pw ds, secPairs, metaPairs, List.filterMap_cons,
      List.length_cons]
    cases hs : alookup (depName d) secrets with
    | none =>
      cases hg : genOf gens (depName d) <;>
        simp [writeDep, hs, metaTagged, hg] <;> omega
    | some s =>
      cases hw : encPw writeEncTest pw <;> cases hg : genOf gens (depName d) <;>
        simp [writeDep, hs, hw, metaTagged, hg] <;> omega

end Archive
