import WfModel.WorkerCleanup
/-! Lemmas about `WfModel/WorkerCleanup.lean`: a cancelled body writes only while it runs; `wait_for(gather(..))`
returns with the last worker; `asyncio.wait(.., timeout)` leaves stragglers. -/
namespace WorkerCleanup

theorem mem_wr {b : Bool} {t x : Nat} (h : x ∈ wr b t) : x = t := by
  unfold wr at h
  split at h
  · simpa using h
  · simp at h

/-- a body writes only while it runs: every write is at or after `t` and not after `done`; `done ≥ t` -/
theorem runProg_bounds (p : Prog) : ∀ (t : Nat) (c : Option Nat), (∀ ct, c = some ct → t ≤ ct) →
    t ≤ (runProg p t c).done ∧ ∀ x ∈ (runProg p t c).writes, t ≤ x ∧ x ≤ (runProg p t c).done := by
  induction p with
  | nil => intro t c _; simp [runProg]
  | cons s r ih =>
    intro t c hc
    cases c with
    | none =>
      have h := ih (t + s.len) none (by intro ct h; cases h)
      simp only [runProg]
      refine ⟨by omega, ?_⟩
      intro x hx
      rcases List.mem_append.mp hx with hx | hx
      · have := mem_wr hx; omega
      · have := h.2 x hx; omega
    | some ct =>
      have htc : t ≤ ct := hc ct rfl
      simp only [runProg]
      split
      · rename_i hlt
        cases hr : s.react with
        | abort => simp; exact htc
        | skip =>
          have h := ih ct none (by intro _ h; cases h)
          simp only
          refine ⟨by omega, ?_⟩
          intro x hx
          rcases List.mem_append.mp hx with hx | hx
          · have := mem_wr hx; omega
          · have := h.2 x hx; omega
        | ignore =>
          have h := ih (t + s.len) none (by intro _ h; cases h)
          simp only
          refine ⟨by omega, ?_⟩
          intro x hx
          rcases List.mem_append.mp hx with hx | hx
          · have := mem_wr hx; omega
          · have := h.2 x hx; omega
      · rename_i hge
        have h := ih (t + s.len) (some ct) (by intro ct' h'; cases h'; omega)
        simp only
        refine ⟨by omega, ?_⟩
        intro x hx
        rcases List.mem_append.mp hx with hx | hx
        · have := mem_wr hx; omega
        · have := h.2 x hx; omega

theorem le_maxList {l : List Nat} {x : Nat} (h : x ∈ l) : x ≤ maxList l := by
  induction l with
  | nil => cases h
  | cons y r ih =>
    simp only [maxList]
    rcases List.mem_cons.mp h with h | h
    · subst h; omega
    · have := ih h; omega


/-- nobody is still running and nothing is written once `cleanup_tasks` has returned -/
def NoStraggler (o : Out) : Prop := o.alive = [] ∧ o.late = []

instance (o : Out) : Decidable (NoStraggler o) := by unfold NoStraggler; exact inferInstance

theorem noStraggler_of_done_le (o : Out) (hd : ∀ r ∈ o.workers, r.done ≤ o.returned)
    (hw : ∀ r ∈ o.workers, ∀ x ∈ r.writes, x ≤ r.done) : NoStraggler o := by
  constructor
  · unfold Out.alive
    rw [List.map_eq_nil_iff, List.filter_eq_nil_iff]
    intro x hx
    have := hd x.1 (List.fst_mem_of_mem_zipIdx hx)
    simp; omega
  · unfold Out.late
    rw [List.flatMap_eq_nil_iff]
    intro x hx
    rw [List.map_eq_nil_iff, List.filter_eq_nil_iff]
    intro t ht
    have h1 := hd x.1 (List.fst_mem_of_mem_zipIdx hx)
    have h2 := hw x.1 (List.fst_mem_of_mem_zipIdx hx) t ht
    simp; omega

/-- `wait_for(gather(..))`: whatever the cancelled bodies do -- any number of workers, any segments, any reactions to
the second cancellation, any grace period -- when `cleanup_tasks` returns every worker is done and has written all it
ever writes -/
theorem waitForGather_noStraggler (grace : Nat) (ws : List Prog) :
    ∃ o, cleanup .waitForGather grace ws = some o ∧ NoStraggler o := by
  refine ⟨_, rfl, ?_⟩
  apply noStraggler_of_done_le
  · intro r hr
    exact le_maxList (List.mem_map.mpr ⟨r, hr, rfl⟩)
  · intro r hr x hx
    obtain ⟨p, _, rfl⟩ := List.mem_map.mp hr
    exact ((runProg_bounds p 0 (some grace) (by intro ct h; omega)).2 x hx).2

/-- ... and it does not return before the last of them is done, nor later -/
theorem waitForGather_returns_with_last (grace : Nat) (ws : List Prog) (o : Out)
    (h : cleanup .waitForGather grace ws = some o) :
    o.returned = maxList (o.workers.map (·.done)) := by
  simp only [cleanup, Option.some.injEq] at h
  subst h; rfl

/-- `asyncio.wait(tasks, timeout=grace)` instead: one worker with a teardown longer than the grace period that
then writes is enough -/
def slowTeardown : Prog := [⟨10, .abort, true⟩]

theorem waitOnly_straggler :
    ∃ o, cleanup .waitOnly 4 [slowTeardown] = some o ∧ o.alive = [0] ∧ o.late = [(10, 0)] := by
  refine ⟨_, rfl, ?_, ?_⟩ <;> decide

/-- under `waitOnly` the statement holds exactly for the workers that need no second cancellation: if every body is
through within the grace period on its own -/
theorem waitOnly_noStraggler_of_fast (grace : Nat) (ws : List Prog)
    (hfast : ∀ p ∈ ws, (runProg p 0 none).done ≤ grace) :
    ∃ o, cleanup .waitOnly grace ws = some o ∧ NoStraggler o := by
  refine ⟨_, rfl, ?_⟩
  apply noStraggler_of_done_le
  · intro r hr
    obtain ⟨p, hp, rfl⟩ := List.mem_map.mp hr
    have h1 := hfast p hp
    have h2 : (runProg p 0 none).done ≤ maxList ((ws.map fun p => runProg p 0 none).map (·.done)) :=
      le_maxList (List.mem_map.mpr ⟨_, List.mem_map.mpr ⟨p, hp, rfl⟩, rfl⟩)
    simp only [Nat.le_min]; exact ⟨h1, h2⟩
  · intro r hr x hx
    obtain ⟨p, _, rfl⟩ := List.mem_map.mp hr
    exact ((runProg_bounds p 0 none (by intro ct h; cases h)).2 x hx).2

end WorkerCleanup
