"""C03 — queued work never stalls and idleness is reported only when truly idle."""
from __future__ import annotations

from ..engine import monitors, suite
from ..runner import Env, Outcome

THEOREMS = ["C03_work_conserving", "C03_idle_reducer_sound", "C03_refuted_timer", "C03_refuted_mailbox", "C03_refuted"]
LEAN_TARGETS = ["WfProps.C03"]
EXPLANATION = (
    "Work conservation is proved for every tick history (queue non-empty => all num_workers slots busy, until a tick "
    "ends the run). Idle soundness: proved as far as the reducer state goes (idle/UnhandledEvent(idle) only when all "
    "queues and in-progress tables are empty and the run is marked running); the full statement (no scheduled retry, "
    "no delivered-but-unprocessed event) is REFUTED on the faithful runner model by two decide-checked witnesses "
    "(C03_refuted_timer, C03_refuted_mailbox) which the check replays on the real engine: both reproduce and are "
    "listed as known findings. Any other way of announcing idleness unsoundly, or a stalled queue, is a VIOLATION."
)
ASSUMPTIONS = suite.ENGINE_ASSUMPTIONS + [
    "reading: a pending wait_for_event timeout is not counted as pending work (the statement lists queued, running and scheduled-retry work)",
]


def run(env: Env) -> Outcome:
    out = Outcome()
    out.rule = ("direct (state,tick) pairs + live scripted workflows (retry delays, waiters, fan-out) under random gate schedules; "
                "non-trivial = more than 2 ticks; distinct by (spec, schedule)")
    suite.direct_corr(env, out, env.budget(3000, 60000))
    suite.live_runs(env, out, env.budget(400, 8000), [monitors.mon_c03], extra_specs=suite.load_corpus("C03"))
    return out
