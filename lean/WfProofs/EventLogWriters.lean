import WfModel.EventLogWriters
import WfProofs.EventLogRun
/-!
Invariant of the statement-granular two-writer model: as long as no program inserts a
sequence number that was read by an earlier statement, committed rows followed by the
lock holder's uncommitted rows are numbered 0, 1, 2, … after every statement of every
schedule.
-/
namespace EventLog

theorem consec_prefix {b : Int} {l1 l2 : List Ev} (h : Consec b (l1 ++ l2)) : Consec b l1 := by
  induction l1 generalizing b with
  | nil => simp [Consec]
  | cons x xs ih =>
    obtain ⟨h1, h2⟩ := h
    exact ⟨h1, ih h2⟩

structure WInv (s : WSt) : Prop where
  consec : Consec 0 (s.rows ++ s.dirty)
  clean : s.lock = none → s.dirty = []
  progs : ∀ v, ∀ st ∈ (s.writers v).todo, st.atomicSeq = true

theorem winv_init : WInv WSt.init :=
  ⟨by simp [WSt.init, Consec], fun _ => rfl, by intro v st h; simp [WSt.init, Writer.idle] at h⟩

theorem visible_of_canWrite {s : WSt} (hi : WInv s) {w : Nat} (hc : canWrite s w = true) :
    visible s w = s.rows ++ s.dirty := by
  unfold visible
  unfold canWrite at hc
  cases hl : s.lock with
  | none => simp [hi.clean hl]
  | some h =>
    rw [hl] at hc
    have : h = w := by simpa using hc
    simp [this]

theorem progs_upd {s : WSt} (hi : WInv s) (w : Nat) (x : Writer) (hx : ∀ st ∈ x.todo, st.atomicSeq = true) :
    ∀ v, ∀ st ∈ (upd s.writers w x v).todo, st.atomicSeq = true := by
  intro v st hst
  unfold upd at hst
  by_cases hv : v = w
  · rw [if_pos hv] at hst; exact hx st hst
  · rw [if_neg hv] at hst; exact hi.progs v st hst

theorem winv_execStmt {s : WSt} (hi : WInv s) (w : Nat) (st : Stmt) (rest : List Stmt)
    (hst : st.atomicSeq = true) (hrest : ∀ t ∈ rest, t.atomicSeq = true) : WInv (wexecStmt s w st rest) := by
  have hadv : ∀ v, ∀ t ∈ (upd s.writers w { s.writers w with todo := rest } v).todo, t.atomicSeq = true :=
    progs_upd hi w { s.writers w with todo := rest } hrest
  cases st with
  | insertMax =>
    simp only [wexecStmt]
    by_cases hc : canWrite s w = true
    · rw [if_pos hc]
      refine ⟨?_, (by intro h; cases h), hadv⟩
      show Consec 0 (s.rows ++ (s.dirty ++ [_]))
      rw [visible_of_canWrite hi hc, ← List.append_assoc]
      exact consec_step .sql hi.consec _ _ _
    · rw [if_neg hc]; exact hi
  | selectMax =>
    simp only [wexecStmt]
    exact ⟨hi.consec, hi.clean,
      progs_upd hi w { s.writers w with todo := rest, next := some (nextSeq .sql (visible s w)) } hrest⟩
  | insertRead => simp [Stmt.atomicSeq] at hst
  | write =>
    simp only [wexecStmt]
    by_cases hc : canWrite s w = true
    · rw [if_pos hc]
      exact ⟨hi.consec, (by intro h; cases h), hadv⟩
    · rw [if_neg hc]; exact hi
  | commit =>
    simp only [wexecStmt]
    by_cases hl : s.lock = some w
    · rw [if_pos hl]
      exact ⟨by simpa using hi.consec, fun _ => rfl, hadv⟩
    · rw [if_neg hl]
      exact ⟨hi.consec, hi.clean, hadv⟩
  | other =>
    simp only [wexecStmt]
    exact ⟨hi.consec, hi.clean, hadv⟩

theorem winv_exec {s : WSt} (hi : WInv s) (w : Nat) : WInv (wexec s w) := by
  unfold wexec
  split
  · exact hi
  · rename_i st rest heq
    have hall : ∀ t ∈ st :: rest, t.atomicSeq = true := by
      intro t ht; exact hi.progs w t (by rw [heq]; exact ht)
    exact winv_execStmt hi w st rest (hall st (List.mem_cons_self ..))
      (fun t ht => hall t (List.mem_cons_of_mem _ ht))

theorem winv_step {s : WSt} (hi : WInv s) (a : WAct) (ha : a.atomicSeq = true) : WInv (wstep s a) := by
  cases a with
  | start w prog tag ty tys =>
    simp only [wstep]
    by_cases he : (s.writers w).todo.isEmpty = true
    · rw [if_pos he]
      refine ⟨hi.consec, hi.clean, progs_upd hi w _ ?_⟩
      intro st hst
      have : prog.all Stmt.atomicSeq = true := ha
      exact (List.all_eq_true.mp this) st hst
    · rw [if_neg he]; exact hi
  | exec w => exact winv_exec hi w
  | abort w =>
    simp only [wstep]
    have hidle : ∀ st ∈ Writer.idle.todo, st.atomicSeq = true := by
      intro st h; simp [Writer.idle] at h
    by_cases hl : s.lock = some w
    · simp only [if_pos hl]
      exact ⟨by simpa using consec_prefix hi.consec, fun _ => rfl, progs_upd hi w _ hidle⟩
    · simp only [if_neg hl]
      exact ⟨hi.consec, hi.clean, progs_upd hi w _ hidle⟩

theorem winv_runFrom {s : WSt} (hi : WInv s) (acts : List WAct) (h : ∀ a ∈ acts, a.atomicSeq = true) :
    WInv (wrunFrom s acts) := by
  induction acts generalizing s with
  | nil => exact hi
  | cons a rest ih =>
    simp only [wrunFrom, List.foldl_cons]
    exact ih (winv_step hi a (h a (List.mem_cons_self ..))) (fun b hb => h b (List.mem_cons_of_mem _ hb))

theorem winv_run (acts : List WAct) (h : ∀ a ∈ acts, a.atomicSeq = true) : WInv (wrun acts) :=
  winv_runFrom winv_init acts h

/-- an action that starts only `prog` starts only atomic-sequence programs when `prog` is one -/
theorem atomicSeq_of_runs {prog : List Stmt} (hp : prog.all Stmt.atomicSeq = true) {a : WAct}
    (ha : a.runs prog = true) : a.atomicSeq = true := by
  cases a with
  | start w p tag ty tys =>
    have : p = prog := by simpa [WAct.runs] using ha
    simpa [WAct.atomicSeq, this] using hp
  | exec w => rfl
  | abort w => rfl

end EventLog
