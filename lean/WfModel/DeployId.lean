import WfModel.Generated
/-!
M13 — deployment-id derivation (`control_plane/k8s_client.py`:
`find_deployment_id`, `_append_random_suffix`).

The model works on `List Char` *after* Python's `str.lower()` (Unicode case
mapping is taken from the runtime; the correspondence harness feeds the model
`name.lower()` and the implementation `name`).  Randomness enters as an explicit
list of draws; id availability (`validate_deployment_id`, a Kubernetes lookup)
as an oracle.  Constants come from `Gen.C32` (regenerated from the source).
-/
namespace DeployId

def isLower (c : Char) : Bool := decide (97 ≤ c.toNat) && decide (c.toNat ≤ 122)
def isDigit (c : Char) : Bool := decide (48 ≤ c.toNat) && decide (c.toNat ≤ 57)
def isAlnum (c : Char) : Bool := isLower c || isDigit c
def isHyphen (c : Char) : Bool := c == '-'
def isLabelChar (c : Char) : Bool := isAlnum c || isHyphen c
/-- `"0123456789abcdef"` -/
def isHex (c : Char) : Bool := isDigit c || (decide (97 ≤ c.toNat) && decide (c.toNat ≤ 102))
/-- `"abcdef"` -/
def isHexAlpha (c : Char) : Bool := decide (97 ≤ c.toNat) && decide (c.toNat ≤ 102)

/-- `re.sub(r"[^a-z0-9]", "-", s)` -/
def sanitize (cs : List Char) : List Char := cs.map fun c => if isAlnum c then c else '-'

/-- `re.sub(r"-+", "-", s)` -/
def collapse : List Char → List Char
  | [] => []
  | [c] => [c]
  | c :: d :: rest =>
    if isHyphen c && isHyphen d then collapse (d :: rest) else c :: collapse (d :: rest)

def stripLead : List Char → List Char
  | [] => []
  | c :: r => if isHyphen c then r else c :: r

/-- `re.sub(r"^-|-$", "", s)`: at most one hyphen at each end. -/
def stripEnds (cs : List Char) : List Char := (stripLead (stripLead cs).reverse).reverse

/-- `"d-" + s` when `s` is non-empty and does not start with a letter. -/
def addPrefix : List Char → List Char
  | [] => []
  | c :: r => if isLower c then c :: r else 'd' :: '-' :: c :: r

/-- `s.rstrip("-")` -/
def rstrip (cs : List Char) : List Char := (cs.reverse.dropWhile isHyphen).reverse

/-- everything up to and including `deployment_id[:max_length].rstrip("-")` -/
def baseId (name : List Char) : List Char :=
  rstrip ((addPrefix (stripEnds (collapse (sanitize name)))).take Gen.C32.maxLength)

def alnumCount (name : List Char) : Nat := (name.filter isAlnum).length

structure Draw where
  hex : List Char
  alt : Char
deriving Repr

def wfDraw (d : Draw) : Bool :=
  d.hex.length == Gen.C32.randomness && d.hex.all isHex && isHexAlpha d.alt

/-- `_append_random_suffix` -/
def appendSuffix (id : List Char) (d : Draw) : List Char :=
  match id with
  | [] =>
    match d.hex with
    | h :: t => if isDigit h then d.alt :: t else h :: t
    | [] => []
  | _ :: _ => id.take (Gen.C32.maxLength - Gen.C32.randomness - 1) ++ '-' :: d.hex

/-- the `for i in range(1, 100)` loop; `none` = the final `raise ValueError`.
`answers` are the successive results of `validate_deployment_id` (a Kubernetes
lookup, adversarial here). -/
def findLoop (base : List Char) :
    Nat → List Char → List Bool → List Draw → Option (List Char)
  | 0, _, _, _ => none
  | n + 1, cur, answers, ds =>
    match answers with
    | [] => none
    | true :: _ => some cur
    | false :: answers' =>
      match ds with
      | [] => none
      | d :: ds' => findLoop base n (appendSuffix base d) answers' ds'

def needsSuffix (name : List Char) (force : Bool) : Bool :=
  decide (alnumCount name < Gen.C32.minLength) || force

def findId (name : List Char) (force : Bool) (answers : List Bool) (ds : List Draw) :
    Option (List Char) :=
  let base := baseId name
  if needsSuffix name force then
    match ds with
    | [] => none
    | d :: ds' => findLoop base 99 (appendSuffix base d) answers ds'
  else findLoop base 99 base answers ds

/-- DNS-1035 label, as `^[a-z]([a-z0-9-]{0,61}[a-z0-9])?$` in `schema/deployments.py` -/
def isDns1035 (r : List Char) : Bool :=
  match r with
  | [] => false
  | c :: rest =>
    isLower c && rest.all isLabelChar &&
      (match (c :: rest).getLast? with | some l => isAlnum l | none => false) &&
      decide ((c :: rest).length ≤ 63)

end DeployId
