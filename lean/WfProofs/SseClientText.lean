import WfModel.SseClient

/-! Text-level lemmas for the SseClient model: `strip`, decimal rendering and `int()`,
the line splitter on a body made of terminated lines, byte cuts are character prefixes. -/

namespace SseClient
open Gen.SseClient

/-! ## strip -/

/-- no whitespace at either end -/
def Trimmed (s : List Char) : Prop :=
  (∀ c, s.head? = some c → isSpace c = false) ∧ (∀ c, s.getLast? = some c → isSpace c = false)

theorem stripL_of_head {s : List Char} (h : ∀ c, s.head? = some c → isSpace c = false) : stripL s = s := by
  cases s with
  | nil => rfl
  | cons c cs =>
    have hc := h c rfl
    simp [stripL, List.dropWhile, hc]

theorem strip_of_trimmed {s : List Char} (h : Trimmed s) : strip s = s := by
  unfold strip
  rw [stripL_of_head h.1]
  rw [stripL_of_head (s := s.reverse)]
  · simp
  · intro c hc
    rw [List.head?_reverse] at hc
    exact h.2 c hc

theorem strip_space_cons {s : List Char} (h : Trimmed s) : strip (' ' :: s) = s := by
  have h1 : stripL (' ' :: s) = s := by
    have : isSpace ' ' = true := by decide
    simp only [stripL, List.dropWhile, this]
    exact stripL_of_head h.1
  unfold strip
  rw [h1, stripL_of_head (s := s.reverse)]
  · simp
  · intro c hc
    rw [List.head?_reverse] at hc
    exact h.2 c hc

theorem strip_nil : strip [] = [] := rfl

/-- `int()` skips nothing that `str.strip()` keeps -/
theorem isSpace_of_isIntSpace {c : Char} (h : isIntSpace c = true) : isSpace c = true := by
  have hsub : ∀ n ∈ pyIntSpace, n ∈ pySpace := by decide
  simp only [isIntSpace, isSpace, List.contains_iff_mem] at h ⊢
  exact hsub _ h

theorem stripIntL_of_head {s : List Char} (h : ∀ c, s.head? = some c → isSpace c = false) : stripIntL s = s := by
  cases s with
  | nil => rfl
  | cons c cs =>
    have hc := h c rfl
    have : isIntSpace c = false := by
      cases hi : isIntSpace c with
      | false => rfl
      | true => rw [isSpace_of_isIntSpace hi] at hc; exact absurd hc (by simp)
    simp [stripIntL, List.dropWhile, this]

theorem stripInt_of_trimmed {s : List Char} (h : Trimmed s) : stripInt s = s := by
  unfold stripInt
  rw [stripIntL_of_head h.1]
  rw [stripIntL_of_head (s := s.reverse)]
  · simp
  · intro c hc
    rw [List.head?_reverse] at hc
    exact h.2 c hc

/-! ## decimal digits -/

/-- an ASCII digit -/
def AsciiDigit (c : Char) : Prop := ∃ d, d < 10 ∧ c = digitChar d

theorem digitVal_digitChar : ∀ d, d < 10 → digitVal? (digitChar d) = some d := by decide

theorem asciiDigit_facts {c : Char} (h : AsciiDigit c) :
    isDigit c = true ∧ isSpace c = false ∧ c ≠ '-' ∧ c ≠ '+' ∧ c ≠ '_' ∧ (32 ≤ c.toNat ∧ c.toNat < 127) := by
  obtain ⟨d, hd, rfl⟩ := h
  have : ∀ d, d < 10 → (isDigit (digitChar d) = true ∧ isSpace (digitChar d) = false ∧ digitChar d ≠ '-' ∧
      digitChar d ≠ '+' ∧ digitChar d ≠ '_' ∧ (32 ≤ (digitChar d).toNat ∧ (digitChar d).toNat < 127)) := by decide
  exact this d hd

theorem valOf_snoc (ds : List Char) (c : Char) : valOf (ds ++ [c]) = valOf ds * 10 + (digitVal? c).getD 0 := by
  simp [valOf, List.foldl_append]

theorem decimalAux_spec : ∀ f n acc, n < f →
    ∃ ds, decimalAux f n acc = ds ++ acc ∧ ds ≠ [] ∧ (∀ c ∈ ds, AsciiDigit c) ∧ valOf ds = n := by
  intro f
  induction f with
  | zero => intro n acc h; omega
  | succ f ih =>
    intro n acc h
    unfold decimalAux
    by_cases hn : n < 10
    · refine ⟨[digitChar n], ?_, by simp, ?_, ?_⟩
      · simp [hn]
      · intro c hc
        simp at hc
        exact ⟨n, hn, hc⟩
      · simp [valOf, digitVal_digitChar n hn]
    · have hlt : n / 10 < f := by omega
      obtain ⟨ds, h1, h2, h3, h4⟩ := ih (n / 10) (digitChar (n % 10) :: acc) hlt
      have hm : n % 10 < 10 := Nat.mod_lt _ (by omega)
      refine ⟨ds ++ [digitChar (n % 10)], ?_, by simp, ?_, ?_⟩
      · simp [hn, h1]
      · intro c hc
        rcases List.mem_append.mp hc with hc | hc
        · exact h3 c hc
        · simp at hc
          exact ⟨n % 10, hm, hc⟩
      · rw [valOf_snoc, h4, digitVal_digitChar _ hm]
        simp
        omega

theorem decimal_spec (n : Nat) : decimal n ≠ [] ∧ (∀ c ∈ decimal n, AsciiDigit c) ∧ valOf (decimal n) = n := by
  obtain ⟨ds, h1, h2, h3, h4⟩ := decimalAux_spec (n + 1) n [] (by omega)
  have : decimal n = ds := by simp [decimal, h1]
  rw [this]
  exact ⟨h2, h3, h4⟩

theorem digitsTail_digits : ∀ ds : List Char, (∀ c ∈ ds, AsciiDigit c) → digitsTail false ds = true := by
  intro ds
  induction ds with
  | nil => intro _; rfl
  | cons c cs ih =>
    intro h
    have hc := (asciiDigit_facts (h c (by simp))).1
    simp only [digitsTail, hc, if_true]
    exact ih (fun x hx => h x (by simp [hx]))

theorem filter_digits : ∀ ds : List Char, (∀ c ∈ ds, AsciiDigit c) → ds.filter isDigit = ds := by
  intro ds h
  apply List.filter_eq_self.mpr
  intro c hc
  exact (asciiDigit_facts (h c hc)).1

theorem trimmed_of_ends {s : List Char} (h : ∀ c ∈ s, isSpace c = false) : Trimmed s := by
  constructor
  · intro c hc
    exact h c (List.mem_of_mem_head? hc)
  · intro c hc
    exact h c (List.mem_of_getLast? hc)

theorem pyInt_digits {ds : List Char} (hne : ds ≠ []) (h : ∀ c ∈ ds, AsciiDigit c) :
    pyInt? ds = some ((valOf ds : Nat) : Int) := by
  have htr : Trimmed ds := trimmed_of_ends (fun c hc => (asciiDigit_facts (h c hc)).2.1)
  cases ds with
  | nil => exact absurd rfl hne
  | cons c cs =>
    have hc := asciiDigit_facts (h c (by simp))
    have hcs : ∀ x ∈ cs, AsciiDigit x := fun x hx => h x (by simp [hx])
    unfold pyInt?
    rw [stripInt_of_trimmed htr]
    have h1 : ((c :: cs).head? == some '-') = false := by simp [hc.2.2.1]
    have h2 : ((c :: cs).head? == some '+') = false := by simp [hc.2.2.2.1]
    simp only [h1, h2, Bool.or_self, Bool.false_eq_true, if_false]
    simp only [hc.1, digitsTail_digits cs hcs, Bool.and_self, if_true, filter_digits (c :: cs) h]

theorem pyInt_decimal (n : Nat) : pyInt? (decimal n) = some (n : Int) := by
  obtain ⟨h1, h2, h3⟩ := decimal_spec n
  rw [pyInt_digits h1 h2, h3]

/-! ## lines -/

/-- a body made of terminated lines -/
def joinNL (ls : List (List Char)) : List Char := ls.flatMap (· ++ ['\n'])

theorem joinNL_cons (l : List Char) (ls : List (List Char)) : joinNL (l :: ls) = l ++ '\n' :: joinNL ls := by
  simp [joinNL]

theorem joinNL_append (a b : List (List Char)) : joinNL (a ++ b) = joinNL a ++ joinNL b := by
  simp [joinNL]

variable {brk : Char → Bool}

theorem splitLines_nobreak_append {l : List Char} (h : ∀ c ∈ l, brk c = false) (rest : List Char) :
    splitLines brk (l ++ rest) =
      match (splitLines brk rest).1 with
      | [] => ([], l ++ (splitLines brk rest).2)
      | x :: xs => ((l ++ x) :: xs, (splitLines brk rest).2) := by
  induction l with
  | nil =>
    simp only [List.nil_append]
    cases h1 : (splitLines brk rest).1 <;> simp [← h1]
  | cons c cs ih =>
    have hc : brk c = false := h c (by simp)
    have ih' := ih (fun x hx => h x (by simp [hx]))
    simp only [List.cons_append, splitLines, hc, Bool.false_eq_true, if_false]
    rw [ih']
    cases h1 : (splitLines brk rest).1 <;> simp

theorem splitLines_nobreak {l : List Char} (h : ∀ c ∈ l, brk c = false) : splitLines brk l = ([], l) := by
  have := splitLines_nobreak_append h []
  simpa [splitLines] using this

theorem splitLines_line {l : List Char} (h : ∀ c ∈ l, brk c = false) (hnl : brk '\n' = true) (rest : List Char) :
    splitLines brk (l ++ '\n' :: rest) = (l :: (splitLines brk rest).1, (splitLines brk rest).2) := by
  rw [splitLines_nobreak_append h]
  simp [splitLines, hnl]

/-- every line is free of break characters -/
def NoBreaks (brk : Char → Bool) (ls : List (List Char)) : Prop := ∀ l ∈ ls, ∀ c ∈ l, brk c = false

theorem splitLines_joinNL (hnl : brk '\n' = true) : ∀ ls, NoBreaks brk ls → splitLines brk (joinNL ls) = (ls, []) := by
  intro ls
  induction ls with
  | nil => intro _; rfl
  | cons l ls ih =>
    intro h
    rw [joinNL_cons, splitLines_line (h l (by simp)) hnl, ih (fun x hx => h x (by simp [hx]))]

/-- a cut body shows the reader a prefix of the body's lines -/
theorem splitLines_take_joinNL (hnl : brk '\n' = true) : ∀ ls, NoBreaks brk ls → ∀ k,
    ∃ j, (splitLines brk ((joinNL ls).take k)).1 = ls.take j := by
  intro ls
  induction ls with
  | nil => intro _ k; exact ⟨0, by simp [joinNL, splitLines]⟩
  | cons l ls ih =>
    intro h k
    have hl := h l (by simp)
    rw [joinNL_cons]
    by_cases hk : k ≤ l.length
    · refine ⟨0, ?_⟩
      rw [List.take_append_of_le_length hk]
      rw [splitLines_nobreak (fun c hc => hl c (List.mem_of_mem_take hc))]
      simp
    · obtain ⟨k', hk'⟩ : ∃ k', k = l.length + (k' + 1) := ⟨k - l.length - 1, by omega⟩
      obtain ⟨j, hj⟩ := ih (fun x hx => h x (by simp [hx])) k'
      refine ⟨j + 1, ?_⟩
      rw [hk', List.take_append, List.take_of_length_le (by omega)]
      have : l.length + (k' + 1) - l.length = k' + 1 := by omega
      rw [this, List.take_succ_cons, splitLines_line hl hnl, hj]
      simp

/-! ## bytes -/

theorem takeBytes_prefix : ∀ (cs : List Char) (n : Nat), ∃ k, takeBytes n cs = cs.take k := by
  intro cs
  induction cs with
  | nil => intro n; exact ⟨0, rfl⟩
  | cons c cs ih =>
    intro n
    unfold takeBytes
    by_cases h : utf8Len c ≤ n
    · obtain ⟨k, hk⟩ := ih (n - utf8Len c)
      exact ⟨k + 1, by simp [h, hk]⟩
    · exact ⟨0, by simp [h]⟩

end SseClient
