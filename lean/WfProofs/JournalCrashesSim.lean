import WfProofs.JournalCrashes
import WfProofs.JournalWait
/-! C27, extension: the continuation theorem (`C27_recovered_continues`) for a run that is stopped and
recovered any number of times (`ReachC`), for loops that never arm a wait timeout. -/
namespace Journal

variable {σ κ ν ο : Type} [DecidableEq κ]

/-- the loop never waits with a finite timeout (no scheduled wakeups): `Step.timeout` is never enabled -/
def NeverArmed (L : Loop σ κ ν ο) : Prop := ∀ s, L.armed s = false

/-! ### `Bound` along steps, and the simulation from `Bound` alone -/

theorem bound_step (L : Loop σ κ ν ο) {w w' : World σ κ ν ο} (hb : Bound w) (hs : Step L w w') :
    Bound w' := by
  cases hs with
  | finish t v hm hp hmemo =>
    refine ⟨hb.fl, ?_⟩
    intro f x hx
    simp only [setMemo] at hx
    split at hx
    · rename_i e; subst e; exact hb.fl t hm
    · exact hb.memo f x hx
  | recv t m rest hm hp hmemo hmb =>
    refine ⟨hb.fl, ?_⟩
    intro f x hx
    simp only [setMemo] at hx
    split at hx
    · rename_i e; subst e; exact hb.fl t hm
    · exact hb.memo f x hx
  | send m => exact ⟨hb.fl, hb.memo⟩
  | record t v hp hm hmemo => exact ⟨hb.fl, hb.memo⟩
  | actOn t v hp hmemo =>
    refine ⟨?_, ?_⟩
    · intro t' ht'
      rcases act_fl L _ _ t' ht' with h | h
      · exact Nat.le_trans (hb.fl t' h) (act_fidc L _ _)
      · exact h.2
    · intro f x hx; exact Nat.le_trans (hb.memo f x hx) (act_fidc L _ _)
  | timeout hp ha =>
    refine ⟨?_, ?_⟩
    · intro t' ht'
      rcases act_fl L _ _ t' ht' with h | h
      · exact Nat.le_trans (hb.fl t' h) (act_fidc L _ _)
      · exact h.2
    · intro f x hx; exact Nat.le_trans (hb.memo f x hx) (act_fidc L _ _)

theorem bound_steps (L : Loop σ κ ν ο) {w w' : World σ κ ν ο} (hb : Bound w) (h : Steps L w w') :
    Bound w' := by
  induction h with
  | refl => exact hb
  | tail _ s ih => exact bound_step L ih s

/-- `sim_step` with the function-id bound as the only fact about the simulated world -/
theorem sim_step_of_bound (L : Loop σ κ ν ο) {w w1 w' : World σ κ ν ο} (hb : Bound w)
    (hs : Sim w w') (st : Step L w w1) : ∃ w1', Steps L w' w1' ∧ Sim w1 w1' := by
  cases st with
  | finish t v hm hp hmemo =>
    have hm' : t ∈ w'.c.fl := by rw [hs.c]; exact hm
    have hmemo' : w'.memo t.fid = none := by
      cases h : w'.memo t.fid with
      | none => rfl
      | some x => have := hs.sub _ _ h; rw [hmemo] at this; cases this
    refine ⟨_, .tail (.refl _) (Step.finish w' t v hm' hp hmemo'), ?_⟩
    refine ⟨hs.c, hs.jr, hs.mbox, hs.pend, hs.hist, hs.outs, ?_, ?_, ?_⟩
    · intro f x hx
      simp only [setMemo] at hx ⊢
      split at hx
      · rename_i e; simp [e]; exact Option.some.inj hx
      · rename_i e; simp [e]; exact hs.sub f x hx
    · intro t' ht' hp'; exact setMemo_same _ _ _ _ _ (hs.pulls t' ht' hp')
    · intro t' ht'; exact setMemo_same _ _ _ _ _ (hs.pendm t' ht')
  | recv t m rest hm hp hmemo hmb =>
    have hm' : t ∈ w'.c.fl := by rw [hs.c]; exact hm
    have hmemo' : w'.memo t.fid = none := by rw [hs.pulls t hm hp]; exact hmemo
    have hmb' : w'.mbox = m :: rest := by rw [hs.mbox]; exact hmb
    refine ⟨_, .tail (.refl _) (Step.recv w' t m rest hm' hp hmemo' hmb'), ?_⟩
    refine ⟨hs.c, hs.jr, rfl, hs.pend, hs.hist, hs.outs, ?_, ?_, ?_⟩
    · intro f x hx
      simp only [setMemo] at hx ⊢
      split at hx
      · rename_i e; simp [e]; exact Option.some.inj hx
      · rename_i e; simp [e]; exact hs.sub f x hx
    · intro t' ht' hp'; exact setMemo_same _ _ _ _ _ (hs.pulls t' ht' hp')
    · intro t' ht'; exact setMemo_same _ _ _ _ _ (hs.pendm t' ht')
  | send m =>
    refine ⟨_, .tail (.refl _) (Step.send w' m), ?_⟩
    exact ⟨hs.c, hs.jr, by simp [hs.mbox], hs.pend, hs.hist, hs.outs, hs.sub, hs.pulls, hs.pendm⟩
  | record t v hp hm hmemo =>
    have hm' : t ∈ w'.c.fl := by rw [hs.c]; exact hm
    have hp' : w'.pend = none := by rw [hs.pend]; exact hp
    cases h : w'.memo t.fid with
    | some x =>
      have hx : x = v := by have := hs.sub _ _ h; rw [hmemo] at this; cases this; rfl
      subst hx
      refine ⟨_, .tail (.refl _) (Step.record w' t x hp' hm' h), ?_⟩
      refine ⟨hs.c, by simp [hs.jr], hs.mbox, rfl, hs.hist, hs.outs, hs.sub, hs.pulls, ?_⟩
      intro t' ht'; cases ht'; rw [h, hmemo]
    | none =>
      have hnp : t.pull = false := by
        cases hpl : t.pull with
        | false => rfl
        | true => have := hs.pulls t hm hpl; rw [h, hmemo] at this; cases this
      let w2 : World σ κ ν ο := { w' with memo := setMemo w'.memo t.fid v }
      have s1 : Step L w' w2 := Step.finish w' t v hm' hnp h
      have hm2 : w2.memo t.fid = some v := by simp [w2, setMemo]
      have s2 := Step.record (L := L) w2 t v (by simpa [w2] using hp') (by simpa [w2] using hm') hm2
      refine ⟨_, .tail (.tail (.refl _) s1) s2, ?_⟩
      refine ⟨hs.c, by simp [w2, hs.jr], hs.mbox, rfl, hs.hist, hs.outs, ?_, ?_, ?_⟩
      · intro f x hx
        simp only [w2, setMemo] at hx
        split at hx
        · rename_i e; subst e; cases hx; exact hmemo
        · exact hs.sub f x hx
      · intro t' ht' hp''
        simp only [w2, setMemo]
        split
        · rename_i e; rw [e, hmemo]
        · exact hs.pulls t' ht' hp''
      · intro t' ht'; cases ht'; simp [w2, setMemo, hmemo]
  | actOn t v hp hmemo =>
    have hp' : w'.pend = some t := by rw [hs.pend]; exact hp
    have hmemo' : w'.memo t.fid = some v := by rw [hs.pendm t hp]; exact hmemo
    refine ⟨_, .tail (.refl _) (Step.actOn w' t v hp' hmemo'), ?_⟩
    refine ⟨by simp [hs.c], hs.jr, hs.mbox, rfl, by simp [hs.hist], by simp [hs.outs, hs.c], hs.sub, ?_, ?_⟩
    · exact sim_act_pulls L w w' hb hs _
    · intro t' ht'; cases ht'
  | timeout hp ha =>
    have hp' : w'.pend = none := by rw [hs.pend]; exact hp
    have ha' : L.armed w'.c.s = true := by rw [hs.c]; exact ha
    refine ⟨_, .tail (.refl _) (Step.timeout w' hp' ha'), ?_⟩
    refine ⟨by simp [hs.c], hs.jr, hs.mbox, hs.pend, by simp [hs.hist], by simp [hs.outs, hs.c], hs.sub, ?_, ?_⟩
    · exact sim_act_pulls L w w' hb hs _
    · intro t' ht'; exact hs.pendm t' ht'

/-- the simulation lifted to whole executions, from `Bound` alone -/
theorem sim_steps_of_bound (L : Loop σ κ ν ο) {w w2 w' : World σ κ ν ο} (hb : Bound w)
    (hs : Sim w w') (st : Steps L w w2) : ∃ w2', Steps L w' w2' ∧ Sim w2 w2' := by
  induction st with
  | refl => exact ⟨w', .refl _, hs⟩
  | tail h s ih =>
    obtain ⟨wm, hsm, hsim⟩ := ih
    obtain ⟨w3, hs3, hsim3⟩ := sim_step_of_bound L (bound_steps L hb h) hsim s
    exact ⟨w3, hsm.trans hs3, hsim3⟩

/-! ### facts about every world of a run with any number of stops -/

theorem reachC_steps {L : Loop σ κ ν ο} {a b : World σ κ ν ο} (hr : ReachC L a) (h : Steps L a b) :
    ReachC L b := by
  induction h with
  | refl => exact hr
  | tail _ s ih => exact .step ih s

/-- a loop that never arms a timeout never acts on one, in any life -/
theorem noTimeout_of_reachC (L : Loop σ κ ν ο) (hna : NeverArmed L) {w : World σ κ ν ο}
    (hr : ReachC L w) : noTimeout w.hist = true := by
  induction hr with
  | init => rfl
  | step hr hs ih =>
    cases hs with
    | finish t v hm hp hmemo => exact ih
    | recv t m rest hm hp hmemo hmb => exact ih
    | send m => exact ih
    | record t v hp hm hmemo => exact ih
    | actOn t v hp hmemo => simp [noTimeout_append, ih, noTimeout]
    | timeout hp ha => rw [hna] at ha; cases ha
  | crash hr h _ => exact (invC_of_recover L h).2

omit [DecidableEq κ] in
theorem cfg0_bound (L : Loop σ κ ν ο) :
    (∀ t ∈ L.cfg0.fl, t.fid ≤ L.cfg0.fidc) ∧ L.cfg0.base ≤ L.cfg0.fidc := by
  refine ⟨?_, by simp [Loop.cfg0]⟩
  intro t ht
  have := spawn_fid 0 L.initTasks t (by simpa [Loop.cfg0] using ht)
  simp [Loop.cfg0]; omega

theorem bound_of_reachC (L : Loop σ κ ν ο) (hk : KeysDistinctCfg L) (hna : NeverArmed L)
    {w : World σ κ ν ο} (hr : ReachC L w) : Bound w := by
  induction hr with
  | init =>
    refine ⟨?_, by intro f v h; simp [Loop.world0] at h⟩
    intro t ht
    have := spawn_fid 0 L.initTasks t (by simpa [Loop.world0, Loop.cfg0] using ht)
    simp [Loop.world0, Loop.cfg0]; omega
  | step hr hs ih => exact bound_step L ih hs
  | @crash w0 wr hr h ih =>
    have hi := invC_of_reachC L hk hr (noTimeout_of_reachC L hna hr)
    simp only [Loop.recover] at h
    split at h
    · cases h
    · rename_i c os ts hrep
      injection h with h
      subst h
      have hb := replay_bound L w0.memo _ _ _ _ _ hrep (cfg0_bound L).1 (cfg0_bound L).2
      refine ⟨hb.1, ?_⟩
      intro f v hx
      simp only [purgeMemo] at hx
      split at hx
      · rename_i hemp
        have hjr : w0.jr = [] := by simpa using hemp
        have hc : c = L.cfg0 := by
          rw [hjr] at hrep
          simp only [Loop.replay] at hrep
          injection hrep with hrep; injection hrep with h1 h2
          exact h1.symm
        have hak : actedKeys w0.hist = [] := by
          have := hi.jr; rw [hjr] at this
          exact (List.append_eq_nil_iff.mp this.symm).1
        have hc0 : w0.c = L.cfg0 := by
          have := hi.rep; rw [hak] at this
          simp only [Loop.replay] at this
          injection this with this; injection this with h1 h2
          exact h1.symm
        have := ih.memo f v hx
        simp only [hc]
        rw [hc0] at this; exact this
      · simp only at hx
        split at hx
        · cases hx
        · have := hb.2.1; simp only; omega

/-- every acted completion is memoised, in every life -/
theorem hist_memo_reachC (L : Loop σ κ ν ο) {w : World σ κ ν ο} (hr : ReachC L w) :
    ∀ t v, some (t, v) ∈ w.hist → w.memo t.fid = some v := by
  induction hr with
  | init => intro t v h; simp [Loop.world0] at h
  | step hr hs ih =>
    cases hs with
    | finish t v hm hp hmemo => intro t' v' h; exact setMemo_mono _ _ _ hmemo _ _ (ih t' v' h)
    | recv t m rest hm hp hmemo hmb => intro t' v' h; exact setMemo_mono _ _ _ hmemo _ _ (ih t' v' h)
    | send m => exact ih
    | record t v hp hm hmemo => exact ih
    | actOn t v hp hmemo =>
      intro t' v' h
      rcases List.mem_append.mp h with h | h
      · exact ih t' v' h
      · simp at h; obtain ⟨h1, h2⟩ := h; subst h1; subst h2; exact hmemo
    | timeout hp ha =>
      intro t' v' h
      rcases List.mem_append.mp h with h | h
      · exact ih t' v' h
      · simp at h
  | @crash w0 wr hr h _ =>
    simp only [Loop.recover] at h
    split at h
    · cases h
    · rename_i c os ts hrep
      injection h with h
      subst h
      have hb := replay_bound L w0.memo _ _ _ _ _ hrep (cfg0_bound L).1 (cfg0_bound L).2
      intro t v hmem
      simp only at hmem
      obtain ⟨t', ht', he⟩ := List.mem_map.mp hmem
      cases hm : w0.memo t'.fid with
      | none => rw [hm] at he; cases he
      | some x =>
        rw [hm] at he
        simp only [Option.map_some] at he
        injection he with he
        injection he with h1 h2
        subst h1; subst h2
        have hle := hb.2.2.2 t' ht'
        simp only [purgeMemo]
        split
        · exact hm
        · simp only
          split
          · omega
          · exact hm

/-! ### recovery of a world of the k-th life -/

theorem recover_sim_none_reachC (L : Loop σ κ ν ο) (hk : KeysDistinctCfg L) {w : World σ κ ν ο}
    (hr : ReachC L w) (hnt : noTimeout w.hist = true) (hp : w.pend = none)
    (hsafe : w.jr = [] ∨ ∀ t, t ∈ w.c.fl → t.pull = true → w.c.base < t.fid → w.memo t.fid = none) :
    ∃ wr, L.recover w.jr w.memo w.mbox = .ok wr ∧ Sim w wr := by
  have hi := invC_of_reachC L hk hr hnt
  have hjr : w.jr = actedKeys w.hist := by have := hi.jr; rw [hp] at this; simpa using this
  refine ⟨_, by simp only [Loop.recover, hjr, hi.rep]; rfl, ?_⟩
  refine ⟨rfl, hjr.symm, rfl, hp.symm, ?_, rfl, ?_, ?_, ?_⟩
  · exact rebuild_hist w.memo w.hist hnt (hist_memo_reachC L hr)
  · intro f v h
    simp only [purgeMemo] at h
    split at h
    · exact h
    · simp only at h
      split at h
      · cases h
      · exact h
  · intro t ht hpl
    simp only [purgeMemo]
    split
    · rfl
    · rename_i hne
      simp only
      split
      · rename_i hlt
        rcases hsafe with h | h
        · rw [hjr] at h; rw [h] at hne; simp at hne
        · rw [h t ht hpl hlt]
      · rfl
  · intro t ht; rw [hp] at ht; cases ht

theorem settled_reachC (L : Loop σ κ ν ο) {w : World σ κ ν ο} (hr : ReachC L w) :
    ReachC L (settled L w) := by
  unfold settled
  split
  · exact hr
  · rename_i t ht
    split
    · exact hr
    · rename_i v hv; exact .step hr (Step.actOn w t v ht hv)

theorem recover_sim_reachC (L : Loop σ κ ν ο) (hk : KeysDistinctCfg L) {w : World σ κ ν ο}
    (hr : ReachC L w) (hnt : noTimeout w.hist = true) (hsafe : PurgeSafe L w) :
    ∃ wr, L.recover w.jr w.memo w.mbox = .ok wr ∧ Sim (settled L w) wr := by
  have hi := invC_of_reachC L hk hr hnt
  cases hp : w.pend with
  | none =>
    have e : settled L w = w := by simp [settled, hp]
    rw [e]
    exact recover_sim_none_reachC L hk hr hnt hp (by unfold PurgeSafe at hsafe; rw [e] at hsafe; exact hsafe)
  | some t0 =>
    obtain ⟨_, v, hv⟩ := hi.pend t0 hp
    have e : settled L w = actedWorld L w t0 v := by
      simp [settled, hp, hv]
    have hr1 := settled_reachC L hr
    rw [e] at hr1 ⊢
    exact recover_sim_none_reachC L hk hr1 (by simp [actedWorld, noTimeout_append, hnt, noTimeout]) rfl
      (by unfold PurgeSafe at hsafe; rw [e] at hsafe; exact hsafe)

/-- **continuation, any number of stops.**  For a loop that never arms a wait timeout: at every
purge-safe stop point of the k-th life, recovery succeeds, the recovered process simulates the stopped
one, and whatever the stopped process could go on to do the recovered one can do too. -/
theorem recovered_continues_reachC (L : Loop σ κ ν ο) (hk : KeysDistinctCfg L) (hna : NeverArmed L)
    (w w2 : World σ κ ν ο) (hr : ReachC L w) (hsafe : PurgeSafe L w) (hcont : Steps L (settled L w) w2) :
    ∃ wr wr2, L.recover w.jr w.memo w.mbox = .ok wr ∧ Sim (settled L w) wr ∧ Steps L wr wr2 ∧ Sim w2 wr2 ∧
      ReachC L wr ∧ ReachC L wr2 := by
  have hnt := noTimeout_of_reachC L hna hr
  obtain ⟨wr, hrec, hsim⟩ := recover_sim_reachC L hk hr hnt hsafe
  have hb := bound_of_reachC L hk hna (settled_reachC L hr)
  obtain ⟨wr2, hs2, hsim2⟩ := sim_steps_of_bound L hb hsim hcont
  have hrc : ReachC L wr := .crash hr hrec
  exact ⟨wr, wr2, hrec, hsim, hs2, hsim2, hrc, reachC_steps hrc hs2⟩

/-! ### non-vacuity -/
namespace Witness

theorem Lp_neverArmed : NeverArmed Lp := fun _ => rfl

/-- the recovered world `wpr` (second life) is purge-safe with a non-empty journal: its in-flight pull
task has no recorded receive -/
theorem wpr_purgeSafe : PurgeSafe Lp wpr := by
  right
  intro t ht _ _
  have : t = p1 := by
    have h : (settled Lp wpr).c.fl = [p1] := by decide
    rw [h] at ht; simpa using ht
  subst this; rfl

end Witness
end Journal
