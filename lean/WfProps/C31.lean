import WfModel.Serial
import WfProofs.RunnerTimeout
import WfProps.C04
import WfProps.C02
import WfProps.C11
import WfProps.C12
import WfProofs.RebuildRewind
/-!
# C31 — timeout and cancellation stop the run cleanly and keep it resumable

* the timeout tick: publishes `WorkflowTimedOutEvent` naming exactly the steps with an
  invocation in progress, then halts with `timeout`; queues, in-progress tables, buffers and
  waiters are kept;
* the cancel tick: publishes `WorkflowCancelledEvent`, then halts with `cancelledByUser`; the
  broker state is **unchanged**, hence serialisable and resumable exactly as before the cancel;
* on the runner, for every schedule: processing either tick ends the run with that event last
  in the stream, no worker left, and nothing whatsoever happens afterwards (no further step, no
  further publication) — so a run that finished first is never timed out;
* the run timeout is the only source of `TickTimeout`; it is processed, and the run halted with
  `timeout`, only at a clock value ≥ start + timeout;
* a failed attempt whose retry is due at once never leaves the reducer's reach: the re-queue goes
  to the tick buffer (not to the timer heap), the buffer is drained before the mailbox — where a
  `TickCancelRun` may already wait — is looked at, and reducing the re-queue tick puts the event
  back into the step's tables; so the state the cancel tick keeps (and `ctx.to_dict()` writes)
  holds it;
* **every generation**: `ctx.to_dict()` does not read the live state, it rebuilds it
  (`rebuild_state_from_ticks`, model `rebuildAt`) from the state the run was *started from* and
  the tick log.  For a run that was itself resumed from a stopped context that start state has
  queue entries and nothing in progress; the run started them as workers before its first tick
  (`rewind_in_progress`), so the rebuild must rewind too, always: the rewound base has the pending
  work in progress (`C31_rebuild_base_starts_pending`), and from that base the log replays to the
  live state at every point of every schedule, in particular after the cancel / timeout tick
  (`C31_stopped_state_is_replay_of_log`, `C31_rebuilt_context_is_run_state`).
-/
set_option linter.unusedVariables false
open Engine

/-- the steps named by `WorkflowTimedOutEvent` are exactly the steps with an invocation in progress -/
theorem C31_active_steps (cfg : Cfg) (st : State) (s : Nat) :
    s ∈ activeSteps cfg st ↔ s ∈ cfg.names ∧ (st.workers s).inProg ≠ [] := by
  simp [activeSteps, List.mem_filter]

/-- **timeout tick** -/
theorem C31_timeout_tick (cfg : Cfg) (pol : Policy) (t : Nat) (st : State) (now : Int) :
    (reduce cfg pol (.timeout t) st now).2 =
      [.publish (.timedOut t (activeSteps cfg st)), .halt .timeout] ∧
    (reduce cfg pol (.timeout t) st now).1.workers = st.workers ∧
    (reduce cfg pol (.timeout t) st now).1.isRunning = false := by
  simp [reduce, checkIdle]

/-- **cancel tick**: state unchanged; `WorkflowCancelledEvent` then the halt come first -/
theorem C31_cancel_tick (cfg : Cfg) (pol : Policy) (st : State) (now : Int) :
    (reduce cfg pol .cancelRun st now).1 = st ∧
    ∃ tail, (reduce cfg pol .cancelRun st now).2 = [.publish .cancelled, .halt .cancelledByUser] ++ tail := by
  simp only [reduce]
  split
  · exact ⟨rfl, [.scheduleIdleCheck], rfl⟩
  · exact ⟨rfl, [], by simp⟩

/-- processing the timeout tick on a live runner: event last, outcome `timeout`, no worker left -/
theorem C31_drain_timeout (cfg : Cfg) (pol : Policy) (r : Runner) (t : Nat) (rest : List Tick)
    (hlive : r.outcome = none) (hbuf : r.buf = .timeout t :: rest) :
    let r' := r.step cfg pol .drain
    r'.outcome = some (.halted .timeout) ∧
    r'.stream = r.stream ++ [.timedOut t (activeSteps cfg r.st)] ∧
    r'.running = [] ∧ r'.st.workers = r.st.workers := by
  simp only [Runner.step, hlive, Option.isSome_none, Bool.false_eq_true, if_false, hbuf]
  have hc := C31_timeout_tick cfg pol t r.st r.now
  simp only [hc.1]
  simp [execCmds, execCmd, Runner.finish, hc.2.1]

/-- processing the cancel tick on a live runner -/
theorem C31_drain_cancel (cfg : Cfg) (pol : Policy) (r : Runner) (rest : List Tick)
    (hlive : r.outcome = none) (hbuf : r.buf = .cancelRun :: rest) :
    let r' := r.step cfg pol .drain
    r'.outcome = some (.halted .cancelledByUser) ∧
    r'.stream = r.stream ++ [.cancelled] ∧ r'.running = [] ∧ r'.st = r.st := by
  simp only [Runner.step, hlive, Option.isSome_none, Bool.false_eq_true, if_false, hbuf, reduce]
  by_cases hi : checkIdle cfg r.st = true
  · simp [hi, execCmds, execCmd, Runner.finish]
  · simp [hi, execCmds, execCmd, Runner.finish]

/-- **no further steps**: once the run is halted (or ended in any way) no action — worker
completion, mailbox pull, timer, external tick — changes anything -/
theorem C31_nothing_after_end (cfg : Cfg) (pol : Policy) (r : Runner) (acts : List Act)
    (h : r.outcome.isSome = true) : Runner.run cfg pol r acts = r :=
  run_ended cfg pol acts r h

/-- in particular **a run that finished first is never timed out**: its stream and outcome stay -/
theorem C31_finished_never_timed_out (cfg : Cfg) (pol : Policy) (r : Runner) (o : Outcome) (acts : List Act)
    (h : r.outcome = some o) :
    (Runner.run cfg pol r acts).outcome = some o ∧ (Runner.run cfg pol r acts).stream = r.stream := by
  rw [run_ended cfg pol acts r (by simp [h])]
  exact ⟨h, rfl⟩

theorem C31.init_inv (cfg : Cfg) (st0 : State) (now0 : Int) (start : Option Ev) (t : Nat) :
    TimeoutInv (now0 + t) (Runner.init cfg st0 now0 start (some t)) := by
  unfold Runner.init
  dsimp only
  apply execCmds_timeoutInv
  · refine ⟨?_, ?_, ?_, ?_, ?_⟩
    · intro tm htm _
      simp only [Runner.push, List.nil_append, List.mem_singleton] at htm
      subst htm; rfl
    · rintro ⟨x, hx, hxt⟩
      simp only [Runner.push] at hx
      rcases List.mem_append.mp hx with hx | hx
      · simp only [rehydrateTicks, List.mem_flatMap, List.mem_map] at hx
        obtain ⟨_, _, _, _, rfl⟩ := hx
        simp [Tick.isTimeout] at hxt
      · cases start with
        | none => simp at hx
        | some e => simp only [List.mem_singleton] at hx; subst hx; simp [Tick.isTimeout] at hxt
    · intro x hx; simp [Runner.push] at hx
    · intro p hp; simp [Runner.push] at hp
    · intro h; simp [Runner.push] at h
  · intro hm
    have := (C04.rewind_plain cfg st0 now0 _ hm).1
    simp [plainCmd, Cmd.isExit] at this

/-- **not before the deadline**, for every schedule: a run started at `now0` with timeout `t` is
halted with `timeout` only at a clock value ≥ `now0 + t`, and every timeout tick in its tick log
was processed at such a time -/
theorem C31_timeout_only_after_deadline (cfg : Cfg) (pol : Policy) (st0 : State) (now0 : Int)
    (start : Option Ev) (t : Nat) (acts : List Act) :
    let r := Runner.run cfg pol (Runner.init cfg st0 now0 start (some t)) acts
    (r.outcome = some (.halted .timeout) → now0 + t ≤ r.now) ∧
    (∀ p ∈ r.log, p.1.isTimeout = true → now0 + t ≤ p.2) := by
  have h := run_timeoutInv cfg pol (now0 + t) acts _ (C31.init_inv cfg st0 now0 start t)
  exact ⟨h.outcome, h.log⟩

/-- only the timeout tick produces `halt timeout` -/
theorem C31_halt_timeout_only_by_timeout_tick (cfg : Cfg) (pol : Policy) (tick : Tick) (st : State) (now : Int)
    (h : Cmd.halt .timeout ∈ (reduce cfg pol tick st now).2) : tick.isTimeout = true :=
  reduce_halt_timeout cfg pol tick st now h

/-- cancelling leaves exactly the serialised context the run had: what is written by
`ctx.to_dict()` after the cancel is what would have been written just before it -/
theorem C31_cancel_keeps_serialised_context (cfg : Cfg) (pol : Policy) (r : Runner) (rest : List Tick)
    (hlive : r.outcome = none) (hbuf : r.buf = .cancelRun :: rest) :
    ser cfg (r.step cfg pol .drain).st = ser cfg r.st := by
  rw [(C31_drain_cancel cfg pol r rest hlive hbuf).2.2.2]

/-! ## non-vacuity -/

def C31.cfg : Cfg := { steps := [{ name := 0, accepted := [0], numWorkers := 1, hasRetry := false }] }
def C31.start : Ev := { ty := 0, kind := .start, uid := 1 }

/-- a run with timeout 5: start event drained, the step is still busy when the timer fires -/
example :
    let r := Runner.run C31.cfg (fun _ _ _ _ => .stop) (Runner.init C31.cfg initState 0 (some C31.start) (some 5))
      [.drain, .advance 5, .timer, .drain]
    r.outcome = some (.halted .timeout) ∧ r.stream.getLast? = some (.timedOut 5 [0]) ∧ r.now = 5 := by decide

example :
    let r := Runner.run C31.cfg (fun _ _ _ _ => .stop) (Runner.init C31.cfg initState 0 (some C31.start) (some 5))
      [.drain, .external .cancelRun, .pull, .drain, .workerDone 0 0 [.result none], .drain]
    r.outcome = some (.halted .cancelledByUser) ∧ r.stream.getLast? = some .cancelled ∧
      (r.st.workers 0).inProg.length = 1 := by decide


/-! ## a retry that is due at once is in the broker state before a cancel can be handled -/

/-- `process_command`: a re-queue without a positive delay — a retry whose policy answers 0 as well
as a plain `delay = None` — is appended to the tick buffer; timer heap, sequence counter, workers,
stream and state are untouched -/
theorem C31_immediate_retry_buffered (r : Runner) (att : Attempt) (step : Option Nat) :
    execCmd r (.queueEvent att step (some 0)) = { r with buf := r.buf ++ [.addEvent att step] } ∧
    execCmd r (.queueEvent att step none) = { r with buf := r.buf ++ [.addEvent att step] } :=
  ⟨rfl, rfl⟩

/-- while a tick is buffered the loop does not look at the mailbox (where a `TickCancelRun` may
wait), takes in no other worker's result and fires no timer: the buffer is drained first -/
theorem C31_buffer_drained_before_mailbox (cfg : Cfg) (pol : Policy) (r : Runner) (t : Tick) (rest : List Tick)
    (hb : r.buf = t :: rest) :
    r.step cfg pol .pull = r ∧ r.step cfg pol .timer = r ∧
    ∀ s w res, r.step cfg pol (.workerDone s w res) = r := by
  refine ⟨?_, ?_, ?_⟩
  · unfold Runner.step; split
    · rfl
    · simp [hb]
  · unfold Runner.step; split
    · rfl
    · simp [hb]
  · intro s w res
    unfold Runner.step; split
    · rfl
    · simp [hb]

/-- reducing the re-queue tick of a retry (`TickAddEvent` addressed to the step) puts the event
back into that step's tables: it holds one attempt more (in progress or queued) — or as many more
as it had waiters for the event -/
theorem C31_requeue_tick_held (cfg : Cfg) (hwf : cfg.WF) (pol : Policy) (att : Attempt) (c : StepCfg)
    (hc : c ∈ cfg.steps) (hacc : c.accepted.contains att.ev.ty = true) (st : State) (now : Int)
    (hinv : IdsInv cfg st) :
    size (st.workers c.name) + 1 ≤
      size ((reduce cfg pol (.addEvent att (some c.name)) st now).1.workers c.name) := by
  have h1 : (reduce cfg pol (.addEvent att (some c.name)) st now).1 =
      (processAddEvent cfg att (some c.name) st now).1 := by
    simp only [reduce]; split <;> rfl
  rw [h1, C02_route_count cfg hwf att (some c.name) st now hinv c hc]
  unfold C02.recipients
  split
  · omega
  · have hm : att.ev.ty ∈ c.accepted := by simpa using hacc
    simp [hm]

/-! Non-vacuity: a step whose policy retries at once; the attempt fails while a cancel is already
in the mailbox.  The result tick re-queues through the buffer (heap empty; for that one tick the
step's tables are empty, hence the idle check behind it), the retry is in progress again before
the cancel tick can be pulled, and the halted run's state still holds it. -/
def C31.retryCfg : Cfg := { steps := [{ name := 0, accepted := [0], numWorkers := 1, hasRetry := true }] }
def C31.atOnce : Policy := fun _ _ _ _ => .retry 0
def C31.race : List Act :=
  [.drain, .external .cancelRun, .workerDone 0 0 [.failed 9 0], .drain]

example : C31.retryCfg.WF := by simp [Cfg.WF, Cfg.names, C31.retryCfg]
example :
    let r := Runner.run C31.retryCfg C31.atOnce (Runner.init C31.retryCfg initState 0 (some C31.start) none) C31.race
    r.outcome = none ∧ r.heap = [] ∧ r.mailbox = [.cancelRun] ∧
    r.buf = [.addEvent { ev := C31.start, attempts := some 1, firstAt := some 0, lastExc := some 9,
                         lastFailedAt := some 0 } (some 0), .idleCheck] ∧
    (r.st.workers 0).inProg = [] ∧
    -- the mailbox is not looked at while the re-queue tick is buffered
    (r.step C31.retryCfg C31.atOnce .pull).mailbox = [.cancelRun] ∧
    (r.step C31.retryCfg C31.atOnce .pull).buf = r.buf := by decide
example :
    let r := Runner.run C31.retryCfg C31.atOnce (Runner.init C31.retryCfg initState 0 (some C31.start) none)
      (C31.race ++ [.pull, .drain, .drain, .pull, .drain])
    r.outcome = some (.halted .cancelledByUser) ∧ r.stream.getLast? = some .cancelled ∧
    ((r.st.workers 0).inProg.map (·.ev)) = [C31.start] ∧ ((r.st.workers 0).inProg.map (·.attempts)) = [1] := by decide


/-! ## every generation: the context of a stopped run that was itself resumed -/

/-- with an empty log the rebuilt state is the **rewound** start state -/
theorem C31_rebuild_rewinds_first (cfg : Cfg) (st0 : State) (now : Int) :
    rebuildAt cfg st0 [] now = some (rewind cfg st0 now).1 := rfl

/-- A context left with work pending for step `c` — executing or only queued — comes back from
`Context.from_dict` with that work in `c`'s queue and **nothing in progress**; the base of the
rebuild (and of the resumed run) nevertheless has an invocation of `c` in progress: the rewind
starts queued work, it does not merely re-number workers that were in progress. -/
theorem C31_rebuild_base_starts_pending (cfg : Cfg) (hwf : cfg.WF) (st : State) (now : Int) (c : StepCfg)
    (hc : c ∈ cfg.steps) (hnw : 0 < c.numWorkers)
    (hp : (st.workers c.name).queue ≠ [] ∨ (st.workers c.name).inProg ≠ []) :
    ((roundtrip cfg st).workers c.name).inProg = [] ∧
    ∃ s, rebuildAt cfg (roundtrip cfg st) [] now = some s ∧ (s.workers c.name).inProg ≠ [] := by
  have hs : cfg.hasStep c.name = true := (hasStep_iff_mem cfg c.name).mpr (List.mem_map_of_mem hc)
  have hr := C12_resumed_step cfg st c.name hs
  refine ⟨hr.2.1, _, rfl, ?_⟩
  apply rewind_starts_pending cfg hwf _ now c hc hnw
  left
  intro hq
  have h1 := hr.1
  rw [hq] at h1
  simp only [List.map_nil] at h1
  have h2 := congrArg List.length h1
  simp only [List.length_nil, List.length_append, List.length_map] at h2
  rcases hp with hp | hp
  · exact hp (List.eq_nil_of_length_eq_zero (by omega))
  · exact hp (List.eq_nil_of_length_eq_zero (by omega))

/-- **for every generation and every schedule**: whatever state the run was started from (a fresh
one, or the deserialised context of a run that was cancelled or timed out before), at every point —
in particular once a cancel or timeout tick has halted it — the state it is left in is the replay
of its tick log from the *rewound* start state, and so is its serialised form -/
theorem C31_stopped_state_is_replay_of_log (cfg : Cfg) (pol : Policy) (st0 : State) (now : Int)
    (start : Option Ev) (timeout : Option Nat) (acts : List Act) :
    let r := Runner.run cfg pol (Runner.init cfg st0 now start timeout) acts
    r.st = C11.replay cfg pol (rewind cfg st0 now).1 r.log ∧
    ser cfg r.st = ser cfg (C11.replay cfg pol (rewind cfg st0 now).1 r.log) := by
  have h := C11_replay_invariant cfg pol st0 now start timeout acts
  exact ⟨h, congrArg (ser cfg) h⟩

theorem C31.rebuild_fold (cfg : Cfg) (pol : Policy) (now : Int) : ∀ (log : List Tick) (acc s : State),
    (log.map (fun t => (t, pol))).foldl (fun (a : Option State) tp => a.bind fun s =>
        let r := reduce cfg tp.2 tp.1 s now
        if r.2.contains .crash then none else some r.1) (some acc) = some s →
    s = C11.replay cfg pol acc (log.map (fun t => (t, now)))
  | [], acc, s, h => by
    simp only [List.map_nil, List.foldl_nil, Option.some.injEq] at h
    simp [C11.replay, h]
  | t :: rest, acc, s, h => by
    simp only [List.map_cons, List.foldl_cons, Option.bind_some] at h
    by_cases hc : (reduce cfg pol t acc now).2.contains .crash = true
    · simp only [hc, if_true] at h
      have hnone : ∀ (l : List (Tick × Policy)), l.foldl (fun (a : Option State) tp => a.bind fun s =>
          let r := reduce cfg tp.2 tp.1 s now
          if r.2.contains .crash then none else some r.1) none = none := by
        intro l
        induction l with
        | nil => rfl
        | cons x xs ih => simpa using ih
      rw [hnone] at h
      cases h
    · simp only [hc, Bool.false_eq_true, if_false] at h
      have ih := C31.rebuild_fold cfg pol now rest _ s h
      simpa [C11.replay] using ih

/-- the rebuilt context **is** the state the run was left in: when the clock did not move between
the start of the run and the `to_dict()` call (every tick logged at `now`; how the result depends
on the clock otherwise is the open `C11_time_erasure_statement`), `rebuild_state_from_ticks` on the
run's own start state and tick log, if it does not raise, returns the live state -/
theorem C31_rebuilt_context_is_run_state (cfg : Cfg) (pol : Policy) (st0 : State) (now : Int)
    (start : Option Ev) (timeout : Option Nat) (acts : List Act) (s : State)
    (hclock : ∀ p ∈ (Runner.run cfg pol (Runner.init cfg st0 now start timeout) acts).log, p.2 = now)
    (h : rebuildAt cfg st0
      ((Runner.run cfg pol (Runner.init cfg st0 now start timeout) acts).log.map (fun p => (p.1, pol))) now = some s) :
    s = (Runner.run cfg pol (Runner.init cfg st0 now start timeout) acts).st := by
  have hinv := C11_replay_invariant cfg pol st0 now start timeout acts
  simp only at hinv
  generalize (Runner.run cfg pol (Runner.init cfg st0 now start timeout) acts) = r at *
  have hmap : r.log.map (fun p => (p.1, pol)) = (r.log.map (·.1)).map (fun t => (t, pol)) := by
    simp [List.map_map]
  have hlog : (r.log.map (·.1)).map (fun t => (t, now)) = r.log := by
    rw [List.map_map]
    apply map_eq_self
    intro p hp
    have := hclock p hp
    cases p with
    | mk a b => simp only at this; simp [this]
  unfold rebuildAt at h
  rw [hmap] at h
  have := C31.rebuild_fold cfg pol now (r.log.map (·.1)) _ s h
  rw [hlog] at this
  rw [hinv]
  exact this

/-! Non-vacuity: the second generation.  The context of a cancelled run holds event 1 for the step
(deserialised: queued, nothing in progress).  The resumed run (no start event) starts it as worker
0 before any tick; the step completes, and the run is cancelled again.  From the rewound start
state the log replays to the (empty) state the run was left in; from the start state as it is, the
first logged result finds no worker 0. -/
def C31.resumedState : State :=
  { isRunning := true, workers := fun s => if s = 0 then { queue := [{ ev := C31.start }] } else {} }
def C31.gen2 : List Act :=
  [.workerDone 0 0 [.result none], .drain, .external .cancelRun, .drain, .pull, .drain]

example : C31.cfg.WF := by simp [Cfg.WF, Cfg.names, C31.cfg]
example :
    ((rewind C31.cfg C31.resumedState 0).1.workers 0).inProg.map (fun i => (i.ev, i.wid)) = [(C31.start, 0)] ∧
    (C31.resumedState.workers 0).inProg = [] := by decide
example :
    let r := Runner.run C31.cfg (fun _ _ _ _ => .stop) (Runner.init C31.cfg C31.resumedState 0 none none) C31.gen2
    r.outcome = some (.halted .cancelledByUser) ∧ r.log.map (·.2) = [0, 0, 0] ∧
    (r.st.workers 0).inProg = [] ∧ (r.st.workers 0).queue = [] ∧
    (rebuildAt C31.cfg C31.resumedState (r.log.map (fun p => (p.1, fun _ _ _ _ => .stop))) 0).map
      (fun s => ((s.workers 0).inProg.length, (s.workers 0).queue.length)) = some (0, 0) ∧
    -- without the rewind the first logged tick (the result of worker 0) cannot be replayed
    (r.log.head?.map fun p => (reduce C31.cfg (fun _ _ _ _ => .stop) p.1 C31.resumedState 0).2.contains .crash) = some true := by
  decide
