import WfProofs.JournalRecover
/-! Concrete loops and crashed processes that witness the two ways recovery departs from the
recorded / uninterrupted execution (C27 findings). -/
namespace Journal
namespace Witness

/-! ### W1 — a scheduled wakeup fires while a task is in flight (timeouts are not journaled) -/

/-- the state is the log of what the loop acted upon: `0` = a timeout, `1` = a completion -/
def Lt : Loop (List Nat) Nat Nat Nat where
  init := []
  initTasks := [(0, false)]
  step := fun s ev => match ev with
    | none => (s ++ [0], [], [0])
    | some _ => (s ++ [1], [], [1])
  armed := fun _ => true

def t0 : Task Nat := ⟨0, 1, false⟩

theorem Lt_keys : KeysDistinct Lt := by
  have key : ∀ w, Reach Lt w → (w.c.fl.map (·.key)).Sublist [0] := by
    intro w hr
    induction hr with
    | init => simp [Loop.world0, Loop.cfg0, Lt, spawn]
    | step hr hs ih =>
      cases hs with
      | finish => exact ih
      | recv => exact ih
      | send => exact ih
      | record => exact ih
      | actOn t v hp hm =>
        simp only [Loop.act, Lt, spawn, List.append_nil]
        exact ((List.erase_sublist).map _).trans ih
      | timeout hp ha =>
        simpa [Loop.act, Lt, spawn] using ih
  intro w hr
  exact (key w hr).nodup (by decide)

/-- the crashed process: the timer fired first, then task 0 finished with value 7, was recorded and acted upon -/
def wt1 : World (List Nat) Nat Nat Nat :=
  { c := (Lt.act Lt.cfg0 none).1, jr := [], memo := fun _ => none, mbox := [], pend := none, hist := [none],
    outs := (Lt.act Lt.cfg0 none).2 }
def wt2 : World (List Nat) Nat Nat Nat := { wt1 with memo := setMemo wt1.memo 1 7 }
def wt3 : World (List Nat) Nat Nat Nat := { wt2 with jr := [0], pend := some t0 }
def wt : World (List Nat) Nat Nat Nat :=
  { wt3 with c := (Lt.act wt3.c (some (t0, 7))).1, pend := none, hist := wt3.hist ++ [some (t0, 7)],
             outs := wt3.outs ++ (Lt.act wt3.c (some (t0, 7))).2 }

theorem wt_reach : Reach Lt wt := by
  have h1 : Reach Lt wt1 := .step .init (Step.timeout Lt.world0 rfl rfl)
  have h2 : Reach Lt wt2 := .step h1 (Step.finish wt1 t0 7 (by decide) rfl rfl)
  have h3 : Reach Lt wt3 := .step h2 (Step.record wt2 t0 7 rfl (by decide) rfl)
  exact .step h3 (Step.actOn wt3 t0 7 rfl rfl)

/-- live: timeout, then completion.  recovered: the completion only. -/
theorem wt_live : wt.c.s = [0, 1] ∧ wt.outs = [0, 1] ∧ wt.jr = [0] ∧ wt.pend = none := by decide

theorem wt_replay :
    ∃ c, Lt.replay wt.memo Lt.cfg0 wt.jr = .ok (c, [1], [t0]) ∧ c.s = [1] := ⟨_, rfl, rfl⟩

/-! ### W2 — a received message is purged at the replay→fresh transition -/

def Lp : Loop Nat Nat Nat Nat where
  init := 0
  initTasks := [(0, false)]
  step := fun s _ => if s = 0 then (1, [(1, true)], [s]) else (s + 1, [], [s])
  armed := fun _ => false

def p1 : Task Nat := ⟨1, 2, true⟩

theorem Lp_keys : KeysDistinct Lp := by
  have key : ∀ w, Reach Lp w →
      (w.c.s = 0 ∧ (w.c.fl.map (·.key)).Sublist [0]) ∨ (w.c.s ≠ 0 ∧ (w.c.fl.map (·.key)).Sublist [0, 1]) := by
    intro w hr
    induction hr with
    | init => left; simp [Loop.world0, Loop.cfg0, Lp, spawn]
    | step hr hs ih =>
      cases hs with
      | finish => exact ih
      | recv => exact ih
      | send => exact ih
      | record => exact ih
      | actOn t v hp hm =>
        right
        rcases ih with ⟨h0, hs⟩ | ⟨h0, hs⟩
        · simp only [Loop.act, Lp, h0, if_true, spawn, List.map_append, List.map_cons, List.map_nil]
          refine ⟨by decide, ?_⟩
          have := (((List.erase_sublist (a := t) (l := _)).map (fun x : Task Nat => x.key)).trans hs)
          exact this.append (List.Sublist.refl [1])
        · simp only [Loop.act, Lp, h0, if_false, spawn, List.append_nil]
          exact ⟨by omega, ((List.erase_sublist).map _).trans hs⟩
      | timeout hp ha => simp [Lp] at ha
  intro w hr
  rcases key w hr with ⟨_, h⟩ | ⟨_, h⟩
  · exact h.nodup (by decide)
  · exact h.nodup (by decide)

/-- task 0 finished (value 5), was recorded and acted upon (the pull task is started, function id 2);
message 9 arrived and the pull's `recv` consumed it (memo 2 ↦ 9, mailbox empty); the process stops
before the pull's completion is journaled. -/
def wp1 : World Nat Nat Nat Nat := { Lp.world0 with memo := setMemo Lp.world0.memo 1 5 }
def wp2 : World Nat Nat Nat Nat := { wp1 with jr := [0], pend := some t0 }
def wp3 : World Nat Nat Nat Nat :=
  { wp2 with c := (Lp.act wp2.c (some (t0, 5))).1, pend := none, hist := wp2.hist ++ [some (t0, 5)],
             outs := wp2.outs ++ (Lp.act wp2.c (some (t0, 5))).2 }
def wp4 : World Nat Nat Nat Nat := { wp3 with mbox := wp3.mbox ++ [9] }
def wp : World Nat Nat Nat Nat := { wp4 with memo := setMemo wp4.memo 2 9, mbox := [] }

theorem wp_reach : Reach Lp wp := by
  have h1 : Reach Lp wp1 := .step .init (Step.finish Lp.world0 t0 5 (by decide) rfl rfl)
  have h2 : Reach Lp wp2 := .step h1 (Step.record wp1 t0 5 rfl (by decide) rfl)
  have h3 : Reach Lp wp3 := .step h2 (Step.actOn wp2 t0 5 rfl rfl)
  have h4 : Reach Lp wp4 := .step h3 (Step.send wp3 9)
  exact .step h4 (Step.recv wp4 p1 9 [] (by decide) rfl rfl rfl)

theorem wp_facts : wp.jr = [0] ∧ wp.mbox = [] ∧ wp.memo 2 = some 9 ∧ wp.pend = none ∧
    noTimeout wp.hist = true ∧ p1 ∈ wp.c.fl ∧ wp.c.base = 1 := by decide

end Witness
end Journal
