import WfProofs.EventLogProps
import WfProofs.EventLogWriters
/-!
# C16 — the stored event log is gap-free and resumable from any cursor

Property theorems only (helper lemmas live in `WfProofs/EventLog*.lean`, the model in
`WfModel/EventLog.lean`).  Quantification: every action list `acts : List Act`
(arbitrary interleavings of `append`s — terminal or not, at any position — with
`openSub`s at arbitrary cursors and the atomic `init` / `read` / `emit` / `wake` /
`timeout` / `cancel` steps of any number of subscribers), for both store backends.
`Act.ok` excludes only the storage-level deletion that no code path performs;
`Act.core` additionally excludes the external SQLite writer and poll expiry, which the
memory store does not have.
-/
open EventLog

/-- The sources (regenerated from `/repo` on every run) still have the shape the model
transcribes: the names tested for, the terminal statuses, the events table, and the
statement skeletons of the nine store / resolution functions, the cursor part of
`_stream_events` and its two frame formats. -/
theorem C16_source_shape :
    Gen.EventLog.terminalName = "StopEvent" ∧
    Gen.EventLog.internalName = "InternalDispatchEvent" ∧
    Gen.EventLog.terminalStatuses = ["cancelled", "completed", "failed"] ∧
    Gen.EventLog.eventsTableColumns = "id INTEGER PRIMARY KEY AUTOINCREMENT, run_id TEXT NOT NULL, sequence INTEGER NOT NULL, timestamp TEXT NOT NULL, event_json TEXT NOT NULL" ∧
    Gen.EventLog.abstractIsTerminal = [
      "return StopEvent.__name__ in (event.event.types or []) + [event.event.type]"
    ] ∧
    Gen.EventLog.abstractSubscribe = [
      "v0 = after_sequence",
      "while True:",
      "    v1 = await self.query_events(run_id, after_sequence=v0)",
      "    for v2 in v1:",
      "        yield v2",
      "        v0 = v2.sequence",
      "        if self._is_terminal_event(v2):",
      "            return",
      "    if not v1:",
      "        await asyncio.sleep(self.poll_interval)"
    ] ∧
    Gen.EventLog.memAppend = [
      "if run_id not in self.events:",
      "    self.events[run_id] = []",
      "self.events[run_id].append(StoredEvent(run_id=run_id, sequence=self.events[run_id][-1].sequence + 1 if self.events[run_id] else 0, timestamp=datetime.now(timezone.utc), event=event))",
      "if self._conditions.get(run_id) is not None:",
      "    async with self._conditions.get(run_id):",
      "        self._conditions.get(run_id).notify_all()"
    ] ∧
    Gen.EventLog.memQuery = [
      "v0 = self.events.get(run_id, [])",
      "if after_sequence is not None:",
      "    v0 = [v1 for v1 in v0 if v1.sequence > after_sequence]",
      "if limit is not None:",
      "    v0 = v0[:limit]",
      "return v0"
    ] ∧
    Gen.EventLog.memSubscribe = [
      "v0 = self.events.get(run_id, [])",
      "if after_sequence >= 0:",
      "    v1 = 0",
      "    for v2, v3 in enumerate(v0):",
      "        if v3.sequence <= after_sequence:",
      "            v1 = v2 + 1",
      "else:",
      "    v1 = 0",
      "while True:",
      "    async with self._get_or_create_condition(run_id):",
      "        v0 = self.events.get(run_id, [])",
      "        while v1 < len(v0) and v0[v1].sequence <= after_sequence:",
      "            v1 += 1",
      "        v4 = v0[v1:]",
      "        if not v4:",
      "            await self._get_or_create_condition(run_id).wait()",
      "            continue",
      "    for v5 in v4:",
      "        yield v5",
      "        v1 += 1",
      "        if self._is_terminal_event(v5):",
      "            return"
    ] ∧
    Gen.EventLog.sqlAppend = [
      "with self._connect() as v0:",
      "    v0.execute('INSERT INTO events (run_id, sequence, timestamp, event_json) VALUES (?, COALESCE((SELECT MAX(sequence) FROM events WHERE run_id = ?), -1) + 1, CURRENT_TIMESTAMP, ?)', (run_id, run_id, event.model_dump_json()))",
      "    v0.commit()",
      "if self._conditions.get(run_id) is not None:",
      "    async with self._conditions.get(run_id):",
      "        self._conditions.get(run_id).notify_all()"
    ] ∧
    Gen.EventLog.sqlQuery = [
      "v0 = 'SELECT run_id, sequence, timestamp, event_json FROM events WHERE run_id = ?'",
      "if after_sequence is not None:",
      "    v0 += ' AND sequence > ?'",
      "    [run_id].append(after_sequence)",
      "v0 += ' ORDER BY sequence'",
      "if limit is not None:",
      "    v0 += ' LIMIT ?'",
      "    [run_id].append(limit)",
      "with self._connect() as v1:",
      "    v2 = v1.cursor()",
      "    v2.execute(v0, [run_id])",
      "    v3 = v2.fetchall()",
      "return [StoredEvent(run_id=v4[0], sequence=v4[1], timestamp=datetime.fromisoformat(v4[2]), event=EventEnvelopeWithMetadata.model_validate_json(v4[3])) for v4 in v3]"
    ] ∧
    Gen.EventLog.sqlSubscribe = [
      "v0 = after_sequence",
      "while True:",
      "    async with self._get_or_create_condition(run_id):",
      "        v1 = await self.query_events(run_id, after_sequence=v0)",
      "        if not v1:",
      "            with contextlib.suppress(TimeoutError):",
      "                await asyncio.wait_for(self._get_or_create_condition(run_id).wait(), timeout=self.poll_interval)",
      "            continue",
      "    for v2 in v1:",
      "        yield v2",
      "        v0 = v2.sequence",
      "        if self._is_terminal_event(v2):",
      "            return"
    ] ∧
    Gen.EventLog.apiResolve = [
      "if not await self._service.store.query(HandlerQuery(handler_id_in=[handler_id])):",
      "    raise HTTPException(detail='Handler not found', status_code=404)",
      "if (await self._service.store.query(HandlerQuery(handler_id_in=[handler_id])))[0].run_id is None:",
      "    raise HTTPException(detail='Handler has no associated run', status_code=404)",
      "if after_sequence is None:",
      "    v0 = await self._service.store.query_events((await self._service.store.query(HandlerQuery(handler_id_in=[handler_id])))[0].run_id)",
      "    after_sequence = v0[-1].sequence if v0 else -1",
      "if not await self._service.store.query_events((await self._service.store.query(HandlerQuery(handler_id_in=[handler_id])))[0].run_id, after_sequence=after_sequence):",
      "    v1 = await self._service.store.query_events((await self._service.store.query(HandlerQuery(handler_id_in=[handler_id])))[0].run_id)",
      "    v2 = is_terminal_status((await self._service.store.query(HandlerQuery(handler_id_in=[handler_id])))[0].status) or (bool(v1) and AbstractWorkflowStore._is_terminal_event(v1[-1]))",
      "    if v2:",
      "        return None",
      "async def v3():",
      "    async for v4 in self._service.store.subscribe_events((await self._service.store.query(HandlerQuery(handler_id_in=[handler_id])))[0].run_id, after_sequence=after_sequence):",
      "        v5 = v4.event",
      "        v6 = (v5.types or []) + [v5.type]",
      "        if not include_internal and InternalDispatchEvent.__name__ in v6:",
      "            continue",
      "        if not include_qualified_name:",
      "            v5 = v5.model_copy(update={'qualified_name': None})",
      "        yield (v4.sequence, v5)",
      "return v3()"
    ] ∧
    Gen.EventLog.apiCursor = [
      "if request.query_params.get('after_sequence', 'now').lower() == 'now':",
      "    v0: int | None = None",
      "else:",
      "    try:",
      "        v0 = int(request.query_params.get('after_sequence', 'now'))",
      "    except ValueError:",
      "        raise HTTPException(detail=f\"Invalid after_sequence: '{request.query_params.get('after_sequence', 'now')}'\", status_code=400)",
      "if request.query_params.get('sse', 'true').lower() == 'true':",
      "    v1 = request.headers.get('last-event-id')",
      "    if v1 is not None:",
      "        try:",
      "            v0 = int(v1)",
      "        except ValueError:",
      "            pass",
      "if await self._resolve_event_stream(request.path_params['handler_id'], after_sequence=v0, include_internal=request.query_params.get('include_internal', 'false').lower() == 'true', include_qualified_name=request.query_params.get('include_qualified_name', 'true').lower() == 'true') is None:",
      "    raise HTTPException(detail='Handler is completed', status_code=204)"
    ] ∧
    Gen.EventLog.apiFrames = ["id: {0}\ndata: {1}\n\n", "{0}\n"] :=
  ⟨rfl, rfl, rfl, rfl, rfl, rfl, rfl, rfl, rfl, rfl, rfl, rfl, rfl, rfl, rfl⟩

/-- a concrete interleaving used by the non-vacuity examples: two stored events, a
subscriber from the beginning that is slow (an append lands while it is suspended
mid-batch), a terminal event, a second subscriber resuming after sequence 0, an event
published after the terminal one -/
def C16_demo : List Act :=
  [.append 10 "Event" [], .append 11 "StepStateChanged" ["InternalDispatchEvent"], .openSub (-1),
   .init 0, .read 0, .emit 0, .append 12 "Event" [], .emit 0, .read 0, .emit 0, .read 0,
   .append 13 "WorkflowFailedEvent" ["StopEvent"], .wake 0, .read 0, .emit 0,
   .openSub 0, .init 1, .read 1, .emit 1, .append 14 "Event" [], .emit 1, .emit 1, .read 1, .emit 1]

/-! ## consecutive numbering in publication order -/

/-- Whatever the interleaving, the stored events carry the sequence numbers
0, 1, 2, … and are stored in publication order. -/
theorem C16_consecutive (b : Backend) (acts : List Act) (hok : ∀ a ∈ acts, a.ok = true) :
    (∀ i (hi : i < (run b acts).log.length), (run b acts).log[i].seq = i) ∧
    (run b acts).log.map Ev.payload = published b acts := by
  refine ⟨consec_seqs (stinv_run b acts hok).consec, ?_⟩
  obtain ⟨more, h1, h2⟩ := log_runFrom b St.init acts hok
  have : (run b acts).log = more := by simpa [run, St.init] using h1
  rw [this, h2]

example : (run .mem C16_demo).log.map (·.seq) = [0, 1, 2, 3, 4] ∧ (run .sql C16_demo).log.map (·.tag) = [10, 11, 12, 13, 14] := by
  decide

/-! ## a subscription delivers exactly the events above its cursor -/

/-- Safety, for every reachable state (hence every prefix of every execution): what a
subscriber opened after `k` has yielded is a prefix of "the events with sequence `> k`,
in log order, cut right after the first terminal one"; its sequences are
`max (k+1) 0, +1, +2, …` (in order, no gap, no duplicate); a terminal event it has yielded
is the last thing it yielded and the subscriber is finished; a finished subscriber has
delivered the whole stream. -/
theorem C16_subscribe_exact (b : Backend) (acts : List Act) (hok : ∀ a ∈ acts, a.ok = true)
    (x : Sub) (hx : x ∈ (run b acts).subs) :
    x.out <+: stream x.after (run b acts).log ∧
    (∀ j (hj : j < x.out.length), x.out[j].seq = ((x.after + 1).toNat : Int) + j) ∧
    (∀ e ∈ x.out, e.terminal = true →
      x.out.getLast? = some e ∧ (x.phase = .done ∨ x.phase = .closed)) ∧
    (x.phase = .done → x.out = stream x.after (run b acts).log ∧
      ∃ e, x.out.getLast? = some e ∧ e.terminal = true) := by
  have hs := stinv_run b acts hok
  have hi := hs.subs x hx
  refine ⟨sub_safe hs.consec hi, ?_, ?_, ?_⟩
  · intro j hj
    exact sub_out_seq hs.consec hi j hj
  · intro e he ht
    constructor
    · rcases mem_dropLast_or_last he with h | h
      · have := hi.noTermInit e h
        rw [ht] at this; cases this
      · exact h
    · apply Decidable.byContradiction
      intro hn
      have hn' : x.phase ≠ .done ∧ x.phase ≠ .closed := by
        constructor <;> (intro h; exact hn (by simp [h]))
      have := hi.noTerm hn'.1 hn'.2 e he
      rw [ht] at this; cases this
  · intro hd
    exact ⟨sub_done hs.consec hi hd, hi.doneLast hd⟩

example : (run .mem C16_demo).subs.map (fun x => (x.after, x.out.map (·.seq), x.phase)) =
    [(-1, [0, 1, 2, 3], .done), (0, [1, 2, 3], .done)] := by decide

/-- No missed wake-up in the memory store: a subscriber that waits without having been
notified has nothing unread — the read that found the batch empty and the registration of
the waiter are one await-free section, and every append notifies. -/
theorem C16_no_missed_wakeup (acts : List Act) (hok : ∀ a ∈ acts, a.ok = true)
    (x : Sub) (hx : x ∈ (run .mem acts).subs) (hw : x.phase = .waiting false) :
    x.out = stream x.after (run .mem acts).log := by
  have hs := stinv_run .mem acts hok
  have hi := hs.subs x hx
  have hset : Settled (run .mem acts).log x := Or.inr ⟨⟨false, hw⟩, hi.noMiss rfl hw⟩
  exact (settled_complete hs.consec hi hset).1

example : ((run .mem [.append 1 "Event" [], .openSub (-1), .init 0, .read 0, .emit 0, .read 0]).subs.map (·.phase))
    = [.waiting false] := by decide

/-- Completeness under fairness: from any reachable state, if subscriber `i` (not
closed by its consumer) keeps being scheduled — `n` rounds of its own actions, `n` larger
than the log — it has delivered exactly the events with sequence `> k`, cut right after the
first terminal one, and has stopped if there is a terminal one.  (For SQLite this holds
even when another process wrote the rows: the poll expiry is one of the actions.) -/
theorem C16_subscribe_complete (b : Backend) (acts : List Act) (hok : ∀ a ∈ acts, a.ok = true)
    (i : Nat) (x : Sub) (hx : (run b acts).subs[i]? = some x) (hl : x.phase ≠ .closed)
    (n : Nat) (hn : (run b acts).log.length < n) :
    (runFrom b (run b acts) (rounds i n)).log = (run b acts).log ∧
    ∃ y, (runFrom b (run b acts) (rounds i n)).subs[i]? = some y ∧ y.after = x.after ∧
      y.out = stream x.after (run b acts).log ∧
      ((∃ e ∈ stream x.after (run b acts).log, e.terminal = true) → y.phase = .done) :=
  complete_state (stinv_run b acts hok) i x hx hl n hn

example : ((runFrom .sql (run .sql [.xappend 1 "Event" [], .openSub (-1), .init 0, .read 0, .emit 0, .read 0,
      .xappend 2 "Event" [], .xappend 3 "StopEvent" []]) (rounds 0 4)).subs.map fun x => (x.out.map (·.seq), x.phase))
    = [([0, 1, 2], .done)] := by decide

/-! ## resume -/

/-- Spec level: for any reachable log, any cursors `k0 ≤ k` such that no terminal event
lies in `(k0, k]` (the client has not seen the end), what the stream after `k0` showed up to
`k`, followed by the stream after `k`, is the uninterrupted stream after `k0`. -/
theorem C16_resume_spec (b : Backend) (acts : List Act) (hok : ∀ a ∈ acts, a.ok = true)
    (k0 k : Int) (hk : k0 ≤ k)
    (hnt : ∀ e ∈ (run b acts).log, k0 < e.seq → e.seq ≤ k → e.terminal = false) :
    seenUpTo k (stream k0 (run b acts).log) ++ stream k (run b acts).log = stream k0 (run b acts).log :=
  resume_spec (stinv_run b acts hok).consec hk hnt

example : seenUpTo 1 (stream (-1) (run .mem C16_demo).log) ++ stream 1 (run .mem C16_demo).log
    = stream (-1) (run .mem C16_demo).log ∧ (stream 1 (run .mem C16_demo).log).map (·.seq) = [2, 3] := by decide

/-- Machine level: in any reachable state, if a subscriber `x1` last yielded the
(non-terminal) event `e` and a subscriber `x2` was opened after `e.seq`, then what `x1`
saw followed by the full stream of `x2`'s cursor is the uninterrupted stream of `x1`'s
cursor, and what both have yielded so far is a prefix of it (nothing lost, nothing
twice, whatever the interleaving). -/
theorem C16_resume (b : Backend) (acts : List Act) (hok : ∀ a ∈ acts, a.ok = true)
    (x1 x2 : Sub) (h1 : x1 ∈ (run b acts).subs) (h2 : x2 ∈ (run b acts).subs)
    (e : Ev) (hlast : x1.out.getLast? = some e) (hnt : e.terminal = false) (hk : x2.after = e.seq) :
    x1.out ++ stream x2.after (run b acts).log = stream x1.after (run b acts).log ∧
    x1.out ++ x2.out <+: stream x1.after (run b acts).log :=
  resume_state (stinv_run b acts hok) x1 x2 h1 h2 e hlast hnt hk

example : (run .sql [.append 1 "Event" [], .append 2 "Event" [], .openSub (-1), .init 0, .read 0, .emit 0,
      .cancel 0, .openSub 0, .append 3 "StopEvent" [], .init 1, .read 1, .emit 1, .emit 1]).subs.map
      (fun x => (x.after, x.out.map (·.seq))) = [(-1, [0]), (0, [1, 2])] := by decide

/-! ## the two backends -/

/-- In-process schedules (no external writer, no poll expiry): the memory store's
list-index cursor machine and the SQLite store's sequence cursor machine move in lockstep —
same log, and subscriber by subscriber the same phase (snapshot batch and notified flag
included) and the same output. -/
theorem C16_backends_agree (acts : List Act) (hcore : ∀ a ∈ acts, a.core = true) :
    (run .mem acts).log = (run .sql acts).log ∧
    (run .mem acts).subs.map Sub.view = (run .sql acts).subs.map Sub.view := by
  have := runFrom_rel (stinv_init .mem) (stinv_init .sql) ⟨rfl, rfl⟩ acts hcore
  exact ⟨this.log, this.subs⟩

example : (∀ a ∈ C16_demo, a.core = true) ∧ (run .mem C16_demo).subs.map Sub.view = (run .sql C16_demo).subs.map Sub.view ∧
    (run .mem C16_demo).subs.map (·.cur) ≠ (run .sql C16_demo).subs.map (·.cur) := by decide

/-- When time may pass (SQLite's poll expiry fires at arbitrary points, so the two
machines are no longer in lockstep): the logs still agree, and a subscriber that keeps being
scheduled ends with the same output in both stores. -/
theorem C16_backends_same_stream (acts : List Act) (hin : ∀ a ∈ acts, a.inproc = true)
    (i : Nat) (xm xq : Sub) (hm : (run .mem acts).subs[i]? = some xm) (hq : (run .sql acts).subs[i]? = some xq)
    (hlm : xm.phase ≠ .closed) (hlq : xq.phase ≠ .closed) (n : Nat) (hn : (run .mem acts).log.length < n) :
    (run .mem acts).log = (run .sql acts).log ∧
    ∃ ym yq, (runFrom .mem (run .mem acts) (rounds i n)).subs[i]? = some ym ∧
      (runFrom .sql (run .sql acts) (rounds i n)).subs[i]? = some yq ∧ ym.out = yq.out := by
  have hr := runFrom_relA (stinv_init .mem) (stinv_init .sql) ⟨rfl, rfl⟩ acts hin
  have hokm : ∀ a ∈ acts, a.ok = true := fun a ha => inproc_ok (hin a ha)
  have hlog : (run .mem acts).log = (run .sql acts).log := hr.log
  have hafter : xm.after = xq.after := by
    have h := congrArg (fun l => l[i]?) hr.subs
    simp only [List.getElem?_map] at h
    have hm' : (run .mem acts).subs[i]? = some xm := hm
    have hq' : (run .sql acts).subs[i]? = some xq := hq
    simp only [run] at hm' hq'
    rw [hm', hq'] at h
    simpa using h
  obtain ⟨_, ym, hym, _, hom, _⟩ := complete_state (stinv_run .mem acts hokm) i xm hm hlm n hn
  obtain ⟨_, yq, hyq, _, hoq, _⟩ := complete_state (stinv_run .sql acts hokm) i xq hq hlq n (by rw [← hlog]; exact hn)
  exact ⟨hlog, ym, yq, hym, hyq, by rw [hom, hoq, hlog, hafter]⟩

example : (run .mem [.openSub (-1), .init 0, .read 0, .append 1 "Event" [], .timeout 0, .read 0, .emit 0]).subs.map (·.out.length) = [0] ∧
    (run .sql [.openSub (-1), .init 0, .read 0, .append 1 "Event" [], .timeout 0, .read 0, .emit 0]).subs.map (·.out.length) = [1] := by
  decide

/-- `query_events` on any reachable log: both stores return the events above the cursor,
in order, truncated to a non-negative limit — and therefore the same list. -/
theorem C16_query_agree (b : Backend) (acts : List Act) (hok : ∀ a ∈ acts, a.ok = true)
    (after : Option Int) (limit : Option Int) (hl : ∀ n, limit = some n → 0 ≤ n) :
    queryEvents .mem (run b acts).log after limit = queryEvents .sql (run b acts).log after limit ∧
    queryEvents b (run b acts).log after none = afterFilter after (run b acts).log := by
  have hc := (stinv_run b acts hok).consec
  refine ⟨query_agree hc after limit hl, ?_⟩
  cases after with
  | none => exact query_all hc
  | some k => exact query_after hc k

example : (queryEvents .sql (run .sql C16_demo).log (some 0) (some 2)).map (·.seq) = [1, 2] := by decide

/-- (reading) a negative `limit` is outside the property: Python slicing drops from the end,
SQLite's `LIMIT -1` means no limit. -/
example : (queryEvents .mem (run .mem C16_demo).log none (some (-1))).length = 4 ∧
    (queryEvents .sql (run .sql C16_demo).log none (some (-1))).length = 5 := by decide

/-! ## `_api.py`: cursor resolution, "now", SSE ids -/

/-- `"now"`: the cursor the endpoint resolves for a reachable log is such that nothing
already stored is delivered, and for every continuation the subscription carries exactly
what is published afterwards (up to the first terminal event). -/
theorem C16_now_resolution (b : Backend) (acts acts' : List Act) (hok : ∀ a ∈ acts, a.ok = true)
    (hok' : ∀ a ∈ acts', a.ok = true) :
    stream (resolveNow b (run b acts).log) (run b acts).log = [] ∧
    ∃ more, (run b (acts ++ acts')).log = (run b acts).log ++ more ∧
      more.map Ev.payload = published b acts' ∧
      stream (resolveNow b (run b acts).log) (run b (acts ++ acts')).log = cutAfterTerminal more := by
  have hok2 : ∀ a ∈ acts ++ acts', a.ok = true := by
    intro a ha
    rcases List.mem_append.mp ha with h | h
    · exact hok a h
    · exact hok' a h
  obtain ⟨more, h1, h2⟩ := log_runFrom b (run b acts) acts' hok'
  have hrun : run b (acts ++ acts') = runFrom b (run b acts) acts' := runFrom_append b St.init acts acts'
  have hc2 := (stinv_run b (acts ++ acts') hok2).consec
  rw [hrun, h1] at hc2
  constructor
  · have := now_spec (b := b) (log := (run b acts).log) (more := []) (by simpa using (stinv_run b acts hok).consec)
    simpa [cutAfterTerminal] using this
  · exact ⟨more, by rw [hrun, h1], h2, by rw [hrun, h1]; exact now_spec hc2⟩

example : resolveNow .sql (run .sql C16_demo).log = 4 ∧ resolveNow .mem (run .mem []).log = -1 := by decide

/-- The cursor part of `_stream_events`: an unparsable `after_sequence` is a 400 whatever
the header says; otherwise in SSE mode an integer `Last-Event-ID` wins over the query
parameter, a non-integer one is ignored; without it (or in NDJSON mode) the parameter
decides, `now` in any letter case and the absent parameter meaning "now". -/
theorem C16_cursor_param (sse : Bool) (h : HeaderVal) (raw : List Char) (n m : Int) :
    resolveParam sse (.given raw none) h = (if raw.map asciiLower = ['n', 'o', 'w'] then
        (match sse, h with | true, .given (some m) => .at m | _, _ => .now) else .invalid) ∧
    resolveParam true (.given raw (some n)) (.given (some m)) = .at m ∧
    resolveParam true .absent (.given (some m)) = .at m ∧
    resolveParam sse .absent .absent = .now ∧
    resolveParam sse .absent (.given none) = .now ∧
    resolveParam false .absent h = .now ∧
    (raw.map asciiLower ≠ ['n', 'o', 'w'] →
      resolveParam false (.given raw (some n)) h = .at n ∧
      resolveParam sse (.given raw (some n)) .absent = .at n ∧
      resolveParam sse (.given raw (some n)) (.given none) = .at n) := by
  refine ⟨?_, ?_, ?_, ?_, ?_, ?_, ?_⟩
  · by_cases hr : raw.map asciiLower = ['n', 'o', 'w']
    · cases sse <;> cases h <;> simp [resolveParam, hr]
      rename_i o; cases o <;> simp
    · simp [resolveParam, hr]
  · by_cases hr : raw.map asciiLower = ['n', 'o', 'w'] <;> simp [resolveParam, hr]
  · simp [resolveParam, defaultAfter, asciiLower]
  · cases sse <;> simp [resolveParam, defaultAfter, asciiLower]
  · cases sse <;> simp [resolveParam, defaultAfter, asciiLower]
  · simp [resolveParam, defaultAfter, asciiLower]
  · intro hr
    refine ⟨?_, ?_, ?_⟩
    · simp [resolveParam, hr]
    · cases sse <;> simp [resolveParam, hr]
    · cases sse <;> simp [resolveParam, hr]

example : resolveParam true (.given ['N', 'o', 'W'] none) (.given (some 7)) = .at 7 ∧
    resolveParam false (.given ['5'] (some 5)) (.given (some 7)) = .at 5 ∧
    resolveParam true (.given ['x'] none) (.given (some 7)) = .invalid := by decide

/-- The endpoint's decision for an existing run on a reachable log: either it opens the
subscription after the resolved cursor, or it answers 204 — and then nothing is withheld:
the stream after that cursor is empty, and the handler has a terminal status or the last
stored event is terminal. -/
theorem C16_resolve_stream (b : Backend) (acts : List Act) (hok : ∀ a ∈ acts, a.ok = true)
    (term : Bool) (c : Cursor) (hc : c ≠ .invalid) :
    let log := (run b acts).log
    let k := match c with
      | .at k => k
      | _ => resolveNow b log
    resolveStream b log (.run term) c = .streamFrom k ∨
    (resolveStream b log (.run term) c = .http 204 ∧ stream k log = [] ∧
      (term = true ∨ ∃ e, log.getLast? = some e ∧ e.terminal = true)) := by
  intro log k
  have hcs := (stinv_run b acts hok).consec
  have hres : resolveStream b log (.run term) c =
      if (queryEvents b log (some k) none).isEmpty && (term || lastIsTerminal b log) then .http 204
      else .streamFrom k := by
    cases c with
    | invalid => exact absurd rfl hc
    | now => rfl
    | «at» k' => rfl
  rw [hres]
  by_cases hcond : ((queryEvents b log (some k) none).isEmpty && (term || lastIsTerminal b log)) = true
  · right
    rw [if_pos hcond]
    simp only [Bool.and_eq_true, Bool.or_eq_true] at hcond
    obtain ⟨hempty, hterm⟩ := hcond
    refine ⟨rfl, ?_, ?_⟩
    · rw [query_after hcs] at hempty
      have : (log.filter fun e => decide (e.seq > k)) = [] := by simpa using hempty
      simp [stream, this, cutAfterTerminal]
    · rcases hterm with h | h
      · exact Or.inl h
      · right
        unfold lastIsTerminal at h
        rw [query_all hcs] at h
        cases hl : log.getLast? with
        | none => rw [hl] at h; cases h
        | some e => rw [hl] at h; exact ⟨e, rfl, h⟩
  · left
    rw [if_neg hcond]

example : resolveStream .mem (run .mem C16_demo).log (.run false) (.at 1) = .streamFrom 1 ∧
    resolveStream .mem (run .mem C16_demo).log (.run true) .now = .http 204 ∧
    resolveStream .sql (run .sql C16_demo).log (.run false) (.at 0) = .streamFrom 0 ∧
    resolveStream .sql [] .notFound .now = .http 404 ∧ resolveStream .sql [] (.run false) .invalid = .http 400 := by
  decide

/-- SSE ids: the `id:` of a frame is the stored sequence of its event; the ids of a
stream after `k` are above `k` and strictly increasing (also when internal events are
filtered out), so the last id a client received identifies its position; and resuming with
that id (`Last-Event-ID`, or `after_sequence`) continues the filtered stream without loss
or repetition. -/
theorem C16_sse_resume (b : Backend) (acts : List Act) (hok : ∀ a ∈ acts, a.ok = true)
    (incl : Bool) (k0 k : Int) (hk : k0 ≤ k)
    (hnt : ∀ e ∈ (run b acts).log, k0 < e.seq → e.seq ≤ k → e.terminal = false) :
    (∀ e, frameId true e = some e.seq ∧ frameId false e = none) ∧
    (∀ e ∈ apiStream incl k0 (run b acts).log, k0 < e.seq) ∧
    (apiStream incl k0 (run b acts).log).Pairwise (fun a c => a.seq < c.seq) ∧
    seenUpTo k (apiStream incl k0 (run b acts).log) ++ apiStream incl k (run b acts).log =
      apiStream incl k0 (run b acts).log := by
  have hc := (stinv_run b acts hok).consec
  refine ⟨fun e => ⟨rfl, rfl⟩, ?_, ?_, ?_⟩
  · intro e he
    exact stream_gt k0 (List.mem_filter.mp he).1
  · exact (stream_pairwise hc k0).sublist List.filter_sublist
  · unfold apiStream
    rw [seenUpTo_filter, ← List.filter_append, resume_spec hc hk hnt]

example : (apiStream false (-1) (run .mem C16_demo).log).map (frameId true) = [some 0, some 2, some 3] ∧
    (apiStream true 0 (run .sql C16_demo).log).map (frameId true) = [some 1, some 2, some 3] := by decide

/-! ## several writers on one SQLite file, statement by statement

`SqliteWorkflowStore` opens a connection per call and is shared by several processes /
store objects on one `db_path`.  Model step = ONE statement sent to a connection
(`WfModel/EventLogWriters.lean`); schedules are arbitrary `List WAct`: any number of
writers start the program, execute their next statement (a write statement has no effect
while another writer's transaction holds the write lock), or give up. -/

/-- "whatever the statement-level interleaving of writers that all run `prog`, the
committed rows of the run are numbered 0, 1, 2, … in commit order" -/
def C16_writers_statement (prog : List Stmt) : Prop :=
  ∀ acts : List WAct, (∀ a ∈ acts, a.runs prog = true) →
    ∀ i (hi : i < (wrun acts).rows.length), (wrun acts).rows[i].seq = i

/-- What `SqliteWorkflowStore.append_event` sends to its connection (regenerated from
`/repo` on every run) is the single-statement form: one INSERT in which the database
computes `COALESCE(MAX(sequence), -1) + 1`, then COMMIT. -/
theorem C16_writers_program :
    Gen.EventLog.sqlAppendStatements = [sqlInsertMax, "COMMIT"] ∧
    appendProgram = [.insertMax, .commit] := by
  constructor
  · rfl
  · decide +kernel

/-- General form: as long as every program's INSERT computes the sequence number itself
(no statement inserts a number read by an earlier statement), after every statement of
every schedule the committed rows followed by the lock holder's uncommitted rows are
numbered 0, 1, 2, …; without a lock holder nothing is uncommitted. -/
theorem C16_writers_atomic_insert (acts : List WAct) (h : ∀ a ∈ acts, a.atomicSeq = true) :
    (∀ i (hi : i < ((wrun acts).rows ++ (wrun acts).dirty).length),
      ((wrun acts).rows ++ (wrun acts).dirty)[i].seq = i) ∧
    ((wrun acts).lock = none → (wrun acts).dirty = []) :=
  ⟨consec_seqs (winv_run acts h).consec, (winv_run acts h).clean⟩

/-- The program the code runs keeps sequence numbers unique and gap-free in commit order
under ANY statement-level interleaving of any number of writers. -/
theorem C16_writers_consecutive : C16_writers_statement appendProgram := by
  intro acts h
  have hp : appendProgram.all Stmt.atomicSeq = true := by rw [C16_writers_program.2]; decide
  have hi := winv_run acts (fun a ha => atomicSeq_of_runs hp (h a ha))
  exact consec_seqs (consec_prefix hi.consec)

/-- a schedule of two writers: both start, A inserts (takes the lock), B's INSERT has to
wait, A commits, B inserts and commits -/
def C16_writers_demo : List WAct :=
  [.start 0 appendProgram 1 "Event" [], .start 1 appendProgram 2 "StopEvent" [], .exec 0, .exec 1, .exec 0, .exec 1, .exec 1]

example : (∀ a ∈ C16_writers_demo, a.runs appendProgram = true) ∧
    (wrun (C16_writers_demo.take 4)).lock = some 0 ∧ (wrun (C16_writers_demo.take 4)).dirty.map (·.tag) = [1] ∧
    (wrun C16_writers_demo).rows.map (fun e => (e.seq, e.tag)) = [(0, 1), (1, 2)] := by
  simp only [C16_writers_demo, C16_writers_program.2]
  decide

/-- two writers running read-then-insert: both read MAX, then each inserts what it read -/
def C16_writers_collision : List WAct :=
  [.start 0 readThenInsert 1 "Event" [], .exec 0, .exec 0, .exec 0,
   .start 0 readThenInsert 2 "Event" [], .start 1 readThenInsert 3 "Event" [],
   .exec 0, .exec 1, .exec 1, .exec 1, .exec 0, .exec 0]

/-- Read-then-insert (`SELECT MAX(sequence)`, `+ 1` in Python, INSERT of that value) does NOT
have the property: when another writer's INSERT and COMMIT land between the SELECT and the
INSERT, two committed rows carry the same sequence number, and a client that saw the first
of them (sequence 1) and resumes after 1 is never sent the second. -/
theorem C16_writers_read_then_insert_collides :
    ¬ C16_writers_statement readThenInsert ∧
    (wrun C16_writers_collision).rows.map (fun e => (e.seq, e.tag)) = [(0, 1), (1, 3), (1, 2)] ∧
    (stream 1 (wrun C16_writers_collision).rows) = [] := by
  refine ⟨?_, by decide, by decide⟩
  intro h
  have := h C16_writers_collision (by decide) 2 (by decide)
  revert this
  decide
