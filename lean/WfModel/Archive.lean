import WfModel.GenArchive
/-!
M14 — backup archives (`control_plane/backup/archive.py`, `backup/encryption.py`).

An archive is the list of its regular-file members `(name, bytes)` in tar order
(tar/gzip framing is `tarfile`'s and is trusted).  YAML and JSON (de)serialisation
are a `Codec`: arbitrary functions with the round-trip laws stated separately
(`Codec.Lawful`, hypotheses of the theorems; the correspondence runs exercise them on
the real PyYAML / json).  The AEAD + KDF of `encryption.py` is an `Aead`: `lock`/`unlock`
keyed by the *password bytes* and the salt (key derivation folded in) with the two
laws in `Aead.Lawful`.  What is modelled exactly is what the two Python files do
themselves: member names and their order, the reader's suffix chain (taken, in source
order, from `GenArchive.readerChain`), dict semantics for duplicate members, which
password test selects which branch (`GenArchive.*Test`), the salt‖nonce‖ciphertext
framing with Python slice semantics, the minimum-length check, and every `raise`.
-/
namespace Archive
open GenArchive

abbrev Bytes := List Nat
abbrev Name := List Char
/-- Python `str` values that are only carried around (timestamp, namespace): code points -/
abbrev Str := List Nat

/-! ## deployment names (`validate_dns_1035_label`, `^[a-z]([a-z0-9-]{0,61}[a-z0-9])?$`) -/

def isLower (c : Char) : Bool := decide (97 ≤ c.toNat) && decide (c.toNat ≤ 122)
def isDigit (c : Char) : Bool := decide (48 ≤ c.toNat) && decide (c.toNat ≤ 57)
def isAlnum (c : Char) : Bool := isLower c || isDigit c
def isLabelChar (c : Char) : Bool := isAlnum c || c == '-'

/-- the explicit well-formedness predicate the property quantifies over -/
def validName (n : Name) : Bool :=
  match n with
  | [] => false
  | c :: rest =>
    isLower c && rest.all isLabelChar &&
      (match (c :: rest).getLast? with | some l => isAlnum l | none => false) &&
      decide ((c :: rest).length ≤ 63)

/-! ## the AEAD of encryption.py -/

/-- `lock pw salt nonce m` = `AESGCM(_derive_key(pw, salt)).encrypt(nonce, m, None)`;
`unlock` = the same with `decrypt`, `none` where the library raises `InvalidTag`. -/
structure Aead where
  lock : Bytes → Bytes → Bytes → Bytes → Bytes
  unlock : Bytes → Bytes → Bytes → Bytes → Option Bytes

structure Aead.Lawful (A : Aead) : Prop where
  open_seal : ∀ pw salt nonce m, A.unlock pw salt nonce (A.lock pw salt nonce m) = some m
  auth : ∀ pw pw' salt nonce m, pw' ≠ pw → A.unlock pw' salt nonce (A.lock pw salt nonce m) = none
  seal_length : ∀ pw salt nonce m, tagLength ≤ (A.lock pw salt nonce m).length

inductive Err where
  | badJson | badYaml | noPassword | tooShort | invalidTag | missingManifest | badVersion | missingField
deriving DecidableEq, Repr

/-- Python `l[lo:hi]` / `l[lo:]` for in-range non-negative bounds -/
def pySlice (l : List α) (lo : Nat) (hi : Option Nat) : List α :=
  match hi with
  | some h => (l.take h).drop lo
  | none => l.drop lo

/-- `encrypt(plaintext, password)` with the two `os.urandom` results made explicit -/
def encrypt (A : Aead) (pw salt nonce m : Bytes) : Bytes :=
  salt ++ nonce ++ A.lock pw salt nonce m

/-- `decrypt(data, password)` -/
def decrypt (A : Aead) (pw data : Bytes) : Except Err Bytes :=
  if data.length < minLength then .error .tooShort
  else
    let salt := pySlice data decSaltLo (some decSaltHi)
    let nonce := pySlice data decNonceLo (some decNonceHi)
    let ct := pySlice data decCtLo none
    match A.unlock pw salt nonce ct with
    | some m => .ok m
    | none => .error .invalidTag

/-! ## serialisation -/

structure Manifest where
  version : Int
  timestamp : Str
  «namespace» : Str
  count : Int
  encrypted : Bool
deriving DecidableEq, Repr

/-- what `json.loads` of a manifest member offers: each key may be absent -/
structure RawManifest where
  version : Option Int
  timestamp : Option Str
  «namespace» : Option Str
  count : Option Int
  encrypted : Option Bool
deriving DecidableEq, Repr

def RawManifest.ofManifest (m : Manifest) : RawManifest :=
  ⟨some m.version, some m.timestamp, some m.namespace, some m.count, some m.encrypted⟩

/-- `Y` = the values YAML carries (CR dicts and secret maps alike: the reader does not look inside) -/
structure Codec (Y : Type) where
  encY : Y → Bytes                          -- `yaml.dump(v, default_flow_style=False).encode()`
  decY : Bytes → Option Y                   -- `yaml.safe_load(bytes)`
  encManifest : Manifest → Bytes            -- `json.dumps(manifest, indent=2).encode()`
  decManifest : Bytes → Option RawManifest  -- `json.loads(bytes)`
  encMeta : Int → Bytes                     -- `json.dumps({"generation": g}).encode()`
  decMeta : Bytes → Option (Option Int)     -- `json.loads(bytes)` then `.get("generation")`

structure Codec.Lawful (C : Codec Y) : Prop where
  y_rt : ∀ y, C.decY (C.encY y) = some y
  manifest_rt : ∀ m, C.decManifest (C.encManifest m) = some (RawManifest.ofManifest m)
  meta_rt : ∀ g, C.decMeta (C.encMeta g) = some (some g)

/-! ## password tests (which of them the source uses comes from `GenArchive`) -/

/-- the password a branch guarded by test `code` encrypts with, if it is taken:
`0` = `pw is not None`, `1` = truthiness of `pw` (the empty string is falsy) -/
def encPw (code : Nat) (pw : Option Bytes) : Option Bytes :=
  match code, pw with
  | 0, some p => some p
  | 1, some p => if p.isEmpty then none else some p
  | _, _ => none

/-- the reader's "no password" test: `0` = `pw is None`, `1` = `not pw` -/
def decPw (code : Nat) (pw : Option Bytes) : Option Bytes := encPw code pw

/-! ## the writer -/

inductive Cat where
  | manifest | secEnc | gmeta | secClear | cr
deriving DecidableEq, Repr

def Cat.ofCode : Nat → Option Cat
  | 0 => some .manifest | 1 => some .secEnc | 2 => some .gmeta | 3 => some .secClear | 4 => some .cr
  | _ => none

abbrev Member := Name × Bytes

def alookup (k : Name) : List (Name × α) → Option α
  | [] => none
  | (k', v) :: rest => if k' = k then some v else alookup k rest

/-- what is backed up: `deployments` (name looked up in `metadata.name`, absent ↦ default),
`secrets`, `generations` (`None` or a dict), `namespace`, `timestamp` -/
structure Backup (Y : Type) where
  deps : List (Option Name × Y)
  secrets : List (Name × Y)
  gens : Option (List (Name × Int))
  «namespace» : Str
  timestamp : Str

def depName (d : Option Name × Y) : Name := d.1.getD defaultName

/-- `generations and name in generations` then `generations[name]` -/
def genOf (gens : Option (List (Name × Int))) (n : Name) : Option Int :=
  match gens with
  | none => none
  | some g => alookup n g

def manifestOf (pw : Option Bytes) (b : Backup Y) : Manifest :=
  { version := writeVersion, timestamp := b.timestamp, «namespace» := b.namespace,
    count := b.deps.length, encrypted := (encPw manifestEncTest pw).isSome }

/-- a written member together with where it came from -/
structure Tagged where
  cat : Cat
  dep : Name
  member : Member

/-- the generation member of deployment `n`, if `generations` has an entry for it -/
def metaTagged (C : Codec Y) (gens : Option (List (Name × Int))) (n : Name) : List Tagged :=
  match genOf gens n with
  | some g => [⟨.gmeta, n, (n ++ metaSuffix, C.encMeta g)⟩]
  | none => []

/-- the members of one deployment; `k` counts the `encrypt` calls made so far
(`rnd k` = the salt and nonce `os.urandom` returns for call number `k`) -/
def writeDep (A : Aead) (C : Codec Y) (pw : Option Bytes) (rnd : Nat → Bytes × Bytes)
    (secrets : List (Name × Y)) (gens : Option (List (Name × Int))) (k : Nat) (d : Option Name × Y) :
    List Tagged × Nat :=
  let n := depName d
  let crM : Tagged := ⟨.cr, n, (n ++ crSuffix, C.encY d.2)⟩
  match alookup n secrets with
  | none => (crM :: metaTagged C gens n, k)
  | some s =>
    match encPw writeEncTest pw with
    | some p =>
      (crM :: ⟨.secEnc, n, (n ++ secEncSuffix, encrypt A p (rnd k).1 (rnd k).2 (C.encY s))⟩ ::
        metaTagged C gens n, k + 1)
    | none => (crM :: ⟨.secClear, n, (n ++ secClearSuffix, C.encY s)⟩ :: metaTagged C gens n, k)

def writeDeps (A : Aead) (C : Codec Y) (pw : Option Bytes) (rnd : Nat → Bytes × Bytes)
    (secrets : List (Name × Y)) (gens : Option (List (Name × Int))) : Nat → List (Option Name × Y) → List Tagged
  | _, [] => []
  | k, d :: ds =>
    let r := writeDep A C pw rnd secrets gens k d
    r.1 ++ writeDeps A C pw rnd secrets gens r.2 ds

def writeTagged (A : Aead) (C : Codec Y) (pw : Option Bytes) (rnd : Nat → Bytes × Bytes) (b : Backup Y) :
    List Tagged :=
  ⟨.manifest, manifestName, (manifestName, C.encManifest (manifestOf pw b))⟩ ::
    writeDeps A C pw rnd b.secrets b.gens 0 b.deps

/-- `create_backup_archive` -/
def write (A : Aead) (C : Codec Y) (pw : Option Bytes) (rnd : Nat → Bytes × Bytes) (b : Backup Y) :
    List Member :=
  (writeTagged A C pw rnd b).map (·.member)

/-! ## the reader -/

/-- `name.removesuffix(suf)` -/
def removeSuffix (n suf : Name) : Name :=
  if suf.isSuffixOf n then n.take (n.length - suf.length) else n

/-- the if/elif chain: category and `deploy_name`, `none` = the member is ignored -/
def classifyGo (n : Name) : List (Bool × List Char × List Char × Nat) → Option (Cat × Name)
  | [] => none
  | (isSuf, lit, rm, code) :: rest =>
    if (if isSuf then lit.isSuffixOf n else n == lit) then
      (Cat.ofCode code).map fun c => (c, if isSuf then removeSuffix n rm else n)
    else classifyGo n rest

def classify (n : Name) : Option (Cat × Name) := classifyGo n readerChain

/-- `d[k] = v` on an insertion-ordered dict -/
def upsert (k : Name) (v : α) : List (Name × α) → List (Name × α)
  | [] => [(k, v)]
  | (k', v') :: rest => if k' = k then (k, v) :: rest else (k', v') :: upsert k v rest

structure RState (Y : Type) where
  crs : List (Name × Y) := []
  secs : List (Name × Y) := []
  metas : List (Name × Option Int) := []
  manifest : Option RawManifest := none

def readMember (A : Aead) (C : Codec Y) (pw : Option Bytes) (st : RState Y) (m : Member) :
    Except Err (RState Y) :=
  match classify m.1 with
  | none => .ok st
  | some (.manifest, _) =>
    match C.decManifest m.2 with
    | some r => .ok { st with manifest := some r }
    | none => .error .badJson
  | some (.secEnc, dn) =>
    match decPw readNoPwTest pw with
    | none => .error .noPassword
    | some p =>
      match decrypt A p m.2 with
      | .error e => .error e
      | .ok plain =>
        match C.decY plain with
        | some y => .ok { st with secs := upsert dn y st.secs }
        | none => .error .badYaml
  | some (.gmeta, dn) =>
    match C.decMeta m.2 with
    | some g => .ok { st with metas := upsert dn g st.metas }
    | none => .error .badJson
  | some (.secClear, dn) =>
    match C.decY m.2 with
    | some y => .ok { st with secs := upsert dn y st.secs }
    | none => .error .badYaml
  | some (.cr, dn) =>
    match C.decY m.2 with
    | some y => .ok { st with crs := upsert dn y st.crs }
    | none => .error .badYaml

def readMembers (A : Aead) (C : Codec Y) (pw : Option Bytes) : RState Y → List Member → Except Err (RState Y)
  | st, [] => .ok st
  | st, m :: ms =>
    match readMember A C pw st m with
    | .error e => .error e
    | .ok st' => readMembers A C pw st' ms

structure Entry (Y : Type) where
  name : Name
  cr : Y
  secret : Option Y
  generation : Option Int

structure Contents (Y : Type) where
  manifest : Manifest
  entries : List (Entry Y)

def entriesOf (st : RState Y) : List (Entry Y) :=
  st.crs.map fun (n, c) => ⟨n, c, alookup n st.secs, (alookup n st.metas).bind id⟩

def finish (st : RState Y) : Except Err (Contents Y) :=
  match st.manifest with
  | none => .error .missingManifest
  | some r =>
    if r.version.getD versionDefault ≠ supportedVersion then .error .badVersion
    else
      match r.version, r.timestamp, r.namespace, r.count, r.encrypted with
      | some v, some t, some n, some c, some e => .ok ⟨⟨v, t, n, c, e⟩, entriesOf st⟩
      | _, _, _, _, _ => .error .missingField

/-- `read_backup_archive` -/
def read (A : Aead) (C : Codec Y) (pw : Option Bytes) (ms : List Member) : Except Err (Contents Y) :=
  match readMembers A C pw {} ms with
  | .error e => .error e
  | .ok st => finish st

def errOf (x : Except Err α) : Option Err :=
  match x with
  | .error e => some e
  | .ok _ => none

def okOf (x : Except Err α) : Option α :=
  match x with
  | .error _ => none
  | .ok a => some a

/-! ## what a faithful restore returns -/

def secretOf (b : Backup Y) (d : Option Name × Y) : Option Y := alookup (depName d) b.secrets

def expectedEntries (b : Backup Y) : List (Entry Y) :=
  b.deps.map fun d => ⟨depName d, d.2, secretOf b d, genOf b.gens (depName d)⟩

/-- distinct valid names (the property's domain) -/
def Backup.wf (b : Backup Y) : Prop :=
  (∀ d ∈ b.deps, validName (depName d) = true) ∧ (b.deps.map depName).Nodup

/-- `os.urandom(n)` returns `n` bytes -/
def rndWf (rnd : Nat → Bytes × Bytes) : Prop :=
  ∀ k, (rnd k).1.length = encSaltLen ∧ (rnd k).2.length = encNonceLen

/-! ## an executable instance for the driver and for non-vacuity

"Bytes" are unbounded naturals here, so an (almost) ideal AEAD fits into the 16-element tag:
the tag's four first elements are 61-bit polynomial hashes of password, salt, nonce and
message.  `idealAead` is length-exact (ciphertext = message ‖ 16 tag elements) and is what the
driver runs; it is not claimed lawful (hash collisions exist) — `prefixAead` below is. -/

def codeOf (l : Bytes) : Nat := l.foldl (fun acc b => (acc * 257 + (b + 1)) % 2305843009213693951) 0

def idealTag (pw salt nonce m : Bytes) : Bytes :=
  [codeOf pw, codeOf salt, codeOf nonce, codeOf m] ++ List.replicate (tagLength - 4) 0

def idealAead : Aead where
  lock pw salt nonce m := m ++ idealTag pw salt nonce m
  unlock pw salt nonce ct :=
    if ct.length < tagLength then none
    else
      let m := ct.take (ct.length - tagLength)
      if ct.drop (ct.length - tagLength) = idealTag pw salt nonce m then some m else none

/-- an AEAD that provably satisfies `Aead.Lawful` for *all* (unbounded) inputs: the
password travels in front of the message (used for the non-vacuity examples) -/
def prefixAead : Aead where
  lock pw _ _ m := pw.length :: (pw ++ m ++ List.replicate tagLength 0)
  unlock pw _ _ ct :=
    match ct with
    | [] => none
    | l :: rest =>
      if l = pw.length ∧ rest.take l = pw then some ((rest.drop l).take ((rest.drop l).length - tagLength)) else none

/-! tagged token codec: YAML values are natural-number tokens; JSON objects are
field lists with explicit presence flags, so that manifests with missing keys exist. -/

def encInt (i : Int) : Bytes := [if i < 0 then 1 else 0, i.natAbs]
def encOptInt : Option Int → Bytes
  | none => [0]
  | some i => 1 :: encInt i
def encOptStr : Option Str → Bytes
  | none => [0]
  | some s => 1 :: s.length :: s
def encOptBool : Option Bool → Bytes
  | none => [0]
  | some b => [1, if b then 1 else 0]

def pOptInt : Bytes → Option (Option Int × Bytes)
  | 0 :: r => some (none, r)
  | 1 :: 0 :: a :: r => some (some (Int.ofNat a), r)
  | 1 :: 1 :: a :: r => some (some (-(Int.ofNat a)), r)
  | _ => none
def pOptStr : Bytes → Option (Option Str × Bytes)
  | 0 :: r => some (none, r)
  | 1 :: l :: r => if l ≤ r.length then some (some (r.take l), r.drop l) else none
  | _ => none
def pOptBool : Bytes → Option (Option Bool × Bytes)
  | 0 :: r => some (none, r)
  | 1 :: 0 :: r => some (some false, r)
  | 1 :: 1 :: r => some (some true, r)
  | _ => none

def encRawManifest (r : RawManifest) : Bytes :=
  3 :: (encOptInt r.version ++ (encOptStr r.timestamp ++ (encOptStr r.namespace ++
    (encOptInt r.count ++ encOptBool r.encrypted))))

def decRawManifest : Bytes → Option RawManifest
  | 3 :: b =>
    match pOptInt b with
    | none => none
    | some (v, b1) =>
      match pOptStr b1 with
      | none => none
      | some (t, b2) =>
        match pOptStr b2 with
        | none => none
        | some (n, b3) =>
          match pOptInt b3 with
          | none => none
          | some (c, b4) =>
            match pOptBool b4 with
            | some (e, []) => some ⟨v, t, n, c, e⟩
            | _ => none
  | _ => none

def tokenCodec : Codec Nat where
  encY y := [1, y]
  decY b := match b with | [1, y] => some y | _ => none
  encManifest m := encRawManifest (RawManifest.ofManifest m)
  decManifest := decRawManifest
  encMeta g := 4 :: encOptInt (some g)
  decMeta b := match b with
    | 4 :: r => (match pOptInt r with | some (g, []) => some g | _ => none)
    | _ => none

end Archive
