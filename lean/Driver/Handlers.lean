import WfModel.Handlers
import Driver.Engine
open Handlers Drv.Engine
namespace Drv.Handlers

def decl : P Decl := do
  let name ← nat
  let fs ← opt (counted nat)
  let m ← nat
  pure { name, forSteps := fs, maxRec := m }

def step (_ : Unit) (line : String) : Unit × String :=
  match tokens line with
  | "H" :: ts =>
    match (do let steps ← counted nat; let hs ← counted decl; pure (steps, hs)) ts with
    | some ((steps, hs), []) =>
      if !valid steps hs then ((), "invalid")
      else ((), " ".intercalate (steps.map fun s => s!"{s}:{sOptNat (handlerFor steps hs s)}"))
    | _ => ((), "bad-op")
  | _ => ((), "bad-op")

end Drv.Handlers
