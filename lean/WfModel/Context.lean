import WfModel.Engine
/-!
M1 (step side) — the pure parts of `InternalContext` (`context/internal_context.py`):
`collect_events` and `wait_for_event`, as functions of the per-invocation snapshot.
They return what the step sees plus the `StepFunctionResult`s appended to `returns`.
-/
namespace Engine

def countTy (t : Nat) (l : List Nat) : Nat := (l.filter (· == t)).length

/-- `Counter(expected) - Counter(types(collected))`, evaluated at one type -/
def remainingOf (expected : List Nat) (collected : List Ev) (t : Nat) : Nat :=
  countTy t expected - countTy t (collected.map (·.ty))

/-- `remaining == Counter([ty])`: exactly one event of type `ty` is missing and nothing else -/
def onlyMissing (expected : List Nat) (collected : List Ev) (ty : Nat) : Bool :=
  remainingOf expected collected ty == 1 &&
    expected.all (fun t => t == ty || remainingOf expected collected t == 0)

/-- take, for each expected type in order, the first not-yet-taken event of that type
(`by_type[e_type].pop(0)`) -/
def takeInOrder : List Nat → List Ev → List Ev
  | [], _ => []
  | t :: ts, pool =>
    match pool.find? (fun e => e.ty == t) with
    | some e => e :: takeInOrder ts (pool.erase e)
    | none => takeInOrder ts pool

inductive CollectOut
  | empty                       -- `expected == []`: returns `[]` immediately, no result appended
  | pending (add : Option Res)  -- returns `None`
  | complete (evs : List Ev)    -- returns the list (and appends `DeleteCollectedEvent`)
deriving Repr, DecidableEq

/-- `ctx.collect_events(ev, expected, buffer_id)` against the snapshot's buffer `collected` -/
def collectEvents (expected : List Nat) (buf : Nat) (collected : List Ev) (ev : Ev) : CollectOut :=
  if expected.isEmpty then .empty
  else if !onlyMissing expected collected ev.ty then
    if remainingOf expected collected ev.ty > 0 then .pending (some (.addCollected buf ev))
    else .pending none
  else .complete (takeInOrder expected (collected ++ [ev]))

def CollectOut.results (buf : Nat) : CollectOut → List Res
  | .empty => []
  | .pending (some r) => [r]
  | .pending none => []
  | .complete _ => [.deleteCollected buf]

/-- history of a collecting step that has **one invocation in flight at a time**: every
invocation's snapshot is the live buffer, and the reducer applies its results before the next
one starts (`returned` = the lists handed to the step body, `dropped` = surplus events of an
already satisfied type, which `collect_events` discards by design) -/
structure CollectHist where
  buffer : List Ev := []
  returned : List (List Ev) := []
  dropped : List Ev := []
deriving Repr, DecidableEq

def collectRound (expected : List Nat) (h : CollectHist) (ev : Ev) : CollectHist :=
  match collectEvents expected 0 h.buffer ev with
  | .complete evs => { h with buffer := [], returned := h.returned ++ [evs] }
  | .pending (some _) => { h with buffer := h.buffer ++ [ev] }
  | .pending none => { h with dropped := h.dropped ++ [ev] }
  | .empty => h

inductive WaitOut
  | timeout            -- raises `asyncio.TimeoutError` (after appending `DeleteWaiter`)
  | waiting (add : Res) -- raises `WaitingForEvent(AddWaiter …)`
  | got (ev : Ev)      -- returns the resolved event (after appending `DeleteWaiter`)
deriving Repr, DecidableEq

/-- `ctx.wait_for_event(event_type, waiter_event, waiter_id, requirements, timeout)` against the
snapshot's waiters -/
def waitForEvent (waiters : List Waiter) (wid ty : Nat) (waiterEv : Option Ev) (req : Option Nat)
    (timeout : Option Nat) : WaitOut :=
  match waiters.find? (fun w => w.wid == wid) with
  | some w =>
    if w.timedOut then .timeout
    else match w.resolved with
      | some e => .got e
      | none => .waiting (.addWaiter wid waiterEv req timeout ty)
  | none => .waiting (.addWaiter wid waiterEv req timeout ty)

/-! ### the default waiter id

`waiter_id = waiter_id or f"waiter_{module}.{name}_{str(requirements)}"`: without an explicit id the waiter is named after
the awaited class and the text of the WHOLE requirements dict (keys and values).  Waiter names are abstracted to numbers;
for the default names that abstraction is a table (awaited type, requirement) ↦ number supplied with the run (the harness
numbers the names it can meet, in string order, from the documented format — `harness/engine/enc.py`). -/

abbrev AutoIds := List ((Nat × Option Nat) × Nat)

def AutoIds.lookup (t : AutoIds) (ty : Nat) (req : Option Nat) : Option Nat :=
  (t.find? (fun p => p.1 == (ty, req))).map (·.2)

/-- the table names different waits differently -/
def AutoIds.wellFormed (t : AutoIds) : Bool := decide ((t.map (·.2)).Nodup)

/-- `ctx.wait_for_event(...)` with `waiter_id=None` allowed: the id the call works with, and its outcome (`none`: the
naming has no entry for this request) -/
def waitForEventAuto (ids : AutoIds) (waiters : List Waiter) (wid : Option Nat) (ty : Nat) (waiterEv : Option Ev)
    (req : Option Nat) (timeout : Option Nat) : Option (Nat × WaitOut) :=
  match wid with
  | some w => some (w, waitForEvent waiters w ty waiterEv req timeout)
  | none => (ids.lookup ty req).map fun w => (w, waitForEvent waiters w ty waiterEv req timeout)

def WaitOut.results (wid : Nat) : WaitOut → List Res
  | .timeout => [.deleteWaiter wid]
  | .waiting a => [a]
  | .got _ => [.deleteWaiter wid]

end Engine
