"""C21 — the single-connection SQLite store keeps working after use."""
from __future__ import annotations

import asyncio
import functools
import inspect
import json
import os
import shutil
import sqlite3
import sys
import tempfile
from dataclasses import dataclass, field
from datetime import datetime, timedelta, timezone
from typing import Any

from pydantic import BaseModel

from .. import c21_sched as sched
from ..boot import VERIF
from ..gen import sqlite_conn as gen
from ..runner import Divergence, Driver, Env, Outcome, Violation, diff_streams
from ..vloop import run_virtual

THEOREMS = [
    "C21_table_ok",
    "C21_modes_agree",
    "C21_shared_connection_stays_open",
    "C21_modes_agree_guarded",
    "C21_state_store_closing_shared_refutes",
    "C21_closing_section_refutes",
    "C21_closing_on_error_refutes",
    "C21_uncommitted_write_refutes",
    "C21_refuted_before_repair",
    "C21_single_uses_one_connection",
    "C21_percall_no_leak",
    "C21_lock_per_store",
    "C21_locks_modes_agree",
    "C21_other_store_never_waits",
    "C21_shared_lock_refutes",
    "C21_no_connection_scoped_state",
    "C21_connection_state_modes_agree",
    "C21_connection_scoped_state_refutes",
]
EXPLANATION = (
    "Lean model WfModel/SqliteConn.lean: the store as a resource-handling state machine. Database content is abstract; what "
    "the statements of a *section* (a method body that obtains a connection, runs statements, maybe commits, releases) compute "
    "is an oracle shared by both modes; the model tracks only what the modes can differ in: which connection a section runs on "
    "(the persistent one of single-connection mode, handed to every state store by create_state_store, or one opened for the "
    "call), whether it is open (closed => ProgrammingError), its uncommitted view, whether it is left in a transaction, what "
    "survives (committed changes; uncommitted ones die with a per-call connection and linger on the shared one), connections "
    "opened/closed. Public operations are arbitrary glue programs over sections (continuations see every section result), "
    "histories are arbitrary lists of them over any number of state stores. The lifecycle row of EVERY section function of "
    "SqliteWorkflowStore and SqliteStateStore (and of the concrete methods inherited from AbstractWorkflowStore) is regenerated "
    "from source by symbolic execution of the method bodies in both modes (harness/gen/sqlite_conn.py: provider, with/closing/"
    "explicit close incl. helper methods handed the connection, ownership guards, DML/commit order, exception paths). "
    "C21_table_ok is the decide-checked fact 'no section closes the shared connection, every change is committed, nothing can be "
    "left pending'; C21_modes_agree lifts it by a simulation whose invariant is 'the shared connection is open and clean'. "
    "Converse theorems show a closing or non-committing row refutes the property. Tie (K): one random op stream (handlers, "
    "events incl. subscribe, ticks incl. paging, several state stores incl. seeded/typed ones, raising operations) is executed "
    "against two real stores (one per mode, two database files) under a tracing sqlite3.Connection subclass; every section "
    "instance observed in the per-call run is replayed through the model driver, whose predictions (outcome per mode, ran on the "
    "shared connection, shared connection open / in transaction afterwards, connections opened and closed per mode, final "
    "pending/committed agreement) are diffed against what the two real stores did; sections reached by an operation are checked "
    "against the static call graph. Monitors (S): results compared op by op, final dump of all tables, closed shared connection "
    "(classified by the section that closed it), leaked per-call connections, uncommitted data left on the shared connection, "
    "second connection opened in single mode; a subscriber/appender scenario under the virtual-time loop. "
    "Locks: the model has the lock layer of the state stores too (WfModel/SqliteConn.lean, `lockOf`/`lockStep`/`runLocks`: "
    "asyncio.Lock discipline over a map store object -> lock); the generated flag `lockPerStore` says that every locking "
    "section of SqliteStateStore takes one lock the object created for itself; C21_locks_modes_agree: every schedule of lock "
    "requests/releases is answered the same whichever objects hold the shared connection; C21_other_store_never_waits; the "
    "converse C21_shared_lock_refutes. Schedules (harness/c21_sched.py): tasks that are programs over several state-store "
    "objects of one workflow store (other runs, second object of a run) and over the workflow store, with edit_state bodies that "
    "work on other stores, wait for asyncio.Events other tasks set after their own write, yield or fail; real tasks on the "
    "real stores under the scripted scheduler (harness/sloop.py), same schedule in both modes until quiescence. S: same tasks "
    "finished, same per-task results, same final tables; a task blocked at quiescence in one mode only is reported with the "
    "operation it is blocked in and the holder of the lock it waits for; hand-computed expectations on the corpus cases in "
    "both modes. K: the lock requests/releases observed through a reporting asyncio.Lock subclass (granted at once / queued / "
    "handed to which waiter) are diffed against the model's answers for both modes. "
    "Connection-scoped state: the model has a third layer (`scratchStep`/`runScratch`: TEMP schema objects, attached databases, "
    "PRAGMA settings as an abstract state of a connection with an abstract per-section semantics; a per-call connection starts "
    "from the state of a new connection and takes its state along, the persistent one keeps it); the generated list "
    "`scratchSecs` names the sections whose code, with the helper methods / module functions it reaches, has SQL text on such "
    "objects; C21_no_connection_scoped_state (decide: the list is empty), C21_connection_state_modes_agree (all histories "
    "return the same values in both modes and leave the persistent connection as a new one), converse "
    "C21_connection_scoped_state_refutes. K: the `sec` answer carries `res` (does the section leave such state on the shared "
    "connection), compared with a probe of the real persistent connection after every section (sqlite_temp_master, "
    "database_list). S: after every call the persistent connection is probed (TEMP objects, attached databases, 15 PRAGMAs, "
    "in_transaction) against its state right after construction: `C21/connection_state_left_behind:<what>[<section>]`; "
    "histories of long-list sweeps (queries / deletes whose filter lists have 120..4000 values, several on one column, "
    "overlapping and disjoint, all four columns, mixed with short lists, updates and state-store use; handlers with unique run "
    "ids); every query / delete answer of both modes is compared with a handler table computed from the operations' arguments "
    "alone: `C21/result_not_determined_by_call:<op>[<mode>;<how>;<filter shape>]`, final handler ids likewise."
)
ASSUMPTIONS = [
    "SQLite itself: a statement that fails changes nothing; a new connection sees exactly the committed content; closing a "
    "connection discards its uncommitted changes (modelled, not verified)",
    "operations run on the thread that constructed the store (sqlite3 check_same_thread is left at its default in both modes; "
    "the persistent connection would raise ProgrammingError on another thread where per-call connections would not) -- the "
    "code uses no threads",
    "file-backed database paths: with db_path=':memory:' the per-call store loses the schema between calls (OperationalError: "
    "no such table) while the single-connection store works; the code neither forbids nor supports it",
    "no connection other than the store's own touches the file while a single-connection store is open: the unix-none VFS "
    "disables locking and a failed INSERT leaves the persistent connection inside an (empty) transaction that pins its read "
    "view until the next commit -- writes through a separately opened connection (SqliteStateStore.from_dict with db_path, "
    "another process) can then be read stale and overwritten; observed, outside the property (state stores are the ones "
    "create_state_store returns)",
    "journal mode: PRAGMA journal_mode=WAL is issued in both modes but the unix-none VFS has no shared memory, so the "
    "single-connection database silently stays in DELETE mode; a database created per-call (WAL) cannot be opened with "
    "single_connection=True (OperationalError: unable to open database file) -- observed, outside the property",
    "statement semantics is an oracle in the model; equality of results is checked on the real stores only for generated histories",
    "sections are atomic (no await inside a section: checked by the extractor only in so far as the with-blocks contain no await)",
    "lock layer: what tasks do between their lock requests and releases is abstract in the model (any list of lock actions); "
    "asyncio.Lock itself (not re-entrant, FIFO hand-over) is modelled, and compared with the real lock on every generated "
    "schedule; `lockPerStore` is recognised from the source shape (one attribute of self, a cached_property returning a new "
    "asyncio.Lock() or assigned so in __init__) -- any other shape fails C21_lock_per_store rather than being interpreted",
    "connection-scoped state: a section without SQL text on TEMP / ATTACH / PRAGMA objects neither reads nor changes them (a "
    "TEMP table shadowing a main table would be read by any section: the run-time probe after every section is the check for "
    "that); the migration runner (migrate.py, PRAGMA journal_mode / user_version during construction) is not scanned: the "
    "probe's baseline is the persistent connection right after construction; a failed data-changing statement leaves sqlite3's "
    "implicit transaction open on the persistent connection until the next commit (modelled as inTx; reported by the probe only "
    "for calls that returned normally and did not start inside one)",
    "the handler oracle covers the filter columns (handler_id, workflow_name, status, run_id, idle_since null-ness); it stops "
    "for the rest of a history at an update_handler_status on a run id shared by several handlers (which one is updated is "
    "decided by SQLite's row order)",
    "schedules are compared under the scripted scheduler (single thread, one await-free section at a time, no timers): "
    "subscribe_events (polling with timeouts) is exercised only in the virtual-time scenario",
]
TRUSTED_EXTRA = [
    "harness/gen/sqlite_conn.py (symbolic execution of the store methods into the lifecycle table)",
    "tracing subclass of sqlite3.Connection/Cursor installed through a patched sqlite3.connect; wrappers around _connect and the section functions",
    "the tick page size of stream_ticks is lowered to 3 during the run so that paging (several acquisitions in one call) is exercised",
    "datetime.now in abstract_workflow_store is frozen per operation so both stores receive the same timestamps",
    "harness/sloop.py (scripted scheduler over asyncio.BaseEventLoop) and harness/c21_sched.py; during a scheduled scenario "
    "asyncio.Lock is replaced by a subclass that reports request/grant/release and otherwise defers to asyncio.Lock",
]

WS_FILE = "sqlite_workflow_store.py"
SS_FILE = "sqlite_state_store.py"
_ORIG_CONNECT = sqlite3.connect


class CounterState(BaseModel):
    count: int = 0
    label: str = "x"


class Unserialisable:
    def __repr__(self) -> str:
        return "<Unserialisable>"


# --------------------------------------------------------------------------
# tracing


@dataclass
class Inst:
    fn: str
    obj: str
    mode: str
    opened: int = 0
    closed: int = 0
    dml: int = 0
    dml_ok: int = 0
    commits: int = 0
    execs: int = 0
    used_shared: bool = False
    closed_shared: bool = False
    outcome: str | None = None
    open_after: bool | None = None
    intx_after: bool | None = None
    residue: bool = False  # the section changed the TEMP objects / attached databases of the shared connection
    done: bool = False


class Tracer:
    def __init__(self) -> None:
        self.mode: str | None = None  # "single" | "percall" while an operation is traced
        self.insts: list[Inst] = []
        self.cur: Inst | None = None
        self.shared: Any = None
        self.objs: dict[int, int] = {}
        self.open_conns: list[Any] = []
        self.shared_closed_by: str | None = None
        self.last_writer: str | None = None

    def begin(self, mode: str, shared: Any, objs: dict[int, int]) -> None:
        self.mode, self.shared, self.objs = mode, shared, objs
        self.insts, self.cur, self.open_conns = [], None, []

    def end(self) -> list[Inst]:
        self.finalize()
        for i in self.insts:
            if i.outcome is None:
                i.outcome = "ok"
        res = self.insts
        self.mode = None
        self.insts, self.cur = [], None
        return res

    def finalize(self) -> None:
        c = self.cur
        if c is not None and not c.done:
            c.done = True
            if self.shared is not None:
                c.open_after = not getattr(self.shared, "_c21_closed", False)
                c.intx_after = bool(self.shared.in_transaction) if c.open_after else False
                if c.open_after:
                    prev = getattr(self.shared, "_c21_objs", None)
                    now = probe_objects(self.shared)
                    if not (now[0] and now[0][0].startswith("error:")):
                        c.residue = prev is not None and now != prev
                        self.shared._c21_objs = now
        self.cur = None

    def start(self, fn: str, owner: Any) -> Inst:
        self.finalize()
        obj = "-"
        if owner is not None and id(owner) in self.objs:
            obj = str(self.objs[id(owner)])
        elif fn.startswith("ss."):
            obj = "?"
        inst = Inst(fn, obj, self.mode or "?")
        self.insts.append(inst)
        self.cur = inst
        return inst

    def acquire(self, fn: str, owner: Any) -> None:
        if self.mode is None:
            return
        self.start(fn, owner)

    def got(self, conn: Any) -> None:
        if self.mode is not None and self.cur is not None and conn is self.shared:
            self.cur.used_shared = True

    def ensure(self, conn: Any) -> Inst | None:
        if self.mode is None:
            return None
        if self.cur is None:
            fn, owner = _section_from_frames()
            self.start(fn, owner)
        return self.cur

    def on_open(self, conn: Any) -> None:
        if self.mode is None:
            return
        fn, owner = _section_from_frames()
        c = self.cur
        if c is None or c.fn != fn or c.opened > 0 or c.used_shared:
            c = self.start(fn, owner)
        c.opened += 1
        self.open_conns.append(conn)

    def on_exec(self, conn: Any, sql: str) -> None:
        c = self.ensure(conn)
        if c is None:
            return
        c.execs += 1
        if conn is self.shared:
            c.used_shared = True
        verb = (sql.strip().split() or [""])[0].upper()
        if verb not in gen.READ_VERBS:
            c.dml += 1
            self.last_writer = c.fn

    def on_exec_done(self, conn: Any, sql: str) -> None:
        if self.mode is None or self.cur is None:
            return
        verb = (sql.strip().split() or [""])[0].upper()
        if verb not in gen.READ_VERBS:
            self.cur.dml_ok += 1

    def on_commit(self, conn: Any) -> None:
        c = self.ensure(conn)
        if c is not None:
            c.commits += 1

    def on_close(self, conn: Any) -> None:
        if self.mode is None:
            return
        c = self.ensure(conn)
        if conn is self.shared:
            if c is not None and not getattr(conn, "_c21_closed", False):
                c.closed_shared = True
                self.shared_closed_by = c.fn
        else:
            if c is not None and not getattr(conn, "_c21_closed", False):
                c.closed += 1
            if conn in self.open_conns:
                self.open_conns.remove(conn)

    def fn_exit(self, qual: str, exc: BaseException | None) -> None:
        if self.mode is None:
            return
        for inst in reversed(self.insts):
            if inst.fn == qual and inst.outcome is None:
                if exc is None:
                    inst.outcome = "ok"
                elif isinstance(exc, sqlite3.ProgrammingError) and "closed database" in str(exc):
                    inst.outcome = "closed"
                else:
                    inst.outcome = "err"
                if inst is self.cur:
                    self.finalize()
                break


TR = Tracer()


def _section_from_frames() -> tuple[str, Any]:
    f = sys._getframe(2)
    while f is not None:
        fname = f.f_code.co_filename
        name = f.f_code.co_name
        if (fname.endswith(WS_FILE) or fname.endswith(SS_FILE)) and name not in (gen.PROVIDER,) + tuple(gen.OPENERS) \
                and name not in CTX_METHODS:
            tag = "ws" if fname.endswith(WS_FILE) else "ss"
            return f"{tag}.{name}", f.f_locals.get("self")
        f = f.f_back
    return "?.?", None


class TracingCursor(sqlite3.Cursor):
    def execute(self, sql: str, *a: Any) -> Any:  # type: ignore[override]
        TR.on_exec(self.connection, sql)
        r = super().execute(sql, *a)
        TR.on_exec_done(self.connection, sql)
        return r

    def executemany(self, sql: str, *a: Any) -> Any:  # type: ignore[override]
        TR.on_exec(self.connection, sql)
        r = super().executemany(sql, *a)
        TR.on_exec_done(self.connection, sql)
        return r

    def executescript(self, sql: str) -> Any:  # type: ignore[override]
        TR.on_exec(self.connection, sql)
        r = super().executescript(sql)
        TR.on_exec_done(self.connection, sql)
        TR.on_commit(self.connection)
        return r


class TracingConnection(sqlite3.Connection):
    _c21_closed = False

    def cursor(self, factory: Any = None) -> Any:  # type: ignore[override]
        return super().cursor(factory or TracingCursor)

    def execute(self, sql: str, *a: Any) -> Any:  # type: ignore[override]
        TR.on_exec(self, sql)
        r = super().execute(sql, *a)
        TR.on_exec_done(self, sql)
        return r

    def executemany(self, sql: str, *a: Any) -> Any:  # type: ignore[override]
        TR.on_exec(self, sql)
        r = super().executemany(sql, *a)
        TR.on_exec_done(self, sql)
        return r

    def executescript(self, sql: str) -> Any:  # type: ignore[override]
        TR.on_exec(self, sql)
        r = super().executescript(sql)
        TR.on_exec_done(self, sql)
        TR.on_commit(self)
        return r

    def commit(self) -> None:  # type: ignore[override]
        super().commit()
        TR.on_commit(self)

    def close(self) -> None:  # type: ignore[override]
        TR.on_close(self)
        self._c21_closed = True
        super().close()


def _traced_connect(*a: Any, **k: Any) -> Any:
    k.setdefault("factory", TracingConnection)
    conn = _ORIG_CONNECT(*a, **k)
    if isinstance(conn, TracingConnection):
        TR.on_open(conn)
    return conn


class FakeDatetime(datetime):
    current = datetime(2026, 1, 1, tzinfo=timezone.utc)

    @classmethod
    def now(cls, tz: Any = None) -> datetime:  # type: ignore[override]
        return FakeDatetime.current


class Patches:
    """Install the tracing hooks on the real classes; undo on exit."""

    def __init__(self, table: dict):
        self.table = table
        self.undo: list[tuple[Any, str, Any]] = []

    def set(self, obj: Any, name: str, value: Any) -> None:
        self.undo.append((obj, name, obj.__dict__[name] if name in obj.__dict__ else getattr(obj, name)))
        setattr(obj, name, value)

    def __enter__(self) -> "Patches":
        CTX_METHODS.clear()
        for c in self.table["classes"].values():
            CTX_METHODS.update(c.get("ctx_methods", []))
        from llama_agents.server._store import abstract_workflow_store as aws
        from llama_agents.server._store.sqlite import sqlite_state_store as sss
        from llama_agents.server._store.sqlite import sqlite_workflow_store as sws

        self.set(sqlite3, "connect", _traced_connect)
        self.set(aws, "datetime", FakeDatetime)
        if hasattr(sws, "_TICK_PAGE_SIZE"):
            self.set(sws, "_TICK_PAGE_SIZE", 3)
        classes = {0: ("ws", sws.SqliteWorkflowStore), 1: ("ss", sss.SqliteStateStore)}
        for _idx, (tag, cls) in classes.items():
            if gen.PROVIDER in cls.__dict__:
                self.set(cls, gen.PROVIDER, _wrap_provider(tag, cls.__dict__[gen.PROVIDER]))
        for s in self.table["secs"]:
            tag, cls = classes[s["cls"]]
            raw = cls.__dict__.get(s["name"])
            if raw is None:
                # inherited section function (none at present): wrap on the subclass
                raw = getattr(cls, s["name"], None)
                if raw is None:
                    continue
            if isinstance(raw, (staticmethod, classmethod)):
                continue
            self.set(cls, s["name"], _wrap_section(s["qual"], raw))
        return self

    def __exit__(self, *exc: Any) -> None:
        for obj, name, old in reversed(self.undo):
            setattr(obj, name, old)


class _TracedCM:
    """Proxy around the provider's context manager: sees which connection the section got."""

    def __init__(self, inner: Any):
        self.inner = inner

    def __enter__(self) -> Any:
        conn = self.inner.__enter__()
        TR.got(conn)
        return conn

    def __exit__(self, *exc: Any) -> Any:
        return self.inner.__exit__(*exc)


CTX_METHODS: set[str] = set()  # connection-yielding context-manager methods (from the generated table): not sections


def _caller_section() -> str:
    f = sys._getframe(2)
    while f is not None and (f.f_code.co_name in CTX_METHODS or f.f_code.co_filename.endswith("contextlib.py")):
        f = f.f_back
    return f.f_code.co_name if f is not None else "?"


def _wrap_provider(tag: str, orig: Any) -> Any:
    @functools.wraps(orig)
    def provider(self: Any, *a: Any, **k: Any) -> Any:
        TR.acquire(f"{tag}.{_caller_section()}", self)
        r = orig(self, *a, **k)
        if isinstance(r, sqlite3.Connection):
            TR.got(r)
            return r
        if hasattr(r, "__enter__"):
            return _TracedCM(r)
        return r

    return provider


def _wrap_section(qual: str, orig: Any) -> Any:
    if inspect.isasyncgenfunction(orig):
        @functools.wraps(orig)
        async def agen(*a: Any, **k: Any) -> Any:
            try:
                async for x in orig(*a, **k):
                    yield x
            except BaseException as e:
                TR.fn_exit(qual, e)
                raise
            TR.fn_exit(qual, None)

        return agen
    if inspect.iscoroutinefunction(orig):
        @functools.wraps(orig)
        async def co(*a: Any, **k: Any) -> Any:
            try:
                r = await orig(*a, **k)
            except BaseException as e:
                TR.fn_exit(qual, e)
                raise
            TR.fn_exit(qual, None)
            return r

        return co

    @functools.wraps(orig)
    def fn(*a: Any, **k: Any) -> Any:
        try:
            r = orig(*a, **k)
        except BaseException as e:
            TR.fn_exit(qual, e)
            raise
        TR.fn_exit(qual, None)
        return r

    return fn


# --------------------------------------------------------------------------
# the two real stores


DUMP_SQL = [
    ("handlers", "SELECT handler_id, workflow_name, status, run_id, error, result, started_at, updated_at, completed_at, "
                 "idle_since, ctx FROM handlers ORDER BY handler_id"),
    ("events", "SELECT id, run_id, sequence, event_json FROM events ORDER BY id"),
    ("ticks", "SELECT id, run_id, sequence, tick_data FROM ticks ORDER BY id"),
    ("workflow_state", "SELECT run_id, state_json, state_type, state_module FROM workflow_state ORDER BY run_id"),
    ("schema_migrations", "SELECT package, version FROM schema_migrations ORDER BY package, version"),
]


def dump_via(conn: Any) -> dict[str, list]:
    res: dict[str, list] = {}
    for name, sql in DUMP_SQL:
        try:
            res[name] = [list(r) for r in sqlite3.Connection.execute(conn, sql).fetchall()]
        except sqlite3.Error as e:
            res[name] = [f"error {type(e).__name__}: {e}"]
    return res


def dump_file(path: str) -> dict[str, list]:
    conn = _ORIG_CONNECT(path, timeout=5.0)
    try:
        return dump_via(conn)
    finally:
        conn.close()


@dataclass
class Side:
    mode: str
    path: str
    store: Any = None
    objs: list[Any] = field(default_factory=list)
    ids: dict[int, int] = field(default_factory=dict)
    dead: bool = False

    @property
    def shared(self) -> Any:
        return getattr(self.store, "_persistent_conn", None) if self.mode == "single" else None


def canon_exc(e: BaseException, side: Side) -> str:
    msg = str(e).replace(os.path.dirname(side.path), "<dir>")
    return f"raise {type(e).__name__}: {msg[:300]}"


def _jsonable(v: Any) -> Any:
    if isinstance(v, BaseModel):
        return {"__model__": type(v).__name__, **_jsonable(v.model_dump(mode="json"))}
    if isinstance(v, dict):
        return {str(k): _jsonable(x) for k, x in v.items()}
    if isinstance(v, (list, tuple)):
        return [_jsonable(x) for x in v]
    if isinstance(v, (str, int, float, bool)) or v is None:
        return v
    return repr(v)


def canon(v: Any) -> str:
    return json.dumps(_jsonable(v), sort_keys=True, default=repr)


def _dt(n: int | None) -> datetime | None:
    if n is None:
        return None
    return datetime(2025, 1, 1, tzinfo=timezone.utc) + timedelta(seconds=n)


def _value(spec: Any) -> Any:
    if isinstance(spec, dict) and spec.get("__unserialisable__"):
        return Unserialisable()
    return spec


def expand_list(v: Any) -> Any:
    """Filter lists may be written compactly: {"ids": [...], "pad": [prefix, start, n]} = ids + prefix<start>..prefix<start+n-1>
    (values that match nothing unless a handler was stored under such a name); "rev" reverses, "twice" repeats the list."""
    if isinstance(v, dict) and "pad" in v:
        pfx, start, n = v["pad"]
        vals = [str(x) for x in v.get("ids", [])] + [f"{pfx}{i}" for i in range(start, start + n)]
        if v.get("rev"):
            vals.reverse()
        if v.get("twice"):
            vals = vals + vals
        return vals
    return v


async def exec_op(side: Side, op: dict) -> str:
    """Run one operation description on one real store; canonical result."""
    from llama_agents.client.protocol.serializable_events import EventEnvelopeWithMetadata
    from llama_agents.server._store.abstract_workflow_store import HandlerQuery, PersistentHandler
    from workflows.context.serializers import JsonSerializer
    from workflows.context.state_store import DictState, InMemoryStateStore
    from workflows.events import StopEvent

    s = side.store
    k = op["op"]
    if k == "ws.update":
        h = op["handler"]
        res = StopEvent(result=h["result"]) if h.get("result") is not None else None
        ph = PersistentHandler(handler_id=h["id"], workflow_name=h["wf"], status=h["status"], run_id=h.get("run"),
                               error=h.get("error"), result=res, started_at=_dt(h.get("started")),
                               updated_at=_dt(h.get("updated")), completed_at=_dt(h.get("completed")),
                               idle_since=_dt(h.get("idle")))
        await s.update(ph)
        return "none"
    if k == "ws.update_handler_status":
        kw: dict[str, Any] = {}
        if op.get("status") is not None:
            kw["status"] = op["status"]
        if op.get("error") is not None:
            kw["error"] = op["error"]
        if op.get("result") is not None:
            kw["result"] = StopEvent(result=op["result"])
        if "idle" in op:
            kw["idle_since"] = _dt(op["idle"])
        await s.update_handler_status(op["run"], **kw)
        return "none"
    if k in ("ws.query", "ws.delete"):
        q = HandlerQuery(**{f: expand_list(op["q"].get(f)) for f in ("handler_id_in", "run_id_in", "workflow_name_in", "status_in", "is_idle")})
        if k == "ws.delete":
            return canon(await s.delete(q))
        rows = await s.query(q)
        return canon(sorted((r.model_dump(mode="json") for r in rows), key=lambda d: d["handler_id"]))
    if k == "ws.append_event":
        env = EventEnvelopeWithMetadata(value=op["value"], qualified_name=None, type=op["type"], types=op.get("types"))
        await s.append_event(op["run"], env)
        return "none"
    if k == "ws.query_events":
        evs = await s.query_events(op["run"], after_sequence=op.get("after"), limit=op.get("limit"))
        return canon([[e.run_id, e.sequence, e.event.model_dump()] for e in evs])
    if k == "ws.subscribe_events":
        got = []
        async for e in s.subscribe_events(op["run"], after_sequence=op.get("after", -1)):
            got.append([e.run_id, e.sequence, e.event.model_dump()])
        return canon(got)
    if k == "ws.append_tick":
        run = op["run"]
        await s.append_tick(run, {kk: _value(v) for kk, v in op["data"].items()})
        return "none"
    if k == "ws.get_ticks":
        return canon([[t.run_id, t.sequence, t.tick_data] for t in await s.get_ticks(op["run"])])
    if k == "ws.stream_ticks":
        got = []
        async for t in s.stream_ticks(op["run"]):
            got.append([t.run_id, t.sequence, t.tick_data])
        return canon(got)
    if k == "ws.get_legacy_ctx":
        return canon(s.get_legacy_ctx(op["run"]))
    if k == "ws.after_tick":
        await s.after_tick(op["run"], op.get("data", {}))
        return "none"
    if k == "ws.create_state_store":
        seed = op.get("seed")
        kw2: dict[str, Any] = {}
        if op.get("typed"):
            kw2["state_type"] = CounterState
        if seed is not None:
            kw2["serializer"] = JsonSerializer()
            if seed["kind"] == "sqlite":
                kw2["serialized_state"] = {"store_type": "sqlite", "run_id": seed["run"]}
            else:
                mem = InMemoryStateStore(DictState(**seed["data"]))
                kw2["serialized_state"] = mem.to_dict(JsonSerializer())
        try:
            ss = s.create_state_store(op["run"], **kw2)
        except BaseException:
            side.objs.append(None)
            raise
        side.ids[id(ss)] = len(side.objs)
        side.objs.append(ss)
        return f"store {len(side.objs) - 1}"
    # state store operations
    i = op["obj"]
    ss = side.objs[i] if 0 <= i < len(side.objs) else None
    if ss is None:
        return "no-such-store"
    if k == "ss.get":
        if "default" in op:
            return canon(await ss.get(op["path"], op["default"]))
        return canon(await ss.get(op["path"]))
    if k == "ss.set":
        await ss.set(op["path"], _value(op["value"]))
        return "none"
    if k == "ss.get_state":
        return canon(await ss.get_state())
    if k == "ss.set_state":
        st = op["state"]
        obj = CounterState(**st["data"]) if st["type"] == "counter" else DictState(**st["data"])
        await ss.set_state(obj)
        return "none"
    if k == "ss.clear":
        await ss.clear()
        return "none"
    if k == "ss.edit_state":
        async with ss.edit_state() as state:
            for path, val in op.get("sets", []):
                from workflows.context.state_store import set_by_path

                set_by_path(state, path, _value(val))
            if op.get("boom"):
                raise RuntimeError("edit body failed")
        return "none"
    if k == "ss.to_dict":
        return canon(ss.to_dict(JsonSerializer()))
    raise ValueError(f"unknown op {k}")


# --------------------------------------------------------------------------
# op generation

RUNS = ["r0", "r1", "r2"]
STATUSES = ["running", "completed", "failed", "cancelled"]
WFS = ["wfA", "wfB"]
PATHS = ["a", "b", "a.x", "a.y.z", "b.0", "c", "items", "0", "count", "label", "deep.p.q.r"]


def gen_value(rng: Any, depth: int = 0) -> Any:
    r = rng.random()
    if r < 0.3 or depth > 1:
        return rng.randint(-5, 50)
    if r < 0.5:
        return rng.choice(["", "s", "héllo", "x" * 20])
    if r < 0.6:
        return rng.choice([None, True, False, 1.5])
    if r < 0.8:
        return [gen_value(rng, depth + 1) for _ in range(rng.randint(0, 3))]
    return {rng.choice(["x", "y", "z", "k"]): gen_value(rng, depth + 1) for _ in range(rng.randint(0, 3))}


def gen_query(rng: Any) -> dict:
    q: dict[str, Any] = {}
    if rng.random() < 0.4:
        q["handler_id_in"] = rng.sample([f"h{i}" for i in range(5)], rng.randint(0, 3))
    if rng.random() < 0.35:
        q["run_id_in"] = rng.sample(RUNS + ["nope"], rng.randint(0, 2))
    if rng.random() < 0.25:
        q["workflow_name_in"] = rng.sample(WFS, rng.randint(0, 2))
    if rng.random() < 0.3:
        q["status_in"] = rng.sample(STATUSES, rng.randint(0, 2))
    if rng.random() < 0.2:
        q["is_idle"] = rng.random() < 0.5
    return q


class OpGen:
    def __init__(self, rng: Any):
        self.rng = rng
        self.objs: list[dict] = []  # {"run", "typed"}
        self.nev = {r: 0 for r in RUNS}
        self.terminal: dict[str, int | None] = {r: None for r in RUNS}
        self.t = 0

    def next(self) -> dict:
        rng = self.rng
        self.t += 1
        r = rng.random()
        run = rng.choice(RUNS[: rng.choice([1, 2, 3])])
        if r < 0.10:
            st = rng.choice(STATUSES)
            return {"op": "ws.update", "handler": {
                "id": f"h{rng.randrange(5)}", "wf": rng.choice(WFS), "status": st,
                "run": rng.choice(RUNS + [None]), "error": rng.choice([None, "boom"]),
                "result": rng.choice([None, None, 7, {"k": [1, 2]}, "done"]),
                "started": rng.choice([None, 10, 20]), "updated": rng.choice([None, 30]),
                "completed": 40 if st != "running" and rng.random() < 0.7 else None,
                "idle": rng.choice([None, None, 50])}}
        if r < 0.14:
            op: dict[str, Any] = {"op": "ws.update_handler_status", "run": rng.choice(RUNS + ["nope"]),
                                  "status": rng.choice(STATUSES + [None])}
            if rng.random() < 0.3:
                op["error"] = "late failure"
            if rng.random() < 0.3:
                op["result"] = gen_value(rng)
            if rng.random() < 0.4:
                op["idle"] = rng.choice([None, 60])
            return op
        if r < 0.22:
            return {"op": "ws.query", "q": gen_query(rng)}
        if r < 0.25:
            return {"op": "ws.delete", "q": gen_query(rng)}
        if r < 0.34:
            bad = rng.random() < 0.08
            stop = rng.random() < 0.15
            op = {"op": "ws.append_event", "run": None if bad else run, "value": {"n": self.t, "v": gen_value(rng)},
                  "type": "StopEvent" if stop else rng.choice(["TickEvent", "MyEvent"]),
                  "types": rng.choice([None, ["Event"], ["StopEvent", "Event"]]) if not stop else ["Event"]}
            if not bad:
                terminal = op["type"] == "StopEvent" or "StopEvent" in (op["types"] or [])
                if terminal and self.terminal[run] is None:
                    self.terminal[run] = self.nev[run]
                self.nev[run] += 1
            return op
        if r < 0.40:
            if rng.random() < 0.12:  # a read that raises inside its section (unbindable parameter)
                return rng.choice([
                    {"op": "ws.query_events", "run": run, "after": {"bad": 1}, "limit": None},
                    {"op": "ws.query_events", "run": run, "after": None, "limit": {"bad": 1}},
                    {"op": "ws.get_ticks", "run": {"bad": 1}},
                    {"op": "ws.stream_ticks", "run": {"bad": 1}},
                    {"op": "ws.get_legacy_ctx", "run": {"bad": 1}},
                    {"op": "ws.query", "q": {"handler_id_in": [{"bad": 1}]}},
                    {"op": "ws.delete", "q": {"run_id_in": [{"bad": 1}]}},
                ])
            return {"op": "ws.query_events", "run": rng.choice(RUNS + ["nope"]),
                    "after": rng.choice([None, None, -1, 0, 1, 3]), "limit": rng.choice([None, None, 0, 1, 2])}
        if r < 0.43:
            t = self.terminal[run]
            if t is not None:
                return {"op": "ws.subscribe_events", "run": run, "after": rng.choice([a for a in (-1, 0, 1, t - 1) if a < t])}
            return {"op": "ws.query_events", "run": run, "after": None, "limit": None}
        if r < 0.50:
            m = rng.random()
            if m < 0.07:
                return {"op": "ws.append_tick", "run": run, "data": {"bad": {"__unserialisable__": True}}}
            if m < 0.12:
                return {"op": "ws.append_tick", "run": {"not": "a string"}, "data": {"n": self.t}}
            return {"op": "ws.append_tick", "run": run, "data": {"n": self.t, "v": gen_value(rng)}}
        if r < 0.54:
            return {"op": "ws.get_ticks", "run": rng.choice(RUNS + ["nope"])}
        if r < 0.58:
            return {"op": "ws.stream_ticks", "run": run}
        if r < 0.60:
            return {"op": "ws.get_legacy_ctx", "run": rng.choice(RUNS + ["nope"])}
        if r < 0.61:
            return {"op": "ws.after_tick", "run": run}
        if r < 0.68 or not self.objs:
            op = {"op": "ws.create_state_store", "run": rng.choice(RUNS + ["fresh%d" % rng.randrange(3)])}
            m = rng.random()
            if m < 0.15:
                op["typed"] = True
            elif m < 0.3:
                op["seed"] = {"kind": "sqlite", "run": rng.choice(RUNS)}
            elif m < 0.42:
                op["seed"] = {"kind": "memory", "data": {rng.choice("abc"): gen_value(rng) for _ in range(rng.randint(0, 2))}}
            self.objs.append({"run": op["run"], "typed": bool(op.get("typed"))})
            return op
        # state store operations
        i = rng.randrange(len(self.objs)) if rng.random() < 0.97 else len(self.objs) + 2
        typed = self.objs[i]["typed"] if i < len(self.objs) else False
        m = rng.random()
        path = rng.choice(["count", "label", "other"] if typed and rng.random() < 0.8 else PATHS)
        if m < 0.27:
            op = {"op": "ss.get", "obj": i, "path": path if rng.random() < 0.92 else ""}
            if rng.random() < 0.6:
                op["default"] = rng.choice([None, 0, "dflt"])
            return op
        if m < 0.60:
            mm = rng.random()
            if mm < 0.06:
                return {"op": "ss.set", "obj": i, "path": "", "value": 1}
            if mm < 0.12:
                return {"op": "ss.set", "obj": i, "path": path, "value": {"__unserialisable__": True}}
            if mm < 0.16:
                return {"op": "ss.set", "obj": i, "path": ".".join(["p"] * 1200), "value": 1}
            val = rng.randint(0, 9) if typed and path == "count" else gen_value(rng)
            return {"op": "ss.set", "obj": i, "path": path, "value": val}
        if m < 0.70:
            return {"op": "ss.get_state", "obj": i}
        if m < 0.80:
            if (typed and rng.random() < 0.8) or (not typed and rng.random() < 0.1):
                st = {"type": "counter", "data": {"count": rng.randint(0, 9), "label": rng.choice(["p", "q"])}}
            else:
                st = {"type": "dict", "data": {rng.choice("abxy"): gen_value(rng) for _ in range(rng.randint(0, 3))}}
            return {"op": "ss.set_state", "obj": i, "state": st}
        if m < 0.85:
            return {"op": "ss.clear", "obj": i}
        if m < 0.96:
            sets = [[rng.choice(["count"] if typed else PATHS), rng.randint(0, 9) if typed else gen_value(rng)]
                    for _ in range(rng.randint(0, 3))]
            return {"op": "ss.edit_state", "obj": i, "sets": sets, "boom": rng.random() < 0.15}
        return {"op": "ss.to_dict", "obj": i}


# --------------------------------------------------------------------------
# histories with repeated LONG filter lists (sweeps over hundreds to thousands of ids / run ids / names / statuses)

LONG_SIZES = [120, 400, 520, 650, 999, 1000, 1300, 2100, 4000]
LONG_COLS = ("handler_id_in", "run_id_in", "workflow_name_in", "status_in")
LL_WFS = ["wfA", "wfB", "wfC"]


def _ll_handler(rng: Any, i: int, status: str | None = None) -> dict:
    st = status or rng.choice(STATUSES)
    return {"id": f"k{i:03d}", "wf": rng.choice(LL_WFS), "status": st, "run": f"kr{i:03d}", "error": None,
            "result": rng.choice([None, None, 7]), "started": 10, "updated": 30,
            "completed": 40 if st != "running" else None, "idle": rng.choice([None, None, 50])}


def _ll_list(rng: Any, col: str, n_handlers: int, long: bool) -> Any:
    """a filter list for column `col`: a few values that exist plus padding that matches nothing"""
    if col == "handler_id_in":
        real = [f"k{i:03d}" for i in rng.sample(range(n_handlers + 3), rng.randint(0, min(8, n_handlers)))]
        pfx = rng.choice(["gone-k", "old-k"])
    elif col == "run_id_in":
        real = [f"kr{i:03d}" for i in rng.sample(range(n_handlers + 3), rng.randint(0, min(8, n_handlers)))]
        pfx = rng.choice(["gone-r", "old-r"])
    elif col == "workflow_name_in":
        real = rng.sample(LL_WFS + ["wfZ"], rng.randint(0, 2))
        pfx = rng.choice(["retired-wf", "tmp-wf"])
    else:
        real = rng.sample(STATUSES, rng.randint(0, 2))
        pfx = rng.choice(["legacy-status", "x-status"])
    if not long:
        return real + [f"{pfx}{i}" for i in range(rng.randint(0, 3))]
    spec: dict[str, Any] = {"ids": real, "pad": [pfx, rng.choice([0, 0, 300, 1000]), rng.choice(LONG_SIZES)]}
    if rng.random() < 0.2:
        spec["rev"] = True
    if rng.random() < 0.1:
        spec["twice"] = True
    return spec


def gen_longlist_case(rng: Any) -> dict:
    """Handlers with unique run ids (so the input oracle stays determined); then sweeps: queries and deletes whose filter
    lists are long, several on the same column (overlapping / disjoint padding, different existing values), mixed with
    short ones, updates and state-store use."""
    n = rng.randint(6, 24)
    ops: list[dict] = [{"op": "ws.update", "handler": _ll_handler(rng, i)} for i in range(n)]
    nxt = n
    cols = rng.sample(LONG_COLS, rng.randint(1, 2))  # the columns this history sweeps repeatedly
    have_store = False
    for _ in range(rng.randint(8, 18)):
        r = rng.random()
        col = rng.choice(cols) if rng.random() < 0.8 else rng.choice(LONG_COLS)
        if r < 0.45:
            q: dict[str, Any] = {col: _ll_list(rng, col, nxt, True)}
            if rng.random() < 0.2:
                other = rng.choice([c for c in LONG_COLS if c != col])
                q[other] = _ll_list(rng, other, nxt, rng.random() < 0.5)
            if rng.random() < 0.1:
                q["is_idle"] = rng.random() < 0.5
            ops.append({"op": "ws.query", "q": q})
        elif r < 0.62:
            ops.append({"op": "ws.delete", "q": {col: _ll_list(rng, col, nxt, True)}})
        elif r < 0.72:
            ops.append({"op": rng.choice(["ws.query", "ws.query", "ws.delete"]), "q": {col: _ll_list(rng, col, nxt, False)}})
        elif r < 0.82:
            i = rng.randrange(nxt + 1)
            nxt = max(nxt, i + 1)
            ops.append({"op": "ws.update", "handler": _ll_handler(rng, i)})
        elif r < 0.88:
            ops.append({"op": "ws.update_handler_status", "run": f"kr{rng.randrange(nxt + 1):03d}",
                        "status": rng.choice(STATUSES + [None]), "idle": rng.choice([None, 60])})
        elif r < 0.94 or not have_store:
            ops.append({"op": "ws.create_state_store", "run": f"kr{rng.randrange(nxt):03d}"})
            ops.append({"op": "ss.set", "obj": 0, "path": "k", "value": rng.randint(0, 9)})
            have_store = True
        else:
            ops.append({"op": "ss.get", "obj": 0, "path": "k", "default": None})
    ops.append({"op": "ws.query", "q": {}})
    return {"label": "generated long-list sweeps", "ops": ops}


CORPUS: list[dict] = [
    {"label": "F19 witness: state store use, then a workflow-store call",
     "ops": [{"op": "ws.create_state_store", "run": "r0"}, {"op": "ss.set", "obj": 0, "path": "a", "value": 1},
             {"op": "ws.query", "q": {}}, {"op": "ss.get", "obj": 0, "path": "a"}]},
    {"label": "read of an unknown run creates the default row; two stores on one run interleaved",
     "ops": [{"op": "ws.create_state_store", "run": "r0"}, {"op": "ws.create_state_store", "run": "r0"},
             {"op": "ss.get", "obj": 0, "path": "a", "default": None}, {"op": "ss.set", "obj": 1, "path": "a.x", "value": [1, 2]},
             {"op": "ss.get_state", "obj": 0}, {"op": "ss.edit_state", "obj": 0, "sets": [["b", 2]], "boom": False},
             {"op": "ss.edit_state", "obj": 1, "sets": [["c", 3]], "boom": True}, {"op": "ss.get_state", "obj": 1},
             {"op": "ss.clear", "obj": 0}, {"op": "ss.get_state", "obj": 1}]},
    {"label": "failing statements leave the shared connection usable",
     "ops": [{"op": "ws.append_event", "run": None, "value": {}, "type": "X", "types": None},
             {"op": "ws.query", "q": {}},
             {"op": "ws.query_events", "run": "r0", "after": {"bad": 1}, "limit": None},
             {"op": "ws.query_events", "run": "r0", "after": None, "limit": None},
             {"op": "ws.get_ticks", "run": {"bad": 1}}, {"op": "ws.query", "q": {"handler_id_in": [{"bad": 1}]}},
             {"op": "ws.delete", "q": {"run_id_in": [{"bad": 1}]}}, {"op": "ws.get_legacy_ctx", "run": {"bad": 1}},
             {"op": "ws.stream_ticks", "run": {"bad": 1}}, {"op": "ws.get_ticks", "run": "r0"},
             {"op": "ws.append_tick", "run": {"bad": 1}, "data": {"n": 1}},
             {"op": "ws.append_tick", "run": "r0", "data": {"bad": {"__unserialisable__": True}}},
             {"op": "ws.append_tick", "run": "r0", "data": {"n": 1}}, {"op": "ws.get_ticks", "run": "r0"},
             {"op": "ws.create_state_store", "run": "r0"},
             {"op": "ss.set", "obj": 0, "path": "", "value": 1},
             {"op": "ss.set", "obj": 0, "path": "a", "value": {"__unserialisable__": True}},
             {"op": "ss.get", "obj": 0, "path": "missing"}, {"op": "ss.set", "obj": 0, "path": "a", "value": 5},
             {"op": "ss.set", "obj": 0, "path": "a.b", "value": 6}, {"op": "ss.get_state", "obj": 0}]},
    {"label": "seeded state stores and paging",
     "ops": [{"op": "ws.create_state_store", "run": "r0"}, {"op": "ss.set", "obj": 0, "path": "k", "value": {"x": 1}},
             {"op": "ws.create_state_store", "run": "r1", "seed": {"kind": "sqlite", "run": "r0"}},
             {"op": "ws.create_state_store", "run": "r2", "seed": {"kind": "memory", "data": {"m": [1, 2, 3]}}},
             {"op": "ws.create_state_store", "run": "r0", "seed": {"kind": "sqlite", "run": "r0"}},
             {"op": "ss.get_state", "obj": 1}, {"op": "ss.get_state", "obj": 2}, {"op": "ss.get_state", "obj": 3}]
            + [{"op": "ws.append_tick", "run": "r0", "data": {"n": i}} for i in range(7)]
            + [{"op": "ws.stream_ticks", "run": "r0"}, {"op": "ws.get_ticks", "run": "r0"}, {"op": "ws.stream_ticks", "run": "r1"}]},
    {"label": "handlers, events, subscribe",
     "ops": [{"op": "ws.update", "handler": {"id": "h0", "wf": "wfA", "status": "running", "run": "r0", "error": None,
                                             "result": None, "started": 1, "updated": 2, "completed": None, "idle": None}},
             {"op": "ws.update_handler_status", "run": "r0", "status": "completed", "result": {"a": 1}},
             {"op": "ws.update_handler_status", "run": "nope", "status": "failed"},
             {"op": "ws.query", "q": {"run_id_in": ["r0"]}}, {"op": "ws.query", "q": {"handler_id_in": []}},
             {"op": "ws.append_event", "run": "r0", "value": {"n": 1}, "type": "MyEvent", "types": ["Event"]},
             {"op": "ws.append_event", "run": "r0", "value": {"n": 2}, "type": "StopEvent", "types": ["Event"]},
             {"op": "ws.subscribe_events", "run": "r0", "after": -1}, {"op": "ws.query_events", "run": "r0", "after": 0, "limit": 1},
             {"op": "ws.delete", "q": {"status_in": ["completed"]}}, {"op": "ws.delete", "q": {}}, {"op": "ws.query", "q": {}},
             {"op": "ws.get_legacy_ctx", "run": "r0"}, {"op": "ws.after_tick", "run": "r0"}]},
    {"label": "two long-list sweeps over handler ids, then a long-list purge: each call answers for its own list only",
     "ops": [{"op": "ws.update", "handler": {"id": f"k{i:03d}", "wf": "wfA", "status": "completed", "run": f"kr{i:03d}",
                                             "error": None, "result": None, "started": 1, "updated": 2, "completed": 3,
                                             "idle": None}} for i in range(6)]
            + [{"op": "ws.query", "q": {"handler_id_in": {"ids": ["k000", "k001"], "pad": ["old-a", 0, 600]}}},
               {"op": "ws.create_state_store", "run": "kr000"}, {"op": "ss.set", "obj": 0, "path": "k", "value": 1},
               {"op": "ws.query", "q": {"handler_id_in": {"ids": ["k002", "k003"], "pad": ["old-b", 0, 600]}}},
               {"op": "ws.query", "q": {"run_id_in": {"ids": ["kr004"], "pad": ["old-r", 0, 1200]}}},
               {"op": "ws.query", "q": {"run_id_in": {"ids": ["kr005"], "pad": ["old-r", 1000, 1200]}}},
               {"op": "ws.delete", "q": {"handler_id_in": {"ids": ["k005"], "pad": ["gone", 0, 600]}}},
               {"op": "ws.query", "q": {"status_in": {"ids": ["completed"], "pad": ["legacy", 0, 700]}}},
               {"op": "ws.delete", "q": {"status_in": {"ids": ["failed"], "pad": ["legacy", 300, 700]}}},
               {"op": "ss.get", "obj": 0, "path": "k"}, {"op": "ws.query", "q": {}}]},
    {"label": "typed state store",
     "ops": [{"op": "ws.create_state_store", "run": "r0", "typed": True}, {"op": "ss.get", "obj": 0, "path": "count"},
             {"op": "ss.set", "obj": 0, "path": "count", "value": 3},
             {"op": "ss.set_state", "obj": 0, "state": {"type": "dict", "data": {"a": 1}}},
             {"op": "ss.set_state", "obj": 0, "state": {"type": "counter", "data": {"count": 9, "label": "z"}}},
             {"op": "ss.get_state", "obj": 0}, {"op": "ss.clear", "obj": 0}, {"op": "ss.to_dict", "obj": 0},
             {"op": "ss.get", "obj": 4, "path": "a"}]},
]

KNOWN_OPS = {"ws": {"stream_ticks", "after_tick", "update_handler_status", "subscribe_events", "create_state_store", "query",
                    "update", "delete", "append_event", "query_events", "append_tick", "get_ticks", "get_legacy_ctx"},
             "ss": {"get_state", "set_state", "get", "set", "clear", "edit_state", "to_dict"}}


# --------------------------------------------------------------------------
# independent oracle for the handler table (what query / delete must answer, computed from the inputs of the history)

FILTER_COLS = (("handler_id_in", "id"), ("run_id_in", "run"), ("workflow_name_in", "wf"), ("status_in", "status"))


def size_bucket(n: int) -> str:
    return "0" if n == 0 else "1-9" if n < 10 else "10-99" if n < 100 else "100-999" if n < 1000 else "1000+"


class HandlerOracle:
    """The filter columns of the handlers table as a dictionary, maintained from the operations' arguments only.
    `ok` turns False (for the rest of the history) when the inputs do not determine the table any more: an
    update_handler_status on a run id that several handlers share (which one is "the first" is not specified)."""

    def __init__(self) -> None:
        self.rows: dict[str, dict] = {}
        self.ok = True
        self.why = ""

    def taint(self, why: str) -> None:
        if self.ok:
            self.ok, self.why = False, why

    def _match(self, q: dict) -> list[str] | None:
        """ids matching the query, or None when the answer is not determined (unbindable values)"""
        want: dict[str, set] = {}
        for f, col in FILTER_COLS:
            v = expand_list(q.get(f))
            if v is None:
                continue
            if not isinstance(v, list) or not all(isinstance(x, str) for x in v):
                return None
            want[col] = set(v)
        idle = q.get("is_idle")
        res = []
        for hid, r in self.rows.items():
            if all(r[col] is not None and r[col] in vals for col, vals in want.items()) \
                    and (idle is None or bool(r["idle"]) == bool(idle)):
                res.append(hid)
        return sorted(res)

    @staticmethod
    def clauses(q: dict) -> int | None:
        """number of filter clauses; None when one of the lists is empty (the query matches nothing)"""
        n = 0
        for f, _col in FILTER_COLS:
            v = expand_list(q.get(f))
            if v is not None:
                if len(v) == 0:
                    return None
                n += 1
        return n + (1 if q.get("is_idle") is not None else 0)

    def expect(self, op: dict) -> Any:
        """Apply the operation; for query the expected sorted id list, for delete the expected count; None = not determined."""
        k = op["op"]
        if k == "ws.update":
            h = op["handler"]
            self.rows[h["id"]] = {"id": h["id"], "wf": h["wf"], "status": h["status"], "run": h.get("run"),
                                  "idle": h.get("idle") is not None}
            return None
        if k == "ws.update_handler_status":
            hit = [r for r in self.rows.values() if r["run"] == op["run"]]
            if len(hit) > 1:
                self.taint(f"update_handler_status on run {op['run']!r} shared by {len(hit)} handlers")
            elif hit:
                if op.get("status") is not None:
                    hit[0]["status"] = op["status"]
                if "idle" in op:
                    hit[0]["idle"] = op["idle"] is not None
            return None
        if k == "ws.query":
            if self.clauses(op["q"]) is None:
                return []
            return self._match(op["q"])
        if k == "ws.delete":
            nc = self.clauses(op["q"])
            if nc is None or nc == 0:
                return 0
            m = self._match(op["q"])
            if m is None:
                self.taint("delete with unbindable values")
                return None
            for hid in m:
                del self.rows[hid]
            return len(m)
        return None


def query_shape(q: dict) -> str:
    """classifying facts of a query for signatures: which columns are filtered and how long the longest list is"""
    cols = [col for f, col in FILTER_COLS if q.get(f) is not None]
    longest = max([len(expand_list(q[f])) for f, _c in FILTER_COLS if q.get(f) is not None] or [0])
    return f"filter={'+'.join(cols) or 'none'},longest_list={size_bucket(longest)}"


# --------------------------------------------------------------------------
# connection-scoped state of the persistent connection (what a newly opened connection would not have)

PROBE_PRAGMAS = ["foreign_keys", "query_only", "read_uncommitted", "recursive_triggers", "defer_foreign_keys",
                 "ignore_check_constraints", "reverse_unordered_selects", "cache_size", "busy_timeout", "temp_store",
                 "synchronous", "locking_mode", "automatic_index", "cell_size_check", "trusted_schema"]


def probe_objects(conn: Any) -> tuple:
    """TEMP schema objects and attached databases of a connection (cheap; run after every section)"""
    ex = sqlite3.Connection.execute
    try:
        temp = tuple(sorted(f"{r[0]}:{r[1]}" for r in ex(conn, "SELECT type, name FROM sqlite_temp_master").fetchall()))
        dbs = tuple(sorted(r[1] for r in ex(conn, "PRAGMA database_list").fetchall() if r[1] not in ("main", "temp")))
    except sqlite3.Error as e:
        return (("error:" + type(e).__name__,), ())
    return (temp, dbs)


def probe_conn(conn: Any) -> dict:
    """{} when the connection cannot be asked (closed: the closed-connection monitors report that)"""
    temp, dbs = probe_objects(conn)
    try:
        intx = bool(conn.in_transaction)
    except sqlite3.Error:
        return {}
    if temp and temp[0].startswith("error:"):
        return {}
    res: dict[str, Any] = {"temp_objects": temp, "attached_databases": dbs, "in_transaction": intx}
    for name in PROBE_PRAGMAS:
        try:
            row = sqlite3.Connection.execute(conn, f"PRAGMA {name}").fetchone()
            res["pragma:" + name] = row[0] if row else None
        except sqlite3.Error as e:
            res["pragma:" + name] = "error:" + type(e).__name__
    return res


# --------------------------------------------------------------------------
# one case = one history on a fresh pair of stores


@dataclass
class CaseResult:
    lines: list[str] = field(default_factory=list)
    impl: list[str] = field(default_factory=list)
    violations: list[Violation] = field(default_factory=list)
    nontrivial: int = 0


def _res_word(inst: Inst | None) -> str:
    if inst is None:
        return "closed"
    return inst.outcome or "ok"


def run_case(case: dict, table: dict, out: Outcome, tmp: str, idx: int) -> CaseResult:
    from llama_agents.server._store.sqlite.sqlite_workflow_store import SqliteWorkflowStore

    cr = CaseResult()
    TR.shared_closed_by = None
    TR.last_writer = None
    ops_by_name = {(o["tag"], o["name"]): set(o["secs"]) for o in table["ops"]}
    sides = [Side("single", os.path.join(tmp, f"c{idx}_single.db")), Side("percall", os.path.join(tmp, f"c{idx}_percall.db"))]
    payload = {"label": case.get("label", "generated"), "ops": case["ops"]}
    base_probe: dict[str, Any] = {}

    def violate(sig: str, what: str) -> None:
        if not any(v.signature == sig for v in cr.violations):
            cr.violations.append(Violation(sig, what, payload))

    # ---- construction (traced: the constructor's sections are checked against the table facts)
    for side in sides:
        TR.begin(side.mode, None, {})
        try:
            side.store = SqliteWorkflowStore(side.path, poll_interval=0.05, single_connection=(side.mode == "single"))
        finally:
            insts = TR.end()
        left = [c for c in TR.open_conns if c is not side.shared]
        if side.mode == "single":
            sh = side.shared
            if sh is None or getattr(sh, "_c21_closed", False) or not isinstance(sh, TracingConnection):
                violate("C21/closed_shared_connection:__init__", "after construction with single_connection=True the "
                        "persistent connection is missing or closed")
                side.dead = True
            elif sh.in_transaction:
                violate("C21/uncommitted_write:__init__", "the constructor leaves the persistent connection inside a transaction")
            if not side.dead:
                base_probe.update(probe_conn(sh))
                if base_probe:
                    sh._c21_objs = (base_probe["temp_objects"], base_probe["attached_databases"])
            if sum(i.opened for i in insts) != 1:
                violate("C21/single_mode_second_connection:__init__",
                        f"construction in single-connection mode opened {sum(i.opened for i in insts)} connections")
        elif left or sum(i.opened for i in insts) != sum(i.closed for i in insts):
            violate("C21/percall_connection_leak:__init__", "the per-call constructor leaves a connection open")
    cr.lines.append("reset")
    cr.impl.append("reset")
    orc = HandlerOracle()
    prev_probe: dict[str, Any] = dict(base_probe)  # connection-scoped state at the end of the previous operation
    intx_before = [False]  # was the persistent connection inside a transaction when the operation started

    async def main(_loop: Any) -> None:
        for n, op in enumerate(case["ops"]):
            FakeDatetime.current = datetime(2026, 1, 1, tzinfo=timezone.utc) + timedelta(seconds=n)
            orc_ok = orc.ok
            try:
                expected = orc.expect(op)
            except Exception as e:  # malformed operation description (replay files): no expectation
                orc.taint(f"oracle cannot read operation #{n}: {e!r}")
                expected = None
            results: dict[str, str] = {}
            traces: dict[str, list[Inst]] = {}
            for side in sides:
                TR.begin(side.mode, side.shared, side.ids)
                try:
                    results[side.mode] = await exec_op(side, op)
                except Exception as e:  # the operation raised: that is its result
                    results[side.mode] = canon_exc(e, side)
                finally:
                    leaked = list(TR.open_conns)
                    traces[side.mode] = TR.end()
                if leaked:
                    fn = traces[side.mode][-1].fn if traces[side.mode] else "?"
                    if side.mode == "percall":
                        violate(f"C21/percall_connection_leak:{fn}", f"operation {op['op']} left {len(leaked)} per-call "
                                f"connection(s) open (opened in {fn})")
                    for c in leaked:
                        try:
                            sqlite3.Connection.close(c)
                        except Exception:
                            pass
            out.evaluations += 1
            out.count("op:" + op["op"])
            rs, rp = results["single"], results["percall"]
            out.count("result:" + ("raise" if rp.startswith("raise ") else "value"))
            ts, tp = traces["single"], traces["percall"]
            tag, name = op["op"].split(".", 1)
            # ---- (S) monitors on the two real stores
            closed_now = any(i.outcome == "closed" for i in ts) or ("closed database" in rs and "ProgrammingError" in rs)
            sh = sides[0].shared
            shared_closed = sh is not None and getattr(sh, "_c21_closed", False)
            if closed_now or shared_closed:
                by = TR.shared_closed_by or "unknown"
                violate(f"C21/closed_shared_connection:{by}",
                        f"single-connection mode: operation #{n} {op['op']} -> {rs!r} (per-call: {rp[:80]!r}); the shared "
                        f"connection was closed by {by}")
            elif rs != rp:
                violate(f"C21/modes_disagree:{op['op']}", f"operation #{n} {op['op']}: single-connection -> {rs[:200]!r}, "
                        f"per-call -> {rp[:200]!r}")
            if any(i.opened for i in ts):
                fn = next(i.fn for i in ts if i.opened)
                violate(f"C21/single_mode_second_connection:{fn}", f"single-connection mode: {op['op']} opened another "
                        f"connection in {fn} (locking is disabled on the persistent one)")
            if sh is not None and not shared_closed:
                pend = dump_via(sh) != dump_file(sides[0].path)
                if pend:
                    violate(f"C21/uncommitted_write:{TR.last_writer or '?'}", f"after {op['op']} the persistent connection "
                            f"holds changes that are not committed to the database file (last writer {TR.last_writer})")
            # connection-scoped state: after a call the persistent connection has what a newly opened one would have
            if sh is not None and not shared_closed and base_probe:
                now = probe_conn(sh)
                before = dict(prev_probe)
                prev_probe.update(now)
                if not now:
                    out.count("probe:persistent-connection-cannot-be-probed")
                for key in sorted(now):
                    if now[key] == base_probe.get(key) or now[key] == before.get(key):
                        continue  # as after construction / left by an earlier call (reported there)
                    if key == "in_transaction":
                        if rs.startswith("raise ") or intx_before[0]:
                            continue  # a failed statement leaves sqlite3's implicit (empty) transaction open: see ASSUMPTIONS
                        fn = next((i.fn for i in reversed(ts) if i.intx_after), ts[-1].fn if ts else "?")
                        violate(f"C21/connection_state_left_behind:open_transaction[{fn}]",
                                f"operation #{n} {op['op']} returned normally ({rs[:60]!r}) and left the persistent connection "
                                f"inside a transaction (section {fn}); a per-call connection is closed at this point. "
                                f"TEMP objects on the connection: {list(now['temp_objects'])}")
                    else:
                        fn = next((i.fn for i in reversed(ts) if i.residue), ts[-1].fn if ts else "?")
                        violate(f"C21/connection_state_left_behind:{key}[{fn}]",
                                f"after operation #{n} {op['op']} the persistent connection carries connection-scoped state a "
                                f"newly opened connection does not have: {key} = {now[key]!r} (after construction: "
                                f"{base_probe.get(key)!r}); it stays for every later call on this store and its state stores")
                intx_before[0] = bool(now.get("in_transaction"))
                out.count("probe:connection-state-after-call")
            # the handler table computed from the inputs: which mode answers something the call does not determine
            if op["op"] in ("ws.update", "ws.update_handler_status") and (rp.startswith("raise ") or rs.startswith("raise ")):
                orc.taint(f"operation #{n} {op['op']} raised")
            if expected is not None and orc_ok and op["op"] in ("ws.query", "ws.delete") and not (closed_now or shared_closed):
                out.count("oracle:" + op["op"] + ":" + query_shape(op["q"]))
                got: dict[str, Any] = {}
                for mode, r in (("single", rs), ("percall", rp)):
                    if r.startswith("raise "):
                        got[mode] = r
                    elif op["op"] == "ws.query":
                        got[mode] = sorted(d["handler_id"] for d in json.loads(r))
                    else:
                        got[mode] = json.loads(r)
                wrong = [m for m in ("single", "percall") if got[m] != expected]
                if len(wrong) == 2 and got["single"] == got["percall"]:
                    out.count("oracle:both-modes-differ-from-the-oracle-identically")
                    out.notes.append(f"handler oracle: {op['op']} #{n} of case {payload['label']!r} answered {str(got['single'])[:80]} "
                                     f"in both modes, the inputs give {str(expected)[:80]} (not a mode difference)")
                    orc.taint("both modes differ from the oracle")
                elif wrong:
                    for m in wrong:
                        g = got[m]
                        if isinstance(g, str):
                            kind = "raises"
                        elif op["op"] == "ws.query":
                            kind = ("returns_unrequested_handlers" if set(g) > set(expected) else
                                    "misses_requested_handlers" if set(g) < set(expected) else "other_handlers")
                        else:
                            kind = "deletes_too_many" if g > expected else "deletes_too_few"
                        mname = "single_connection" if m == "single" else "per_call"
                        violate(f"C21/result_not_determined_by_call:{op['op']}[{mname};{kind};{query_shape(op['q'])}]",
                                f"operation #{n} {op['op']} on the {mname} store -> {str(g)[:160]}; the handlers stored so far "
                                f"and this call's filters give {str(expected)[:160]} (the other mode: "
                                f"{str(got['percall' if m == 'single' else 'single'])[:120]}); earlier calls of the history "
                                f"changed what this call answers")
                    orc.taint("after a reported difference")
            # ---- (K) model lines: one per section instance of the per-call run
            if op["op"] == "ws.create_state_store" and not rp.startswith("raise "):
                pass
            listed = ops_by_name.get((tag, name))
            if listed is None:
                cr.lines.append(f"unlisted-op|{op['op']}")
                cr.impl.append(f"operation {op['op']} is not a public method in the generated table")
            else:
                for i in tp + ts:
                    if i.fn not in listed:
                        cr.lines.append(f"unlisted-section|{op['op']}|{i.fn}")
                        cr.impl.append(f"{op['op']} ran section {i.fn}, which the static call graph does not list for it")
            if op["op"] == "ws.create_state_store":
                ss_s = sides[0].objs[-1] if sides[0].objs else None
                given = ss_s is not None and getattr(ss_s, "_shared_conn", None) is not None
                # sections of a seeded creation run before the object is registered: patch their object index
                for tr in (ts, tp):
                    for i in tr:
                        if i.obj == "?":
                            i.obj = str(len(sides[1].objs) - 1)
                cr.lines.append("new|1")
                cr.impl.append(f"store={len(sides[1].objs) - 1} given={1 if given else 0}")
            for j, ip in enumerate(tp):
                is_ = ts[j] if j < len(ts) else None
                cr.lines.append(f"sec|{ip.obj}|{ip.fn}|{1 if ip.outcome == 'ok' else 0}|{1 if ip.dml else 0}|{1 if ip.dml_ok else 0}")
                if is_ is not None and (is_.fn != ip.fn or is_.obj != ip.obj):
                    cr.impl.append(f"single ran {is_.fn}@{is_.obj} where per-call ran {ip.fn}@{ip.obj}")
                    continue
                if is_ is None:
                    s_part = f"single=closed/1 percall={_res_word(ip)} open=0 intx=0 s+0/0"
                    residue = 0
                else:
                    s_part = (f"single={_res_word(is_)}/{1 if is_.used_shared else 0} percall={_res_word(ip)} "
                              f"open={1 if is_.open_after else 0} intx={1 if is_.intx_after else 0} s+{is_.opened}/{is_.closed}")
                    residue = 1 if is_.residue else 0
                cr.impl.append(f"{s_part} p+{ip.opened}/{ip.closed} res={residue}")
            if len(ts) > len(tp):
                cr.lines.append(f"extra-sections|{op['op']}")
                cr.impl.append(f"single ran {len(ts) - len(tp)} more section(s) than per-call: {[i.fn for i in ts[len(tp):]]}")
            if tp:
                cr.nontrivial += 1
            if closed_now or shared_closed:
                break  # everything after this fails the same way

    run_virtual(main, max_time=1e9)
    # ---- final content
    d_s, d_p = dump_file(sides[0].path), dump_file(sides[1].path)
    same = d_s == d_p
    if not same and not any(v.signature.startswith("C21/closed_shared_connection") for v in cr.violations):
        tbl = next(t for t in d_s if d_s[t] != d_p.get(t))
        violate(f"C21/final_content_differs:{tbl}", f"after the history the table {tbl} differs between the modes: "
                f"single {str(d_s[tbl])[:200]} vs per-call {str(d_p[tbl])[:200]}")
    if orc.ok and not any(v.signature.startswith("C21/closed_shared_connection") for v in cr.violations):
        for mname, d in (("single_connection", d_s), ("per_call", d_p)):
            ids = sorted(r[0] for r in d.get("handlers", []) if isinstance(r, list))
            if ids != sorted(orc.rows):
                violate(f"C21/final_content_not_determined_by_history:handlers[{mname}]",
                        f"after the history the {mname} store holds handlers {ids[:12]} ({len(ids)}), the updates and deletes "
                        f"of the history leave {sorted(orc.rows)[:12]} ({len(orc.rows)})")
        out.count("oracle:final-handlers-checked")
    elif not orc.ok:
        out.count("oracle:not-determined")
    sh = sides[0].shared
    alive = sh is not None and not getattr(sh, "_c21_closed", False)
    pend = alive and dump_via(sh) != d_s
    cr.lines.append("final")
    cr.impl.append(f"same={1 if same else 0} pend={1 if pend else 0} open={1 if alive else 0}")
    for side in sides:
        try:
            if side.shared is not None:
                sqlite3.Connection.close(side.shared)
        except Exception:
            pass
    # what an operation answered first, what the connection was left with second (the first violation becomes the replay)
    cr.violations.sort(key=lambda v: 2 if v.signature.startswith("C21/connection_state_left_behind") else
                       0 if v.signature.startswith("C21/result_not_determined_by_call") else 1)
    return cr


def table_line(table: dict) -> str:
    """The table checks recomputed on the Python side (the Lean side evaluates `tableOk` etc. on the generated file)."""
    def life(sec: dict, key: str) -> dict:
        l = sec[key]
        if key == "shared" and sec["acquire"] == "own":
            l = {"present": False}
        if not l.get("present") and "delegated" not in l:
            return ({"closeOk": True, "closeErr": True, "commitOk": True, "commitErr": False, "pendingOnErr": False}
                    if key == "fresh" else
                    {"closeOk": False, "closeErr": False, "commitOk": True, "commitErr": False, "pendingOnErr": False})
        return l

    fl = table["flags"]
    names = {s["qual"] for s in table["secs"]}
    sec_ok = all(
        not life(s, "shared")["closeOk"] and not life(s, "shared")["closeErr"]
        and (not s["writes"] or life(s, "shared")["commitOk"]) and not life(s, "shared")["pendingOnErr"]
        and (not s["writes"] or life(s, "fresh")["commitOk"]) and not life(s, "fresh")["pendingOnErr"]
        and s["acquire"] != "unknown" for s in table["secs"])
    closed = all(n in names for o in table["ops"] + table["static_ops"] for n in o["secs"])
    ok = (fl["ctorOpensShared"] and fl["wsShared"] and fl["ssShared"] and fl["createPassesShared"] and table["unknowns"] == 0
          and sec_ok and closed and bool(table["ops"]))
    noleak = all(life(s, "fresh")["closeOk"] and life(s, "fresh")["closeErr"] for s in table["secs"])
    inst = {n for o in table["ops"] for n in o["secs"]}
    oneconn = all(s["qual"] not in inst or s["acquire"] == "provider" for s in table["secs"])
    return (f"ok={int(ok)} noleak={int(noleak)} oneconn={int(oneconn)} secs={len(table['secs'])} ops={len(table['ops'])} "
            f"unknowns={table['unknowns']} locks={int(bool(fl.get('lockPerStore')))} noscratch={int(not table.get('scratch'))}")


def strip_model(line: str) -> str:
    """Drop the two fields of a `sec` answer that cannot be observed per section on the real store."""
    if line.startswith("single="):
        parts = [p for p in line.split(" ") if not (p.startswith("pend=") or p.startswith("same="))]
        return " ".join(parts)
    return line


# --------------------------------------------------------------------------
# subscriber / appender scenario under virtual time (S only)


def concurrent_scenario(rng: Any, tmp: str, idx: int, out: Outcome) -> list[Violation]:
    from llama_agents.client.protocol.serializable_events import EventEnvelopeWithMetadata
    from llama_agents.server._store.sqlite.sqlite_workflow_store import SqliteWorkflowStore

    nev = rng.randint(1, 5)
    gaps = [rng.choice([0.0, 0.01, 0.3, 1.7]) for _ in range(nev + 1)]
    poll = rng.choice([0.05, 0.5, 2.0])
    with_state = rng.random() < 0.7
    payload = {"label": "concurrent", "concurrent": {"nev": nev, "gaps": gaps, "poll": poll, "with_state": with_state}}
    results: dict[str, str] = {}
    for mode in ("single", "percall"):
        path = os.path.join(tmp, f"k{idx}_{mode}.db")
        store = SqliteWorkflowStore(path, poll_interval=poll, single_connection=(mode == "single"))

        async def main(_loop: Any, store: Any = store) -> Any:
            got: dict[str, list] = {"a": [], "b": []}

            async def sub(key: str, run: str) -> None:
                async for e in store.subscribe_events(run):
                    got[key].append([e.sequence, e.event.type])

            async def app() -> None:
                ss = store.create_state_store("r0") if with_state else None
                for i in range(nev):
                    await asyncio.sleep(gaps[i])
                    await store.append_event("r0", EventEnvelopeWithMetadata(value={"i": i}, qualified_name=None, type="E", types=None))
                    if ss is not None:
                        await ss.set("n", i)
                    await store.append_event("r1", EventEnvelopeWithMetadata(value={"i": i}, qualified_name=None, type="E", types=None))
                await asyncio.sleep(gaps[nev])
                for r in ("r1", "r0"):
                    await store.append_event(r, EventEnvelopeWithMetadata(value={}, qualified_name=None, type="StopEvent", types=None))
                if ss is not None:
                    got["state"] = [await ss.get("n", None)]

            await asyncio.gather(sub("a", "r0"), sub("b", "r1"), app())
            return got

        try:
            results[mode] = canon(run_virtual(main, max_time=1e6))
        except Exception as e:
            results[mode] = f"raise {type(e).__name__}: {str(e)[:200]}"
        sh = getattr(store, "_persistent_conn", None)
        if sh is not None:
            try:
                sh.close()
            except Exception:
                pass
    out.evaluations += 1
    out.count("scenario:subscribe+append")
    if results["single"] != results["percall"]:
        closed = "closed database" in results["single"]
        sig = "C21/closed_shared_connection:concurrent" if closed else "C21/modes_disagree:subscribe_events+append_event"
        return [Violation(sig, f"subscriber/appender scenario: single-connection -> {results['single'][:200]!r}, per-call -> "
                          f"{results['percall'][:200]!r}", payload)]
    return []


# --------------------------------------------------------------------------
# schedules over several state stores (S + K); see harness/c21_sched.py

SCHED_CORPUS: list[dict] = [
    {"label": "edit_state of run r0 open while its body writes and reads run r1 (a step driving a child run)",
     "sched": {"stores": ["r0", "r1"], "setup": [["set", 0, "warm", 1], ["set", 1, "warm", 2]],
               "tasks": [[["edit", 0, [["mut", "phase", "editing"], ["set", 1, "child_result", 41], ["get", 1, "child_result"],
                                       ["mut", "seen_child", 41]]], ["getstate", 0], ["getstate", 1]]],
               "schedule": [],
               "expect": {"all_done": True,
                          "states": {"r0": {"warm": 1, "phase": "editing", "seen_child": 41}, "r1": {"warm": 2, "child_result": 41}}}}},
    {"label": "second store object of the same run written from inside the open block of the first: the block's copy wins",
     "sched": {"stores": ["r0", "r0"], "setup": [["set", 0, "warm", 1]],
               "tasks": [[["edit", 0, [["mut", "a", 1], ["set", 1, "b", 2], ["clear", 1], ["edit", 1, [["mut", "c", 3]]]]],
                          ["getstate", 1]]],
               "schedule": [],
               "expect": {"all_done": True, "states": {"r0": {"warm": 1, "a": 1}}}}},
    {"label": "run r0's block stays open until run r1 has written (order fixed by events), two rounds, third task on r2",
     "sched": {"stores": ["r0", "r1", "r2"], "setup": [],
               "tasks": [[["edit", 0, [["mut", "round", "open"], ["signal", "a0"], ["wait", "b0"], ["mut", "round", "after-b0"],
                                       ["signal", "a1"], ["wait", "b1"], ["mut", "round", "closed-after-b"]]], ["getstate", 0]],
                         [["wait", "a0"], ["set", 1, "w", "first"], ["signal", "b0"], ["wait", "a1"], ["setstate", 1, {"w2": 2}],
                          ["clear", 2], ["edit", 1, [["mut", "w3", 3]]], ["signal", "b1"], ["getstate", 1]],
                         [["set", 2, "z", 1], ["ws", {"op": "ws.append_tick", "run": "r2", "data": {"n": 1}}], ["getstate", 2]]],
               "schedule": [2, 0, 1, 1, 0, 2, 1, 0, 2, 1, 1, 0],
               "expect": {"all_done": True,
                          "states": {"r0": {"round": "closed-after-b"}, "r1": {"w2": 2, "w3": 3}}}}},
    {"label": "two levels: r0's block opens r1's block, which writes r2; a queued writer on r0 gets the lock at the hand-over",
     "sched": {"stores": ["r0", "r1", "r2"], "setup": [],
               "tasks": [[["edit", 0, [["mut", "k", 0], ["yield"], ["edit", 1, [["mut", "k", 1], ["set", 2, "k", 2], ["yield"]]],
                                       ["mut", "done", True]]]],
                         [["set", 0, "late", 1], ["getstate", 0]]],
               "schedule": [0, 1, 1, 0, 0, 1, 0, 1],
               "expect": {"all_done": True, "states": {"r0": {"k": 0, "done": True, "late": 1}, "r1": {"k": 1}, "r2": {"k": 2}}}}},
    {"label": "a block that re-enters its own store object waits for itself in BOTH modes (not a difference)",
     "sched": {"stores": ["r0", "r1"], "setup": [],
               "tasks": [[["edit", 0, [["mut", "a", 1], ["set", 0, "b", 2]]]], [["set", 1, "x", 1], ["getstate", 1]]],
               "schedule": [0, 1, 0, 1]}},
]


def sched_case(sc_case: dict, tmp: str, idx: int, out: Outcome, lines: list[str], impl: list[str]) -> list[Violation]:
    sc = sc_case["sched"]
    payload = {"label": sc_case.get("label", "generated schedule"), "sched": sc}
    obs = sched.run_scenario(sc, tmp, idx)
    res = []
    seen = set()
    for sig, what in sched.compare(sc, obs) + sched.check_expect(sc, obs):
        if sig not in seen:
            seen.add(sig)
            res.append(Violation(sig, what, payload))
    l, i = sched.lock_lines(sc, obs)
    lines += l
    impl += i
    rp = obs["runs"]["percall"]
    out.evaluations += 1
    out.count("schedule:" + sc.get("family", "corpus"))
    out.count("schedule-outcome:" + ("all-finish" if not rp.blocked else "blocks-in-both-modes" if obs["runs"]["single"].blocked
                                      else "blocks-per-call-only"))
    nested_other = 0
    held: dict[int, tuple[int, int]] = {}
    for e in rp.log:
        if e["k"] == "got":
            held[e["lock"]] = (e["task"], e["obj"])
        elif e["k"] == "rel":
            held.pop(e["lock"], None)
        elif e["k"] == "req" and any(t == e["task"] and o != e["obj"] for t, o in held.values()):
            nested_other += 1
    waits = sum(1 for e in rp.lock_events() if e["ans"] == "wait")
    out.count("schedule-lock-requests", sum(1 for e in rp.log if e["k"] == "req"))
    out.count("schedule-lock-waits", waits)
    if nested_other:
        out.count("schedule:lock-taken-inside-an-open-block-of-another-store")
    if len(rp.trace) > 1:
        out.nontrivial(json.dumps(sc, sort_keys=True, default=repr))
    return res


def run(env: Env) -> Outcome:
    import warnings

    warnings.filterwarnings("ignore", category=UserWarning, module="pydantic")
    out = Outcome()
    out.rule = ("histories of 13 workflow-store and 7 state-store operation kinds over 1-3 runs, 5 handler ids and any number "
                "of state stores (plain, typed, seeded from another run or from an in-memory snapshot), ~12% raising operations "
                "(NULL run id, unbindable parameter, unserialisable value, empty/over-long/missing path, type mismatch, failing "
                "edit body, missing store); each operation runs on a single-connection and a per-call store; non-trivial = the "
                "operation executed at least one section; distinct by history. Plus schedules: 1-4 real tasks over 2-4 "
                "state-store objects of one workflow store (1-3 runs, so also several objects of one run) and workflow-store "
                "operations, edit_state bodies that work on other stores up to two levels deep / wait for events set by other "
                "tasks after their writes / yield / fail, random schedules run to quiescence under the scripted scheduler, the "
                "same schedule in both connection modes; non-trivial = more than one scheduling decision. Plus long-list "
                "sweep histories: 6-24 handlers with unique run ids, then 8-18 steps of queries / deletes whose filter lists "
                "carry 120-4000 values (1-2 swept columns per history, all four columns overall, overlapping and disjoint "
                "padding, reversed / duplicated lists, second filter, is_idle), short-list calls, updates, "
                "update_handler_status, state-store use")
    notes: list[str] = []
    table = gen.extract(notes)
    out.notes += notes
    # the generated table must cover exactly the public methods the stream knows how to drive
    have = {"ws": {o["name"] for o in table["ops"] if o["tag"] == "ws"}, "ss": {o["name"] for o in table["ops"] if o["tag"] == "ss"}}
    for tag in ("ws", "ss"):
        for extra in sorted(have[tag] - KNOWN_OPS[tag]):
            out.divergences.append(Divergence("sqliteconn", 0, f"{tag}.{extra}", "public method in the generated table",
                                              "not driven by the operation stream of this check"))
        for missing in sorted(KNOWN_OPS[tag] - have[tag]):
            out.divergences.append(Divergence("sqliteconn", 0, f"{tag}.{missing}", "missing from the generated table",
                                              "driven by the operation stream"))
    cases: list[dict] = []
    if env.replay is not None:
        rc = env.replay["payload"]["case"]
        if isinstance(rc, dict) and "ops" in rc and "concurrent" not in rc:
            cases.append(rc)
    sched_cases: list[dict] = []
    if env.replay is not None:
        rc = env.replay["payload"]["case"]
        if isinstance(rc, dict) and "sched" in rc:
            sched_cases.append(rc)
    sched_cases += SCHED_CORPUS
    cases += CORPUS
    cdir = os.path.join(VERIF, "harness", "corpus")
    for fn in sorted(os.listdir(cdir)) if os.path.isdir(cdir) else []:
        if fn.startswith("c21_") and fn.endswith(".json"):
            try:
                cc = json.load(open(os.path.join(cdir, fn)))["case"]
                (sched_cases if "sched" in cc else cases).append(cc)
            except (OSError, ValueError, KeyError) as e:
                out.notes.append(f"corpus file {fn} unreadable: {e!r}")
    ncases = env.budget(14, 300)
    length = 60 if env.tier == "quick" else 110
    for _ in range(ncases):
        g = OpGen(env.rng)
        cases.append({"label": "generated", "ops": [g.next() for _ in range(env.rng.randint(length // 2, length))]})
    # database files on tmpfs when there is one: every commit fsyncs
    tmp = tempfile.mkdtemp(prefix="c21_", dir="/dev/shm" if os.path.isdir("/dev/shm") and os.access("/dev/shm", os.W_OK) else None)
    lines: list[str] = ["table"]
    impl: list[str] = [table_line(table)]
    try:
        with Patches(table):
            for idx, case in enumerate(cases):
                cr = run_case(case, table, out, tmp, idx)
                lines += cr.lines
                impl += cr.impl
                out.violations += cr.violations
                if cr.nontrivial:
                    out.nontrivial(json.dumps(case["ops"], sort_keys=True, default=repr))
                out.count("cases")
                if idx < 3:
                    out.sample({"label": case.get("label"), "ops": len(case["ops"]), "first": case["ops"][:3]})
                for f in os.listdir(tmp):
                    try:
                        os.unlink(os.path.join(tmp, f))
                    except OSError:
                        pass
            nscen = env.budget(6, 60)
            scen_rc = env.replay["payload"]["case"] if env.replay is not None else None
            for j in range(nscen):
                out.violations += concurrent_scenario(env.rng, tmp, j, out)
            if scen_rc is not None and isinstance(scen_rc, dict) and "concurrent" in scen_rc:
                out.notes.append("replay of a concurrent scenario: re-drawn from the seed (parameters in the replay file)")
            # schedules over several state stores: corpus first, then generated (drawn after everything else, so the
            # histories above are the same as before for a given seed)
            for _ in range(env.budget(90, 1500)):
                sched_cases.append({"label": "generated schedule", "sched": sched.gen_scenario(env.rng)})
            # histories with repeated long filter lists (drawn last: the streams above are unchanged for a given seed)
            ll_cases = [gen_longlist_case(env.rng) for _ in range(env.budget(6, 80))]
            for j, sc_case in enumerate(sched_cases):
                out.violations += sched_case(sc_case, tmp, j, out, lines, impl)
            for j, case in enumerate(ll_cases):
                cr = run_case(case, table, out, tmp, len(cases) + j)
                lines += cr.lines
                impl += cr.impl
                out.violations += cr.violations
                if cr.nontrivial:
                    out.nontrivial(json.dumps(case["ops"], sort_keys=True, default=repr))
                out.count("cases:long-list-sweeps")
                for f in os.listdir(tmp):
                    try:
                        os.unlink(os.path.join(tmp, f))
                    except OSError:
                        pass
    finally:
        shutil.rmtree(tmp, ignore_errors=True)
    # malformed lines
    bad = ["sec|x|ws.query|1|0|0", "sec|-|ws.query|2|0|0", "new|", "nonsense", "sec|-|ws.query|1|0", "lk|x|0|acq", "lk|0|0|take",
           "lk|0|0"]
    lines += bad
    impl += ["bad-op"] * len(bad)
    try:
        model_out = [strip_model(l) for l in Driver("sqliteconn").run(lines)]
    except Exception as e:
        out.divergences.append(Divergence("sqliteconn", 0, "<driver>", repr(e), ""))
        return out
    # harness-made lines (unlisted-op, unlisted-section, extra-sections) are answered `bad-op` by the driver: a divergence
    out.traces_validated = sum(1 for l in lines if l.startswith("sec|") or l.startswith("new|") or l.startswith("lk|") or l == "final")
    out.disagreements_checked = len(lines)
    # `final`: the model's content is a version counter, so it can only promise agreement, not predict a difference
    # (a lingering uncommitted change may be overwritten later, a DELETE may match nothing): one-directional fields
    for i, (l, m) in enumerate(zip(lines, model_out)):
        if l == "final" and i < len(impl):
            mf = dict(x.split("=") for x in m.split(" ") if "=" in x)
            f = dict(x.split("=") for x in impl[i].split(" ") if "=" in x)
            if mf.get("same") == "0":
                f["same"] = "0"
            if mf.get("pend") == "1":
                f["pend"] = "1"
            impl[i] = f"same={f.get('same')} pend={f.get('pend')} open={f.get('open')}"
        # `res`: a section flagged as using connection-scoped objects need not leave any on a given call (short list):
        # the model can only promise `res=0`
        if l.startswith("sec|") and i < len(impl) and m.endswith(" res=1") and impl[i].endswith(" res=0"):
            impl[i] = impl[i][:-1] + "1"
    d = diff_streams("sqliteconn", lines, model_out, impl)
    if d is not None:
        out.divergences.append(d)
    return out
