"""C09 with any number of invocations in flight (extension of the C09 check).

`conc_corr`: one collecting step with `num_workers` 1..4 driven through the REAL reducer (`_reduce_tick`) and the REAL
`InternalContext.collect_events` under a generated schedule: at every point either the next event arrives
(`TickAddEvent`: admitted with a copy of the live buffers, or queued) or one of the invocations in flight finishes
(its `collect_events` call is evaluated against ITS snapshot, the step returns, `TickStepResult`); a schedule may stop
with invocations still in flight.

* (K) the schedule as model actions — `S ev` when the reducer admits an invocation (directly or when the queue drains),
  `F ev` when one finishes — against `wfdriver engine` op `C09CH` (`WfModel/CollectConc.lean`, the histories the
  every-schedule theorems `C09_conc_*` are about): live buffer, invocations in flight WITH their snapshots, returned
  lists with the event they were returned to, surplus events.
* (S) on the real observations alone, after every action: the live buffer holds no event twice; an event whose
  invocation is in flight is in no buffer, snapshot or returned list; every returned list is ordered as expected,
  contains the event it was returned to, consists of arrived events, and the event it was returned to is in no other
  list (`C09_conc_lists_ordered_received`, `C09_conc_trigger_in_one_list`, `C09_conc_no_double_buffering`).
  Buffered events handed out twice / lost under a stale snapshot are the open findings of C09; they are counted
  (`ch:double_count`, `ch:lost`, `ch:buffer_overfull`) and not reported from this stream.
"""
from __future__ import annotations

import random
from collections import Counter
from typing import Any

from ..runner import Divergence, Driver, Env, Outcome, Violation, diff_streams
from . import enc
from . import evtypes as ET

PLAIN = [5, 6, 7, 8]

# Lean witness `C09.concWitness` (+ the continuation of `C09_refuted_conc_none_lost`): expected [A,A,B,B], two workers.
# schedule entries: "a" = next arrival, ("f", uid) = the invocation of that event finishes
WITNESS = {
    "expected": [5, 5, 6, 6], "nw": 2,
    "arrivals": [(5, 1), (6, 1), (6, 2), (5, 2), (6, 5), (6, 3), (6, 4), (5, 13), (5, 14)],
    "schedule": ["a", ["f", 1], "a", ["f", 101], "a", "a", ["f", 2], "a", ["f", 105], "a", ["f", 103], "a", ["f", 104],
                 ["f", 102], "a", ["f", 13], "a", ["f", 14]],
}
# arrivals are (type, uid); B events carry uid 100+n so that uids stay distinct across types
WITNESS["arrivals"] = [(t, u if t == 5 else 100 + u) for t, u in WITNESS["arrivals"]]

CORPUS = [
    WITNESS,
    # two completions against the same snapshot (F08), three workers
    {"expected": [5, 6], "nw": 3, "arrivals": [(5, 1), (6, 2), (6, 3)], "schedule": ["a", ["f", 1], "a", "a", ["f", 2], ["f", 3]]},
    # a re-run that completes; a queued event admitted when the slot frees
    {"expected": [5, 6], "nw": 2, "arrivals": [(5, 1), (6, 2), (5, 3)], "schedule": ["a", "a", "a", ["f", 1], ["f", 2], ["f", 2], ["f", 3]]},
    # stop with two invocations in flight, one of them re-run
    {"expected": [5, 6, 7], "nw": 3, "arrivals": [(5, 1), (6, 2), (7, 3)], "schedule": ["a", "a", "a", ["f", 1], ["f", 2]]},
    # empty expected list: `[]` at once, nothing buffered
    {"expected": [], "nw": 2, "arrivals": [(5, 1), (5, 2)], "schedule": ["a", "a", ["f", 2], ["f", 1]]},
]


def gen_case(rng: random.Random) -> dict[str, Any]:
    k = rng.choice([1, 2, 2, 3, 3, 4, 4])
    expected = [rng.choice(PLAIN[: rng.choice([1, 2, 2, 3])]) for _ in range(k)]
    if rng.random() < 0.03:
        expected = []
    acc = sorted(set(expected + ([rng.choice(PLAIN)] if rng.random() < 0.25 or not expected else [])))
    nw = rng.choice([1, 2, 2, 3, 3, 4])
    m = rng.randint(1, 14)
    arrivals = [(rng.choice(acc), 1 + i) for i in range(m)]
    # the schedule is drawn while running (it depends on who is in flight): a seed and a bias towards arrivals
    return {"expected": expected, "nw": nw, "arrivals": arrivals, "sched_seed": rng.randrange(1 << 30),
            "bias": rng.choice([0.3, 0.5, 0.5, 0.7]), "stop_early": rng.random() < 0.3}


def run_case(out: Outcome, case: dict[str, Any]) -> tuple[str, str]:
    """runs one schedule on the real reducer + collect_events; returns (driver op, expected driver answer)"""
    from workflows.context.internal_context import InternalContext
    from workflows.decorators import StepConfig
    from workflows.runtime import control_loop as CL
    from workflows.runtime.types import results as R
    from workflows.runtime.types import ticks as T
    from workflows.runtime.types.internal_state import BrokerConfig, BrokerState, InternalStepConfig, InternalStepWorkerState

    expected: list[int] = list(case["expected"])
    nw: int = case["nw"]
    arrivals = [ET.mk(t, u, None) for t, u in case["arrivals"]]
    acc = sorted({t for t, _ in case["arrivals"]} | set(expected))
    _IC = object.__new__(InternalContext)
    icfg = InternalStepConfig(accepted_events=[ET.TYPES[t] for t in acc], retry_policy=None, num_workers=nw)
    sc = StepConfig(accepted_events=[ET.TYPES[t] for t in acc], event_name="ev", return_types=[], context_parameter=None,
                    num_workers=nw, retry_policy=None, resources=[])
    st = BrokerState(is_running=True, config=BrokerConfig(steps={"s01": icfg}, timeout=None, catch_error_handlers={}, handler_for_step={}),
                     workers={"s01": InternalStepWorkerState(queue=[], config=sc, in_progress=[], collected_events={}, collected_waiters=[])})
    fixed = case.get("schedule")
    srng = random.Random(case.get("sched_seed", 0))
    bias = case.get("bias", 0.5)
    acts: list[str] = []
    taken: list[Any] = []  # the schedule as taken (replayable)
    returned: list[tuple[Any, list]] = []
    dropped: list = []
    arrived: list = []
    known: set[tuple[int, int]] = set()
    nxt = 0
    reruns = 0
    max_flight = 0
    overfull = False
    rcase = {"conc": {k: case[k] for k in ("expected", "nw", "arrivals")}}

    def viol(rule: str, what: str) -> None:
        rc = {"conc": dict(rcase["conc"], schedule=list(taken))}
        out.violations.append(Violation("C09/" + rule, f"expected {expected}, {nw} workers, arrivals {case['arrivals']}, schedule {taken}: {what}", rc))

    def admit_new() -> None:
        nonlocal known
        cur = st.workers["s01"].in_progress
        for ip in cur:
            key = (ip.worker_id, ip.event.uid)
            if key not in known:
                acts.append("S " + enc.ev(ip.event))
        known = {(ip.worker_id, ip.event.uid) for ip in cur}

    def live_buf() -> list:
        return st.workers["s01"].collected_events.get("default", [])

    def check_state() -> None:
        nonlocal overfull
        live = live_buf()
        uids = [e.uid for e in live]
        if len(set(uids)) != len(uids):
            viol("conc_event_buffered_twice", f"live buffer {uids}")
        have, need = Counter(ET.TY_ID[type(e)] for e in live), Counter(expected)
        if any(have[t] > need[t] for t in have):
            overfull = True
        inflight = st.workers["s01"].in_progress
        fl = [ip.event.uid for ip in inflight]
        if len(set(fl)) != len(fl):
            viol("conc_two_invocations_same_event", f"in flight {fl}")
        counted = set(uids) | {e.uid for ip in inflight for e in ip.shared_state.collected_events.get("default", [])} \
            | {e.uid for _, l in returned for e in l} | {e.uid for e in dropped}
        for u in fl:
            if u in counted:
                viol("conc_in_flight_event_already_counted", f"the invocation of event {u} is in flight, and the event is already in the buffer, a snapshot, a returned list or surplus")
        trig = [t.uid for t, _ in returned]
        for i, (t, l) in enumerate(returned):
            if t.uid in uids or any(t.uid in [e.uid for e in ip.shared_state.collected_events.get("default", [])] for ip in inflight):
                viol("conc_completing_event_buffered", f"event {t.uid} completed list #{i} and is in the live buffer or a snapshot")
        if len(set(trig)) != len(trig):
            viol("conc_two_lists_returned_to_one_event", f"{trig}")

    steps = 0
    limit = case.get("limit")
    while True:
        flights = st.workers["s01"].in_progress
        if fixed is not None:
            if steps >= len(fixed):
                break
            choice = fixed[steps]
        else:
            can_a, can_f = nxt < len(arrivals), bool(flights)
            if not can_a and not can_f:
                break
            if case.get("stop_early") and steps >= 2 and srng.random() < 0.06:
                break
            if can_a and (not can_f or srng.random() < bias):
                choice = "a"
            else:
                choice = ["f", srng.choice(flights).event.uid]
        steps += 1
        taken.append(choice)
        if choice == "a":
            if nxt >= len(arrivals):
                continue
            ev = arrivals[nxt]
            nxt += 1
            arrived.append(ev)
            st, _cmds = CL._reduce_tick(T.TickAddEvent(event=ev), st, 1000.0, run_id="r")
            admit_new()
        else:
            uid = choice[1]
            ip = next((x for x in flights if x.event.uid == uid), None)
            if ip is None:
                acts.append("F " + enc.ev(ET.mk(5, uid, None)))  # nothing in flight for it: no-op on both sides
                continue
            ev = ip.event
            returns = R.Returns(return_values=[])
            tok = R.StepWorkerStateContextVar.set(R.StepWorkerContext(state=ip.shared_state, returns=returns))
            try:
                got = InternalContext.collect_events(_IC, ev, [ET.TYPES[t] for t in expected])  # type: ignore[arg-type]
            finally:
                R.StepWorkerStateContextVar.reset(tok)
            returns.return_values.append(R.StepWorkerResult(result=None))
            snap_uids = [e.uid for e in ip.shared_state.collected_events.get("default", [])]
            st, cmds = CL._reduce_tick(T.TickStepResult(step_name="s01", worker_id=ip.worker_id, event=ev, result=returns.return_values), st, 1000.0, run_id="r")
            still = any(x.worker_id == ip.worker_id and x.event.uid == ev.uid for x in st.workers["s01"].in_progress)
            acts.append("F " + enc.ev(ev))
            if still:
                reruns += 1
            elif got is not None and expected:
                returned.append((ev, got))
                # the per-list clauses, on the implementation's answer
                tys = [ET.TY_ID[type(e)] for e in got]
                if tys != expected:
                    viol("conc_list_not_ordered_as_expected", f"returned types {tys}")
                if ev.uid not in [e.uid for e in got]:
                    viol("conc_completing_event_not_in_its_list", f"list {[e.uid for e in got]} returned to the invocation of event {ev.uid}")
                if not set(e.uid for e in got) <= set(snap_uids) | {ev.uid}:
                    viol("conc_list_has_event_outside_snapshot", f"list {[e.uid for e in got]}, snapshot {snap_uids}, event {ev.uid}")
                if not set(e.uid for e in got) <= {e.uid for e in arrived}:
                    viol("conc_list_has_event_never_received", f"list {[e.uid for e in got]}")
                for t2, l2 in returned[:-1]:
                    if ev.uid in [e.uid for e in l2]:
                        viol("conc_completing_event_in_two_lists", f"event {ev.uid} completed a list and is also in the list returned to {t2.uid}")
                    if t2.uid in [e.uid for e in got]:
                        viol("conc_completing_event_in_two_lists", f"event {t2.uid} completed a list and is also in the list returned to {ev.uid}")
            elif got is None and not any(isinstance(r, R.AddCollectedEvent) for r in returns.return_values):
                dropped.append(ev)
            admit_new()
        max_flight = max(max_flight, len(st.workers["s01"].in_progress))
        check_state()
    flights = st.workers["s01"].in_progress
    res = "B %s F %s R %s D %s" % (
        enc.lst([enc.ev(e) for e in live_buf()]),
        enc.lst([enc.ev(ip.event) + " " + enc.lst([enc.ev(e) for e in ip.shared_state.collected_events.get("default", [])]) for ip in flights]),
        enc.lst([enc.ev(t) + " " + enc.lst([enc.ev(e) for e in l]) for t, l in returned]),
        enc.lst([enc.ev(e) for e in dropped]))
    op = "C09CH %s %s" % (enc.lst([str(t) for t in expected]), enc.lst(acts))
    # distribution + the open-finding symptoms, counted only
    out.count(f"ch:workers:{nw}")
    out.count(f"ch:lists:{min(len(returned), 4)}")
    out.count(f"ch:max_in_flight:{max_flight}")
    out.count(f"ch:reruns:{min(reruns, 3)}")
    out.count("ch:ends_with_in_flight" if flights else "ch:ends_quiet")
    allr = [e.uid for _, l in returned for e in l]
    if len(set(allr)) != len(allr):
        out.count("ch:double_count")
    if overfull:
        out.count("ch:buffer_overfull")
    if expected:
        placed = set(allr) | {e.uid for e in live_buf()} | {e.uid for e in dropped} | {ip.event.uid for ip in flights} \
            | {a.event.uid for a in st.workers["s01"].queue}
        if any(e.uid not in placed for e in arrived):
            out.count("ch:lost")
    if returned and max_flight >= 2:
        out.nontrivial(op)
    return op, res


def conc_corr(env: Env, out: Outcome, n: int, replay_case: dict[str, Any] | None = None) -> None:
    rng = random.Random(env.rng.randrange(1 << 30))
    ops: list[str] = []
    exp: list[str] = []
    cases = ([replay_case] if replay_case is not None else []) + CORPUS + [gen_case(rng) for _ in range(n)]
    for c in cases:
        try:
            op, res = run_case(out, c)
        except Exception as ex:  # noqa: BLE001 - the reducer or collect_events raised: no model answer matches
            op, res = "C09CH 0 0", f"raised {type(ex).__name__}: {ex}"
            out.violations.append(Violation("C09/conc_schedule_raised", f"{c}: {type(ex).__name__}: {ex}", {"conc": c}))
        ops.append(op)
        exp.append(res)
        out.evaluations += 1
    out.sample(ops[0])
    try:
        mo = Driver("engine").run(ops)
    except Exception as ex:  # noqa: BLE001
        out.divergences.append(Divergence("engine-collect-concurrent", 0, "<driver>", repr(ex), ""))
        return
    out.traces_validated += len(ops)
    out.disagreements_checked += len(ops)
    d = diff_streams("engine-collect-concurrent", ops, mo, exp)
    if d is not None:
        out.divergences.append(d)
    # the Lean witness, replayed on the implementation: `B2` (uid 102) is gone after `[A13,A14,B103,B104]` was returned
    w_exp = exp[(1 if replay_case is not None else 0)]
    if " E 6 p 102 " in w_exp + " ":
        out.divergences.append(Divergence("engine-collect-concurrent-witness", 0, ops[0], "the event B2 of C09.concWitness is lost (Lean: C09_refuted_conc_none_lost)", w_exp))
    else:
        out.count("ch:witness_event_lost_as_in_lean")
