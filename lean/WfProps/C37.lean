import WfProofs.CliConfig
/-!
# C37 — llamactl never activates a profile the user did not pick in that environment

Property theorems only (helper lemmas: `WfProofs/CliConfig.lean`, model M16:
`WfModel/CliConfig.lean`).  Quantification: every finite sequence of the twelve service
operations (`CliConfig.Op`: add / upsert / switch / delete environment, create from token,
create-or-update from OIDC, select, select-any, delete, set-project, update, destroy) with
arbitrary string arguments, starting from a freshly migrated database — in particular
same-named profiles in different environments, deleting the current environment or
profile, and unknown names (error branches leave the state unchanged).
-/
open CliConfig

/-- The sources still have the shape the model and the invariant rest on: all three
environment changes clear `current_profile` (the `delete_environment` one is the repair of
finding F26), the migration seeds the default environment as current, `profiles` is keyed by
`(name, api_url)`, a keyless token profile is called `"default"` and is selected on creation,
and a deleted current environment is replaced by the default one.  Regenerated from `/repo`
on every run. -/
theorem C37_source_shape :
    Good srcCfg ∧
    Gen.CliConfig.switchClearsProfile = true ∧ Gen.CliConfig.addClearsProfile = true ∧
    Gen.CliConfig.deleteClearsProfile = true ∧ Gen.CliConfig.deleteResetsToDefault = true ∧
    Gen.CliConfig.seedCurrentEnv = Gen.CliConfig.defaultUrl ∧
    Gen.CliConfig.seedEnvUrl = Gen.CliConfig.defaultUrl ∧
    Gen.CliConfig.profilesPrimaryKey = "name,api_url" ∧
    Gen.CliConfig.keylessProfileName = "default" ∧ Gen.CliConfig.createTokenSelects = true := by
  decide

/-- **C37 (strong form).** After any sequence of configuration operations the current environment is
a known environment or the built-in default, and the active profile
(`current_auth_service().get_current_profile()`) is none or a stored profile of the current
environment whose name is the *latest* select/create event of the history, and that event happened
while this environment was current.  The property's wording ("a profile of the current environment
that was selected or created while that environment was current") follows:
`C37_active_was_picked_here`. -/
theorem C37_invariant (ops : List Op) : Holds srcCfg (run srcCfg (init srcCfg) ops) := by
  have hinv := inv_run C37_source_shape.1 ops _ (inv_init C37_source_shape.1)
  refine ⟨hinv.envKnown, ?_⟩
  intro p hp
  unfold active at hp
  split at hp
  · simp at hp
  · rename_i n hn
    split at hp
    · simp at hp
    · obtain ⟨hmem, hname, henv⟩ := getProfile_some hp
      exact ⟨hmem, henv, by rw [hname]; exact hinv.picked n hn⟩

/-- non-vacuity: a history after which a profile *is* active — two environments, same-named
profiles in both, the second one selected again after a round trip. -/
example :
    (active (run srcCfg (init srcCfg)
      [.createToken "p1" none, .envAdd "http://b" false none, .createToken "p2" none,
       .envSwitch Gen.CliConfig.defaultUrl, .envSwitch "http://b", .select "default"])).map (·.pid) = some 1 := by
  decide

/-- The ghost field means what its name says: after any history it equals the latest pick
event of that history, computed from the events alone — the name an operation selected or
created (`picks`) paired with the environment that was current when that operation started. -/
theorem C37_pick_is_last_pick_event (c : Cfg) (ops : List Op) (s : State) :
    (run c s ops).pick = lastPickFrom c s s.pick ops := by
  induction ops generalizing s with
  | nil => rfl
  | cons op ops ih =>
    simp only [run, lastPickFrom]
    rw [ih]
    congr 1
    exact pick_step c s op

example : lastPickFrom srcCfg (init srcCfg) none
    [.createToken "p1" none, .envAdd "http://b" false none, .select "x", .envSwitch "http://nowhere"]
    = some ("x", "http://b") := by decide

/-- **C37, in the words of the property.**  If a profile is active after a history, it is a stored
profile of the current environment, and the history contains an operation that selected or created
exactly that name while the now-current environment was current — and (by `C37_invariant`) that
operation is the *latest* select/create event of the whole history, so the selection cannot stem
from another environment. -/
theorem C37_active_was_picked_here (ops : List Op) (p : Profile)
    (h : active (run srcCfg (init srcCfg) ops) = some p) :
    p ∈ (run srcCfg (init srcCfg) ops).profiles ∧ p.env = (run srcCfg (init srcCfg) ops).curEnv ∧
    ∃ pre op post, ops = pre ++ op :: post ∧
      picks srcCfg (run srcCfg (init srcCfg) pre) op = some p.name ∧
      (run srcCfg (init srcCfg) pre).curEnv = (run srcCfg (init srcCfg) ops).curEnv := by
  obtain ⟨hmem, henv, hpick⟩ := (C37_invariant ops).2 p h
  refine ⟨hmem, henv, ?_⟩
  rw [C37_pick_is_last_pick_event] at hpick
  rcases lastPickFrom_event srcCfg ops _ _ _ _ hpick with h0 | hex
  · simp [init] at h0
  · exact hex

example : picks srcCfg (run srcCfg (init srcCfg) [.createToken "p1" none, .envAdd "http://b" false none])
    (.createToken "p2" (some "sk-aaaaaa1111zzzz")) = some "sk-aaa****zzzz" := by decide

/-- Profiles stay keyed by `(name, environment)`: "the" profile of a name in an environment is unique. -/
theorem C37_unique_keys (ops : List Op) :
    ((run srcCfg (init srcCfg) ops).profiles.map (fun p => (p.name, p.env))).Nodup := by
  have hinv := inv_run C37_source_shape.1 ops _ (inv_init C37_source_shape.1)
  have := hinv.keys
  unfold KeysUnique at this
  rw [List.Nodup, List.pairwise_map]
  apply List.Pairwise.imp _ this
  intro a b hab heq
  simp only [Prod.mk.injEq] at heq
  exact hab heq

example : ((run srcCfg (init srcCfg)
    [.createToken "p1" none, .envAdd "http://b" false none, .createToken "p2" none,
     .createToken "p3" none]).profiles.map (fun p => (p.name, p.env))).length = 2 := by decide

/-- Mechanism, for every state (reachable or not): a successful `switch_environment` leaves no active profile. -/
theorem C37_switch_clears (s : State) (url : String)
    (h : (step srcCfg s (.envSwitch url)).2 = .ok) : active (step srcCfg s (.envSwitch url)).1 = none := by
  have hsw : srcCfg.switchClears = true := C37_source_shape.1.1
  simp only [step] at h ⊢
  split at h
  · simp at h
  · rename_i r hr
    simp only [hsw, if_true, active]

example : (step srcCfg (run srcCfg (init srcCfg) [.envUpsert "http://b" false none, .createToken "p" none])
    (.envSwitch "http://b")).2 = .ok := by decide

/-- `auth env add` (create-or-update + switch) leaves no active profile. -/
theorem C37_add_clears (s : State) (url : String) (ra : Bool) (mv : Option String) :
    active (step srcCfg s (.envAdd url ra mv)).1 = none := by
  have had : srcCfg.addClears = true := C37_source_shape.1.2.1
  simp only [step, had, if_true, active]

/-- The repaired branch (F26): deleting the current environment makes the default environment
current and leaves no active profile, whatever profiles the default environment holds. -/
theorem C37_delete_current_clears (s : State) (h : (getEnv s s.curEnv).isSome) :
    (step srcCfg s (.envDelete s.curEnv)).1.curEnv = Gen.CliConfig.defaultUrl ∧
    active (step srcCfg s (.envDelete s.curEnv)).1 = none := by
  have hdel : srcCfg.deleteClears = true := C37_source_shape.1.2.2.1
  simp only [step]
  split
  · rename_i hnone; simp [hnone] at h
  · simp only [if_true, hdel, active, and_true]; rfl

example : (getEnv (run srcCfg (init srcCfg) [.createToken "p" none, .envAdd "http://b" false none,
    .createToken "q" none]) "http://b").isSome := by decide

/-- Each of the three clearings is needed: with any one of them switched off (the
`delete` one being the code before the repair of F26) some history activates a profile that
was not picked in the current environment. -/
theorem C37_each_clear_needed :
    (¬ ∀ ops, Holds { srcCfg with deleteClears := false } (run { srcCfg with deleteClears := false } (init srcCfg) ops)) ∧
    (¬ ∀ ops, Holds { srcCfg with switchClears := false } (run { srcCfg with switchClears := false } (init srcCfg) ops)) ∧
    (¬ ∀ ops, Holds { srcCfg with addClears := false } (run { srcCfg with addClears := false } (init srcCfg) ops)) := by
  refine ⟨fun h => ?_, fun h => ?_, fun h => ?_⟩
  · -- F26: default/`default`, add b, create `default` there, delete b
    have := (h [.createToken "p" none, .envAdd "http://b" false none, .createToken "q" none,
                .envDelete "http://b"]).2 ⟨0, "default", Gen.CliConfig.defaultUrl, "p", none, none, none⟩ (by decide)
    exact absurd this.2.2 (by decide)
  · have := (h [.envUpsert "http://b" false none, .createToken "p" none, .envSwitch "http://b",
                .createToken "q" none, .envSwitch Gen.CliConfig.defaultUrl]).2
                ⟨0, "default", Gen.CliConfig.defaultUrl, "p", none, none, none⟩ (by decide)
    exact absurd this.2.2 (by decide)
  · have := (h [.createToken "p" none, .envAdd "http://b" false none, .createToken "q" none,
                .envAdd Gen.CliConfig.defaultUrl true none]).2
                ⟨0, "default", Gen.CliConfig.defaultUrl, "p", none, none, none⟩ (by decide)
    exact absurd this.2.2 (by decide)
