import WfModel.Runner
/-!
A worker task that ends *cancelled* while the run goes on (`completed_task.result()` raises
`asyncio.CancelledError` in `_ControlLoopRunner.run`: the step body raised it itself, e.g. it awaited
an inner task that was cancelled).  The code as it is: the task leaves the runner's task set
(`worker_tasks.discard`, `_task_keys.pop`), `except asyncio.CancelledError: pass` -- no tick is
buffered, `self.state` is not touched, nothing is recorded.  Not an action of `Runner.step` (the
in-progress entry of that worker stays in the state for the rest of the run); kept as a separate
transition so that the correspondence can follow runs in which it happens.
-/
namespace Engine

def Runner.workerGone (r : Runner) (s w : Nat) : Runner :=
  { r with running := r.running.filter (fun x => !(x.step == s && x.wid == w)) }

end Engine
