import WfProofs.StateStoreSeq
/-! Lemmas for C20: with every writer under the store lock — taken and given back only through
`async with` — the order in which operations complete is a serialisation order, whatever the
scheduler does, cancellations included.  Generic in the backend. -/
namespace StateStore

variable {σ : Type}

/-- sequential effect on the store of one task's operation -/
def seqOp (B : Backend σ) (st : σ) (op : COp) : σ := (B.step st op.toOp).1

/-- running the chunks of an `edit_state` body one after the other, from `begin`, is the
sequential `edit` operation on the concatenated body -/
def EditLaw (B : Backend σ) : Prop :=
  ∀ (st : σ) (cs : List (List Mut)),
    runBody B (B.begin st).1 (B.begin st).2 (chunksOf (.edit cs)).1 (chunksOf (.edit cs)).2
      = (B.step st (.edit cs.flatten)).1

/-- what the body did to the store is determined by the object's latest value -/
def PublishLaw (B : Backend σ) : Prop :=
  ∀ (st : σ) (a b : Root), B.publish (B.publish st a) b = B.publish st b

/-- a block that is left without saving after the mutations `ran` (none of which raised) leaves
the store as the sequential `edit` of the part of `ran` the backend keeps -/
def AbortLaw (B : Backend σ) : Prop :=
  ∀ (st : σ) (ran : List Mut) (w : Root), runMuts (B.begin st).2 ran = (w, none) →
    B.publish (B.begin st).1 w = (B.step st (.edit (B.kept ran))).1

theorem serial_eq_serialBy (B : Backend σ) (prog : List COp) (st : σ) (order : List Nat) :
    serial B prog st order = serialBy B (fun t => prog[t]?) st order := rfl

theorem serialBy_append (B : Backend σ) (f : Nat → Option COp) (st : σ) (log : List Nat) (t : Nat) (op : COp)
    (h : f t = some op) : serialBy B f st (log ++ [t]) = seqOp B (serialBy B f st log) op := by
  simp [serialBy, List.foldl_append, h, seqOp]

theorem serialBy_congr (B : Backend σ) (f g : Nat → Option COp) (order : List Nat) :
    ∀ st : σ, (∀ t, t ∈ order → f t = g t) → serialBy B f st order = serialBy B g st order := by
  induction order with
  | nil => intro st _; rfl
  | cons t ts ih =>
    intro st h
    simp only [serialBy, List.foldl_cons]
    rw [h t (by simp)]
    exact ih _ (fun t' ht' => h t' (by simp [ht']))

theorem serial_append (B : Backend σ) (prog : List COp) (st : σ) (log : List Nat) (t : Nat) (op : COp)
    (h : prog[t]? = some op) : serial B prog st (log ++ [t]) = seqOp B (serial B prog st log) op := by
  simp [serial, List.foldl_append, h, seqOp]

/-! ### the two backends satisfy the laws -/

theorem mem_runBody (rest : List (List Mut)) : ∀ (m : Mem) (w : Root) (c : List Mut),
    runBody memBackend m w c rest = { m with root := (runMuts w (c ++ rest.flatten)).1 } := by
  induction rest with
  | nil =>
    intro m w c
    simp only [runBody, List.flatten_nil, List.append_nil]
    cases h : runMuts w c with
    | mk w' e => cases e <;> simp [memBackend]
  | cons c' rest ih =>
    intro m w c
    simp only [runBody, List.flatten_cons]
    rw [runMuts_append]
    cases h : runMuts w c with
    | mk w' e =>
      cases e with
      | some e => simp [memBackend]
      | none =>
        simp only []
        rw [ih]
        simp [memBackend]

theorem mem_editLaw : EditLaw memBackend := by
  intro m cs
  cases cs with
  | nil =>
    simp only [chunksOf, List.flatten_nil]
    rw [mem_runBody]
    simp [memBackend, Mem.step, runMuts]
  | cons c rest =>
    simp only [chunksOf, List.flatten_cons]
    rw [mem_runBody]
    simp only [memBackend, Mem.step]
    cases h : runMuts m.root (c ++ rest.flatten) with
    | mk r e => cases e <;> rfl

theorem mem_publishLaw : PublishLaw memBackend := by
  intro m a b
  rfl

theorem mem_abortLaw : AbortLaw memBackend := by
  intro m ran w h
  simp only [memBackend] at h
  simp only [memBackend, Backend.kept, if_true, Mem.step, h]

theorem sql_runBody (rest : List (List Mut)) : ∀ (q : Sql) (w : Root) (c : List Mut),
    runBody sqlBackend q w c rest =
      (match runMuts w (c ++ rest.flatten) with
       | (r, none) => q.save r
       | (_, some _) => q) := by
  induction rest with
  | nil =>
    intro q w c
    simp only [runBody, List.flatten_nil, List.append_nil]
    cases h : runMuts w c with
    | mk w' e => cases e <;> simp [sqlBackend]
  | cons c' rest ih =>
    intro q w c
    simp only [runBody, List.flatten_cons]
    rw [runMuts_append]
    cases h : runMuts w c with
    | mk w' e =>
      cases e with
      | some e => simp [sqlBackend]
      | none =>
        simp only []
        rw [ih]
        simp [sqlBackend]

theorem sql_editLaw : EditLaw sqlBackend := by
  intro q cs
  cases cs with
  | nil =>
    simp only [chunksOf, List.flatten_nil]
    rw [sql_runBody]
    simp [sqlBackend, Sql.step, Sql.edit, runMuts]
  | cons c rest =>
    simp only [chunksOf, List.flatten_cons]
    rw [sql_runBody]
    simp only [sqlBackend, Sql.step, Sql.edit]
    cases h : runMuts q.load.2 (c ++ rest.flatten) with
    | mk r e => cases e <;> rfl

theorem sql_publishLaw : PublishLaw sqlBackend := by
  intro q a b
  rfl

/-- the copy the body worked on is dropped: what remains is `load` (which creates a missing row),
i.e. the empty edit -/
theorem sql_abortLaw : AbortLaw sqlBackend := by
  intro q ran w _
  simp only [sqlBackend, Backend.kept, Sql.step, Sql.edit]
  cases q with
  | mk sc ty row held =>
    cases row with
    | none => simp [Sql.load, Sql.save, runMuts]
    | some d => simp [Sql.load, Sql.save, runMuts]

/-! ### positions of a task -/

/-- the task's operation has had its effect on the store (it is in the log) -/
def Pc.eff : Pc → Bool
  | .done => true
  | .aborted _ => true
  | _ => false

/-- the task is inside an `edit_state` body -/
def Pc.inBody : Pc → Bool
  | .body .. => true
  | .bodyC .. => true
  | _ => false

theorem getElem?_set_pc (pcs : List Pc) (t t' : Nat) (p : Pc) :
    (pcs.set t p)[t']? = if t = t' then (if t < pcs.length then some p else none) else pcs[t']? := by
  by_cases h : t = t'
  · subst h
    by_cases hl : t < pcs.length
    · simp [hl]
    · simp [hl]
  · simp [h, List.getElem?_set_ne h]

theorem lt_of_getElem?_pc {pcs : List Pc} {t : Nat} {p : Pc} (h : pcs[t]? = some p) : t < pcs.length := by
  rcases Nat.lt_or_ge t pcs.length with hl | hl
  · exact hl
  · rw [List.getElem?_eq_none hl] at h; cases h

theorem effOp_set_ne (prog : List COp) (pcs : List Pc) (t t' : Nat) (p : Pc) (h : t ≠ t') :
    effOp prog (pcs.set t p) t' = effOp prog pcs t' := by
  simp only [effOp, List.getElem?_set_ne h]

theorem effOp_of_not_aborted (prog : List COp) (pcs : List Pc) (t : Nat)
    (h : ∀ k, pcs[t]? ≠ some (.aborted k)) : effOp prog pcs t = prog[t]? := by
  unfold effOp
  cases hp : pcs[t]? with
  | none => rfl
  | some p =>
    cases p with
    | aborted k => exact absurd hp (h k)
    | _ => rfl

/-- changing the position of a task that is not in the order does not change the serial run -/
theorem serialBy_set (B : Backend σ) (prog : List COp) (pcs : List Pc) (st0 : σ) (order : List Nat)
    (t : Nat) (p : Pc) (h : t ∉ order) :
    serialBy B (effOp prog (pcs.set t p)) st0 order = serialBy B (effOp prog pcs) st0 order := by
  apply serialBy_congr
  intro t' ht'
  apply effOp_set_ne
  intro he
  subst he
  exact h ht'

/-! ### the invariant -/

/-- the serial run of the log so far -/
def fold (B : Backend σ) (prog : List COp) (st0 : σ) (s : Sys σ) : σ := serialBy B (effOp prog s.pcs) st0 s.log

structure Inv (B : Backend σ) (prog : List COp) (st0 : σ) (s : Sys σ) : Prop where
  len : s.pcs.length = prog.length
  nodup : s.log.Nodup
  logEff : ∀ t : Nat, t ∈ s.log ↔ ∃ p, s.pcs[t]? = some p ∧ p.eff = true
  free : s.holder = none → s.store = fold B prog st0 s ∧ ∀ (t : Nat) p, s.pcs[t]? = some p → p.inBody = false
  held : ∀ t : Nat, s.holder = some t → ∃ cs ran c rest w, prog[t]? = some (.edit cs) ∧
    (s.pcs[t]? = some (Pc.body ran (c :: rest) w) ∨ s.pcs[t]? = some (Pc.bodyC ran (c :: rest) w)) ∧
    runBody B s.store w c rest = seqOp B (fold B prog st0 s) (.edit cs) ∧
    s.store = B.publish (B.begin (fold B prog st0 s)).1 w ∧
    runMuts (B.begin (fold B prog st0 s)).2 ran = (w, none) ∧
    ∀ (t' : Nat) p, t' ≠ t → s.pcs[t']? = some p → p.inBody = false

theorem inv_init (B : Backend σ) (prog : List COp) (st0 : σ) : Inv B prog st0 (Sys.init st0 prog.length) := by
  have hidle : ∀ (t : Nat) (p : Pc), (List.replicate prog.length Pc.idle)[t]? = some p → p = Pc.idle := by
    intro t p h
    rw [List.getElem?_replicate] at h
    split at h
    · cases h; rfl
    · cases h
  refine ⟨by simp [Sys.init], by simp [Sys.init], ?_, ?_, ?_⟩
  · intro t
    simp only [Sys.init, List.not_mem_nil, false_iff]
    rintro ⟨p, hp, he⟩
    rw [hidle t p hp] at he
    cases he
  · intro _
    refine ⟨by simp [Sys.init, fold, serialBy], ?_⟩
    intro t p h
    rw [hidle t p h]
    rfl
  · intro t h
    simp [Sys.init] at h

/-- membership in the log after one more task has taken effect -/
theorem logEff_push (s : Sys σ) (t : Nat) (pNew : Pc) (htl : t < s.pcs.length) (hn : pNew.eff = true)
    (hld : ∀ t' : Nat, t' ∈ s.log ↔ ∃ p, s.pcs[t']? = some p ∧ p.eff = true) (t' : Nat) :
    t' ∈ s.log ++ [t] ↔ ∃ p, (s.pcs.set t pNew)[t']? = some p ∧ p.eff = true := by
  simp only [List.mem_append, List.mem_singleton, getElem?_set_pc]
  by_cases h : t = t'
  · subst h
    simp only [if_true, htl]
    constructor
    · intro _; exact ⟨pNew, rfl, hn⟩
    · intro _; exact Or.inr trivial
  · simp only [h, if_false]
    rw [hld t']
    constructor
    · rintro (h1 | h1)
      · exact h1
      · exact absurd h1.symm h
    · exact Or.inl

/-- membership in the log when a task that has not taken effect moves to another such position -/
theorem logEff_move (s : Sys σ) (t : Nat) (pOld pNew : Pc) (hq : s.pcs[t]? = some pOld)
    (ho : pOld.eff = false) (hn : pNew.eff = false)
    (hld : ∀ t' : Nat, t' ∈ s.log ↔ ∃ p, s.pcs[t']? = some p ∧ p.eff = true) (t' : Nat) :
    t' ∈ s.log ↔ ∃ p, (s.pcs.set t pNew)[t']? = some p ∧ p.eff = true := by
  simp only [getElem?_set_pc]
  by_cases h : t = t'
  · subst h
    simp only [if_true, lt_of_getElem?_pc hq]
    rw [hld t, hq]
    constructor
    · rintro ⟨p, hp, he⟩
      cases hp
      rw [ho] at he
      cases he
    · rintro ⟨p, hp, he⟩
      cases hp
      rw [hn] at he
      cases he
  · simp only [h, if_false]
    exact hld t'

theorem not_mem_log (s : Sys σ) (t : Nat) (pOld : Pc) (hq : s.pcs[t]? = some pOld) (ho : pOld.eff = false)
    (hld : ∀ t' : Nat, t' ∈ s.log ↔ ∃ p, s.pcs[t']? = some p ∧ p.eff = true) : t ∉ s.log := by
  intro hm
  obtain ⟨p, hp, he⟩ := (hld t).1 hm
  rw [hq] at hp
  cases hp
  rw [ho] at he
  cases he

theorem nodup_push (log : List Nat) (t : Nat) (hnd : log.Nodup) (h : t ∉ log) : (log ++ [t]).Nodup := by
  rw [List.nodup_append]
  refine ⟨hnd, by simp, ?_⟩
  intro a ha b hb
  simp only [List.mem_singleton] at hb
  subst hb
  intro hab
  subst hab
  exact h ha

/-- positions outside a body after task `t` moved to a position outside a body -/
theorem noBody_set (pcs : List Pc) (t : Nat) (pNew : Pc) (hn : pNew.inBody = false)
    (hoth : ∀ (t' : Nat) p, t' ≠ t → pcs[t']? = some p → p.inBody = false)
    (t' : Nat) (p : Pc) (h : (pcs.set t pNew)[t']? = some p) : p.inBody = false := by
  rw [getElem?_set_pc] at h
  by_cases h2 : t = t'
  · subst h2
    simp only [if_true] at h
    split at h
    · cases h; exact hn
    · cases h
  · simp only [h2, if_false] at h
    exact hoth t' p (Ne.symm h2) h

/-- a task that is neither in the log nor inside a body moves to another such position (enqueue,
cancellation request, delivery of the cancellation outside a body); the FIFO may change -/
theorem inv_quiet (B : Backend σ) (prog : List COp) (st0 : σ) (s : Sys σ) (t : Nat) (pOld pNew : Pc) (q : List Nat)
    (I : Inv B prog st0 s) (hq : s.pcs[t]? = some pOld)
    (ho1 : pOld.eff = false) (ho2 : pOld.inBody = false) (hn1 : pNew.eff = false) (hn2 : pNew.inBody = false) :
    Inv B prog st0 { s with queue := q, pcs := s.pcs.set t pNew } := by
  obtain ⟨hlen, hnd, hld, hfr, hheld⟩ := I
  have htlog : t ∉ s.log := not_mem_log s t pOld hq ho1 hld
  have hfold : fold B prog st0 { s with queue := q, pcs := s.pcs.set t pNew } = fold B prog st0 s :=
    serialBy_set B prog s.pcs st0 s.log t pNew htlog
  refine ⟨by simp [hlen], hnd, logEff_move s t pOld pNew hq ho1 hn1 hld, ?_, ?_⟩
  · intro hh
    obtain ⟨h1, h2⟩ := hfr hh
    refine ⟨by rw [hfold]; exact h1, ?_⟩
    exact noBody_set s.pcs t pNew hn2 (fun t' p _ hp => h2 t' p hp)
  · intro th hh
    obtain ⟨cs, ran, c, rest, w, e1, e2, e3, e4, e5, e6⟩ := hheld th hh
    have hne : t ≠ th := by
      intro he
      subst he
      rw [hq] at e2
      rcases e2 with e2 | e2 <;> (cases e2; cases ho2)
    refine ⟨cs, ran, c, rest, w, e1, ?_, ?_, ?_, ?_, ?_⟩
    · simp only [getElem?_set_pc, hne, if_false]; exact e2
    · rw [hfold]; exact e3
    · rw [hfold]; exact e4
    · rw [hfold]; exact e5
    · intro t' p hne' hp
      rw [getElem?_set_pc] at hp
      by_cases h3 : t = t'
      · subst h3
        simp only [if_true] at hp
        split at hp
        · cases hp; exact hn2
        · cases hp
      · simp only [h3, if_false] at hp
        exact e6 t' p hne' hp

/-- the cancellation request reaches a task inside its body: nothing but the mark changes -/
theorem inv_cancelBody (B : Backend σ) (prog : List COp) (st0 : σ) (s : Sys σ) (t : Nat)
    (ran : List Mut) (rest : List (List Mut)) (w : Root)
    (I : Inv B prog st0 s) (hq : s.pcs[t]? = some (Pc.body ran rest w)) :
    Inv B prog st0 { s with pcs := s.pcs.set t (Pc.bodyC ran rest w) } := by
  obtain ⟨hlen, hnd, hld, hfr, hheld⟩ := I
  have htlog : t ∉ s.log := not_mem_log s t _ hq rfl hld
  have hfold : fold B prog st0 { s with pcs := s.pcs.set t (Pc.bodyC ran rest w) } = fold B prog st0 s :=
    serialBy_set B prog s.pcs st0 s.log t _ htlog
  have htl := lt_of_getElem?_pc hq
  refine ⟨by simp [hlen], hnd, logEff_move s t _ _ hq rfl rfl hld, ?_, ?_⟩
  · intro hh
    have := (hfr hh).2 t _ hq
    cases this
  · intro th hh
    obtain ⟨cs, ran2, c, rest2, w2, e1, e2, e3, e4, e5, e6⟩ := hheld th hh
    have hth : th = t := by
      apply Decidable.byContradiction
      intro hne
      have := e6 t _ (fun h => hne h.symm) hq
      cases this
    subst hth
    rw [hq] at e2
    have hpay : ran = ran2 ∧ rest = c :: rest2 ∧ w = w2 := by
      rcases e2 with e2 | e2
      · simp only [Option.some.injEq, Pc.body.injEq] at e2; exact e2
      · cases e2
    obtain ⟨h1, h2, h3⟩ := hpay
    subst h1 h2 h3
    refine ⟨cs, ran, c, rest2, w, e1, Or.inr (by simp [htl]), ?_, ?_, ?_, ?_⟩
    · rw [hfold]; exact e3
    · rw [hfold]; exact e4
    · rw [hfold]; exact e5
    · intro t' p hne' hp
      rw [getElem?_set_pc] at hp
      simp only [Ne.symm hne', if_false] at hp
      exact e6 t' p hne' hp

/-- the `CancelledError` leaves the open block of the lock holder: no save, the lock is released -/
theorem inv_abort (B : Backend σ) (habort : AbortLaw B) (prog : List COp) (st0 : σ) (s : Sys σ) (t : Nat)
    (ran : List Mut) (rest : List (List Mut)) (w : Root)
    (I : Inv B prog st0 s) (hq : s.pcs[t]? = some (Pc.bodyC ran rest w)) (hh : s.holder = some t) :
    Inv B prog st0 { s with holder := none, pcs := s.pcs.set t (Pc.aborted (B.kept ran)), log := s.log ++ [t] } := by
  obtain ⟨hlen, hnd, hld, hfr, hheld⟩ := I
  have htlog : t ∉ s.log := not_mem_log s t _ hq rfl hld
  have htl := lt_of_getElem?_pc hq
  obtain ⟨cs, ran2, c, rest2, w2, e1, e2, e3, e4, e5, e6⟩ := hheld t hh
  rw [hq] at e2
  have hpay : ran = ran2 ∧ rest = c :: rest2 ∧ w = w2 := by
    rcases e2 with e2 | e2
    · cases e2
    · simp only [Option.some.injEq, Pc.bodyC.injEq] at e2; exact e2
  obtain ⟨h1, h2, h3⟩ := hpay
  subst h1 h2 h3
  refine ⟨by simp [hlen], nodup_push s.log t hnd htlog, logEff_push s t _ htl rfl hld, ?_, ?_⟩
  · intro _
    refine ⟨?_, ?_⟩
    · show s.store = serialBy B (effOp prog (s.pcs.set t (Pc.aborted (B.kept ran)))) st0 (s.log ++ [t])
      have hop : effOp prog (s.pcs.set t (Pc.aborted (B.kept ran))) t = some (.edit [B.kept ran]) := by
        simp [effOp, htl]
      rw [serialBy_append B _ st0 s.log t _ hop, serialBy_set B prog s.pcs st0 s.log t _ htlog]
      rw [e4, habort _ ran w e5]
      simp [seqOp, COp.toOp, fold]
    · exact noBody_set s.pcs t _ rfl e6
  · intro t' h; simp at h

/-- one chunk of the body of the lock holder -/
theorem inv_runChunk (B : Backend σ) (prog : List COp) (st0 : σ) (s : Sys σ) (t : Nat)
    (cs : List (List Mut)) (ran c : List Mut) (rest : List (List Mut)) (w : Root) (pOld : Pc)
    (hlen : s.pcs.length = prog.length) (hnd : s.log.Nodup)
    (hld : ∀ t' : Nat, t' ∈ s.log ↔ ∃ p, s.pcs[t']? = some p ∧ p.eff = true)
    (hp : prog[t]? = some (.edit cs)) (hq : s.pcs[t]? = some pOld) (ho : pOld.eff = false)
    (hh : s.holder = some t)
    (hbody : runBody B s.store w c rest = seqOp B (fold B prog st0 s) (.edit cs))
    (hst : ∀ w', B.publish s.store w' = B.publish (B.begin (fold B prog st0 s)).1 w')
    (hran : runMuts (B.begin (fold B prog st0 s)).2 ran = (w, none))
    (hoth : ∀ (t' : Nat) p, t' ≠ t → s.pcs[t']? = some p → p.inBody = false) :
    Inv B prog st0 (runChunk B s t ran c rest w) := by
  have htlog : t ∉ s.log := not_mem_log s t pOld hq ho hld
  have htl := lt_of_getElem?_pc hq
  have finish : ∀ st' : σ, st' = seqOp B (fold B prog st0 s) (.edit cs) →
      Inv B prog st0 { s with store := st', holder := none, pcs := s.pcs.set t .done, log := s.log ++ [t] } := by
    intro st' hst'
    refine ⟨by simp [hlen], nodup_push s.log t hnd htlog, logEff_push s t _ htl rfl hld, ?_, ?_⟩
    · intro _
      refine ⟨?_, noBody_set s.pcs t _ rfl hoth⟩
      show st' = serialBy B (effOp prog (s.pcs.set t Pc.done)) st0 (s.log ++ [t])
      have hop : effOp prog (s.pcs.set t Pc.done) t = some (.edit cs) := by
        simp [effOp, htl, hp]
      rw [serialBy_append B _ st0 s.log t _ hop, serialBy_set B prog s.pcs st0 s.log t _ htlog, hst']
      rfl
    · intro t' h; simp at h
  unfold runChunk
  cases hm : runMuts w c with
  | mk w' e =>
    cases e with
    | some e =>
      simp only []
      apply finish
      rw [← hbody]
      cases rest <;> simp [runBody, hm]
    | none =>
      cases rest with
      | nil =>
        simp only []
        apply finish
        rw [← hbody]
        simp [runBody, hm]
      | cons c' rest' =>
        simp only []
        have hfold : fold B prog st0 { s with store := B.publish s.store w', pcs := s.pcs.set t (Pc.body (ran ++ c) (c' :: rest') w') }
            = fold B prog st0 s := serialBy_set B prog s.pcs st0 s.log t _ htlog
        refine ⟨by simp [hlen], hnd, logEff_move s t pOld _ hq ho rfl hld, ?_, ?_⟩
        · intro h
          simp only [hh] at h
          cases h
        · intro t' ht'
          simp only [hh, Option.some.injEq] at ht'
          subst ht'
          refine ⟨cs, ran ++ c, c', rest', w', hp, Or.inl (by simp [htl]), ?_, ?_, ?_, ?_⟩
          · rw [hfold, ← hbody]
            simp [runBody, hm]
          · rw [hfold]; exact hst w'
          · rw [hfold, runMuts_append, hran]
            exact hm
          · intro t'' p hne hp''
            rw [getElem?_set_pc] at hp''
            simp only [Ne.symm hne, if_false] at hp''
            exact hoth t'' p hne hp''

/-- a task gets the (free) lock, or needs none, and starts -/
theorem inv_enter (B : Backend σ) (hedit : EditLaw B) (prog : List COp) (st0 : σ) (s : Sys σ)
    (t : Nat) (op : COp) (pOld : Pc)
    (I : Inv B prog st0 s) (hfree : s.holder = none) (hp : prog[t]? = some op)
    (hq : s.pcs[t]? = some pOld) (ho : pOld.eff = false) (q : List Nat) :
    Inv B prog st0 (enter B { s with queue := q } t op) := by
  obtain ⟨hlen, hnd, hld, hfr, hheld⟩ := I
  obtain ⟨hstore, hnobody⟩ := hfr hfree
  have htlog : t ∉ s.log := not_mem_log s t pOld hq ho hld
  have htl := lt_of_getElem?_pc hq
  have single : ∀ o : COp, prog[t]? = some o →
      Inv B prog st0 { s with queue := q, store := (B.step s.store o.toOp).1, pcs := s.pcs.set t .done,
                              log := s.log ++ [t] } := by
    intro o ho'
    refine ⟨by simp [hlen], nodup_push s.log t hnd htlog, logEff_push s t _ htl rfl hld, ?_, ?_⟩
    · intro _
      refine ⟨?_, noBody_set s.pcs t _ rfl (fun t' p _ h => hnobody t' p h)⟩
      show (B.step s.store o.toOp).1 = serialBy B (effOp prog (s.pcs.set t Pc.done)) st0 (s.log ++ [t])
      have hop : effOp prog (s.pcs.set t Pc.done) t = some o := by
        simp [effOp, htl, ho']
      rw [serialBy_append B _ st0 s.log t _ hop, serialBy_set B prog s.pcs st0 s.log t _ htlog, hstore]
      rfl
    · intro t' h
      simp only [hfree] at h
      cases h
  cases op with
  | set p v => exact single _ hp
  | setState i d => exact single _ hp
  | clear => exact single _ hp
  | edit cs =>
    simp only [enter]
    have hfold : fold B prog st0 { s with queue := q, store := (B.begin s.store).1, holder := some t } = fold B prog st0 s := rfl
    apply inv_runChunk B prog st0 _ t cs [] _ _ _ pOld (by simpa using hlen) (by simpa using hnd)
      (by simpa using hld) hp (by simpa using hq) ho rfl
    · rw [hfold]
      simp only []
      rw [hedit s.store cs, hstore]
      rfl
    · intro w'
      rw [hfold, hstore]
    · rw [hfold, hstore]
      rfl
    · intro t' p _ h
      exact hnobody t' p h

theorem inv_run (B : Backend σ) (hlock : ∀ op, B.locks op = true) (hscoped : ∀ op, B.scopedLock op = true)
    (hedit : EditLaw B) (hpub : PublishLaw B) (habort : AbortLaw B)
    (prog : List COp) (st0 : σ) (s s' : Sys σ) (t : Nat)
    (I : Inv B prog st0 s) (h : Sys.run B prog s t = some s') : Inv B prog st0 s' := by
  unfold Sys.run at h
  cases hp : prog[t]? with
  | none => rw [hp] at h; simp at h
  | some op =>
    cases hq : s.pcs[t]? with
    | none => rw [hp, hq] at h; simp at h
    | some pc =>
      rw [hp, hq] at h
      cases pc with
      | done => simp at h
      | cancelled => simp at h
      | aborted k => simp at h
      | idle =>
        simp only [hlock op, if_true] at h
        by_cases hf : s.holder = none ∧ s.queue.all (futCancelled s.pcs) = true
        · simp only [hf, and_self, if_true, Option.some.injEq] at h
          subst h
          have := inv_enter B hedit prog st0 s t op _ I hf.1 hp hq rfl s.queue
          simpa using this
        · simp only [hf, if_false, Option.some.injEq] at h
          subst h
          exact inv_quiet B prog st0 s t _ _ _ I hq rfl rfl rfl rfl
      | waiting =>
        by_cases hf : s.holder = none ∧ s.queue.head? = some t
        · simp only [hf, and_self, if_true, Option.some.injEq] at h
          subst h
          have := inv_enter B hedit prog st0 s t op _ I hf.1 hp hq rfl s.queue.tail
          simpa [hf.1] using this
        · simp only [hf, if_false] at h
          cases h
      | idleC =>
        simp only [Option.some.injEq] at h
        subst h
        exact inv_quiet B prog st0 s t _ _ s.queue I hq rfl rfl rfl rfl
      | waitC fc =>
        simp only [hscoped op, if_true, Option.some.injEq] at h
        subst h
        exact inv_quiet B prog st0 s t _ _ _ I hq rfl rfl rfl rfl
      | body ran chunks w =>
        cases chunks with
        | nil => simp at h
        | cons c rest =>
          simp only [hscoped op, Bool.true_eq_false, or_false] at h
          by_cases hh : s.holder = some t
          · simp only [hh, if_true, Option.some.injEq] at h
            subst h
            obtain ⟨hlen, hnd, hld, hfr, hheld⟩ := I
            obtain ⟨cs, ran2, c2, rest2, w2, e1, e2, e3, e4, e5, e6⟩ := hheld t hh
            rw [hq] at e2
            have hpay : ran = ran2 ∧ c = c2 ∧ rest = rest2 ∧ w = w2 := by
              rcases e2 with e2 | e2
              · simp only [Option.some.injEq, Pc.body.injEq, List.cons.injEq] at e2
                exact ⟨e2.1, e2.2.1.1, e2.2.1.2, e2.2.2⟩
              · cases e2
            obtain ⟨h1, h2, h3, h4⟩ := hpay
            subst h1 h2 h3 h4
            refine inv_runChunk B prog st0 s t cs ran c rest w _ hlen hnd hld e1 hq rfl hh e3 ?_ e5 e6
            intro w'
            rw [e4, hpub]
          · simp only [hh, if_false] at h
            cases h
      | bodyC ran chunks w =>
        simp only [hscoped op, Bool.true_eq_false, or_false] at h
        by_cases hh : s.holder = some t
        · simp only [hh, if_true, Option.some.injEq] at h
          subst h
          exact inv_abort B habort prog st0 s t ran chunks w I hq hh
        · simp only [hh, if_false] at h
          cases h

theorem inv_cancel (B : Backend σ) (prog : List COp) (st0 : σ) (s s' : Sys σ) (t : Nat)
    (I : Inv B prog st0 s) (h : Sys.cancel s t = some s') : Inv B prog st0 s' := by
  unfold Sys.cancel at h
  cases hq : s.pcs[t]? with
  | none => rw [hq] at h; simp at h
  | some pc =>
    rw [hq] at h
    cases pc with
    | idle =>
      simp only [Option.some.injEq] at h
      subst h
      exact inv_quiet B prog st0 s t _ _ s.queue I hq rfl rfl rfl rfl
    | waiting =>
      simp only [Option.some.injEq] at h
      subst h
      exact inv_quiet B prog st0 s t _ _ s.queue I hq rfl rfl rfl rfl
    | body ran rest w =>
      simp only [Option.some.injEq] at h
      subst h
      exact inv_cancelBody B prog st0 s t ran rest w I hq
    | done => simp at h
    | idleC => simp at h
    | waitC fc => simp at h
    | bodyC ran rest w => simp at h
    | cancelled => simp at h
    | aborted k => simp at h

theorem inv_exec (B : Backend σ) (hlock : ∀ op, B.locks op = true) (hscoped : ∀ op, B.scopedLock op = true)
    (hedit : EditLaw B) (hpub : PublishLaw B) (habort : AbortLaw B)
    (prog : List COp) (st0 : σ) (s s' : Sys σ) (a : Act)
    (I : Inv B prog st0 s) (h : Sys.exec B prog s a = some s') : Inv B prog st0 s' := by
  cases a with
  | run t => exact inv_run B hlock hscoped hedit hpub habort prog st0 s s' t I h
  | cancel t => exact inv_cancel B prog st0 s s' t I h

theorem inv_execAll (B : Backend σ) (hlock : ∀ op, B.locks op = true) (hscoped : ∀ op, B.scopedLock op = true)
    (hedit : EditLaw B) (hpub : PublishLaw B) (habort : AbortLaw B)
    (prog : List COp) (st0 : σ) (sched : List Act) : ∀ (s s' : Sys σ),
    Inv B prog st0 s → Sys.execAll B prog s sched = some s' → Inv B prog st0 s' := by
  induction sched with
  | nil => intro s s' I h; simp only [Sys.execAll, Option.some.injEq] at h; subst h; exact I
  | cons a as ih =>
    intro s s' I h
    simp only [Sys.execAll] at h
    cases hr : Sys.exec B prog s a with
    | none => rw [hr] at h; cases h
    | some s1 =>
      rw [hr] at h
      exact ih s1 s' (inv_exec B hlock hscoped hedit hpub habort prog st0 s s1 a I hr) h

/-- a schedule without cancellations is a schedule -/
theorem runAll_eq_execAll (B : Backend σ) (prog : List COp) (sched : List Nat) : ∀ s : Sys σ,
    Sys.runAll B prog s sched = Sys.execAll B prog s (sched.map Act.run) := by
  induction sched with
  | nil => intro s; rfl
  | cons t ts ih =>
    intro s
    simp only [Sys.runAll, List.map_cons, Sys.execAll, Sys.exec]
    cases Sys.run B prog s t with
    | none => rfl
    | some s1 => exact ih s1

/-- when every task has ended, the log is a serialisation order of the tasks that took effect -/
theorem serialisable_of_inv_settled (B : Backend σ) (prog : List COp) (st0 : σ) (s : Sys σ)
    (I : Inv B prog st0 s) (hd : s.allSettled = true) :
    ∃ order : List Nat, order.Nodup ∧ (∀ t, t ∈ order ↔ ∃ p, s.pcs[t]? = some p ∧ p.eff = true) ∧
      s.store = serialBy B (effOp prog s.pcs) st0 order := by
  obtain ⟨hlen, hnd, hld, hfr, hheld⟩ := I
  have hall : ∀ (t : Nat) (p : Pc), s.pcs[t]? = some p → p.settled = true := by
    intro t p hp
    have hmem : p ∈ s.pcs := List.mem_of_getElem? hp
    unfold Sys.allSettled at hd
    rw [List.all_eq_true] at hd
    exact hd p hmem
  have hfree : s.holder = none := by
    cases hh : s.holder with
    | none => rfl
    | some t =>
      obtain ⟨cs, ran, c, rest, w, _, e2, _⟩ := hheld t hh
      rcases e2 with e2 | e2 <;> (have := hall t _ e2; cases this)
  exact ⟨s.log, hnd, hld, (hfr hfree).1⟩

theorem eff_iff (pcs : List Pc) (t : Nat) :
    (∃ p, pcs[t]? = some p ∧ p.eff = true) ↔ (pcs[t]? = some Pc.done ∨ ∃ k, pcs[t]? = some (Pc.aborted k)) := by
  constructor
  · rintro ⟨p, hp, he⟩
    cases p <;> first
      | (cases he; done)
      | exact Or.inl hp
      | exact Or.inr ⟨_, hp⟩
  · rintro (h | ⟨k, h⟩)
    · exact ⟨_, h, rfl⟩
    · exact ⟨_, h, rfl⟩

/-- no task was cancelled inside its body: the serialisation order consists of exactly the
completed tasks, each with its own operation -/
theorem serialisable_of_inv_completed (B : Backend σ) (prog : List COp) (st0 : σ) (s : Sys σ)
    (I : Inv B prog st0 s) (hd : s.allDoneOrCancelled = true) :
    ∃ order : List Nat, order.Nodup ∧ (∀ t, t ∈ order ↔ s.pcs[t]? = some Pc.done) ∧
      s.store = serial B prog st0 order := by
  have hall : ∀ (t : Nat) (p : Pc), s.pcs[t]? = some p → p = Pc.done ∨ p = Pc.cancelled := by
    intro t p hp
    have hmem : p ∈ s.pcs := List.mem_of_getElem? hp
    unfold Sys.allDoneOrCancelled at hd
    rw [List.all_eq_true] at hd
    have := hd p hmem
    cases p <;> simp_all
  have hset : s.allSettled = true := by
    unfold Sys.allSettled
    rw [List.all_eq_true]
    intro p hp
    obtain ⟨t, ht, hpt⟩ := List.getElem_of_mem hp
    have : s.pcs[t]? = some p := by rw [List.getElem?_eq_getElem ht, hpt]
    rcases hall t p this with h | h <;> (subst h; rfl)
  obtain ⟨order, hnd, hmem, hst⟩ := serialisable_of_inv_settled B prog st0 s I hset
  refine ⟨order, hnd, ?_, ?_⟩
  · intro t
    rw [hmem t, eff_iff]
    constructor
    · rintro (h | ⟨k, h⟩)
      · exact h
      · rcases hall t _ h with h' | h' <;> cases h'
    · exact Or.inl
  · rw [hst, serial_eq_serialBy]
    apply serialBy_congr
    intro t _
    apply effOp_of_not_aborted
    intro k h
    rcases hall t _ h with h' | h' <;> cases h'

/-- when all tasks are done the completion log is a serialisation order -/
theorem serialisable_of_inv (B : Backend σ) (prog : List COp) (st0 : σ) (s : Sys σ)
    (I : Inv B prog st0 s) (hd : s.allDone = true) :
    ∃ order : List Nat, order.Nodup ∧ (∀ t, t ∈ order ↔ t < prog.length) ∧
      s.store = serial B prog st0 order := by
  have hall : ∀ (t : Nat) (p : Pc), s.pcs[t]? = some p → p = Pc.done := by
    intro t p hp
    have hmem : p ∈ s.pcs := List.mem_of_getElem? hp
    unfold Sys.allDone at hd
    rw [List.all_eq_true] at hd
    have := hd p hmem
    cases p <;> simp_all
  have hdc : s.allDoneOrCancelled = true := by
    unfold Sys.allDoneOrCancelled
    rw [List.all_eq_true]
    intro p hp
    obtain ⟨t, ht, hpt⟩ := List.getElem_of_mem hp
    have : s.pcs[t]? = some p := by rw [List.getElem?_eq_getElem ht, hpt]
    rw [hall t p this]
  obtain ⟨order, hnd, hmem, hst⟩ := serialisable_of_inv_completed B prog st0 s I hdc
  refine ⟨order, hnd, ?_, hst⟩
  intro t
  rw [hmem t]
  constructor
  · intro h
    rw [← I.len]
    exact lt_of_getElem?_pc h
  · intro h
    have hl : t < s.pcs.length := by rw [I.len]; exact h
    have : s.pcs[t]? = some s.pcs[t] := List.getElem?_eq_getElem hl
    rw [this, hall t _ this]

/-- while an `edit_state` block holds the lock, no action of another task — a section of it, or a
cancellation request to it — changes the store, completes an operation or takes the lock away -/
theorem no_write_inside_open_edit_exec (B : Backend σ) (hlock : ∀ op, B.locks op = true)
    (hscoped : ∀ op, B.scopedLock op = true)
    (prog : List COp) (s s' : Sys σ) (e t : Nat) (hh : s.holder = some e) (hne : t ≠ e) (a : Act)
    (ha : a = .run t ∨ a = .cancel t)
    (h : Sys.exec B prog s a = some s') : s'.store = s.store ∧ s'.log = s.log ∧ s'.holder = some e := by
  rcases ha with ha | ha
  · subst ha
    simp only [Sys.exec] at h
    unfold Sys.run at h
    cases hp : prog[t]? with
    | none => rw [hp] at h; simp at h
    | some op =>
      cases hq : s.pcs[t]? with
      | none => rw [hp, hq] at h; simp at h
      | some pc =>
        rw [hp, hq] at h
        have : ¬ (e = t) := fun he => hne he.symm
        cases pc with
        | done => simp at h
        | cancelled => simp at h
        | aborted k => simp at h
        | idle =>
          simp only [hlock op, if_true, hh] at h
          simp only [reduceCtorEq, false_and, if_false, Option.some.injEq] at h
          subst h
          exact ⟨rfl, rfl, rfl⟩
        | waiting =>
          simp [hh] at h
        | idleC =>
          simp only [Option.some.injEq] at h
          subst h
          exact ⟨rfl, rfl, hh⟩
        | waitC fc =>
          simp only [hscoped op, if_true, Option.some.injEq] at h
          subst h
          exact ⟨rfl, rfl, hh⟩
        | body ran chunks w =>
          cases chunks with
          | nil => simp at h
          | cons c rest =>
            simp [hh, this, hscoped op] at h
        | bodyC ran chunks w =>
          simp [hh, this, hscoped op] at h
  · subst ha
    simp only [Sys.exec] at h
    unfold Sys.cancel at h
    cases hq : s.pcs[t]? with
    | none => rw [hq] at h; simp at h
    | some pc =>
      rw [hq] at h
      cases pc <;> first
        | (simp at h; done)
        | (simp only [Option.some.injEq] at h; subst h; exact ⟨rfl, rfl, hh⟩)

end StateStore
