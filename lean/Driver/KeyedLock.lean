import WfModel.KeyedLock
import Driver.Util
open KeyedLock Drv

/-! Line protocol for M6.
  `enter|k|a` `resume|k|a` `cancel|k|a` `exit|k|a`  → `<status> <state>`
  `live|k|a`                                        → `live=<0|1> measure=<n>`
  `reset`                                           → `reset`
`<state>` lists, for every key touched so far whose slot is not empty, in ascending key order,
`k:refs=<n|->:L=<0|1|->:in=<a,..>:q=<a/P,a/W,a/C,a/X,..>` joined by `;` (or `empty`). -/
namespace Drv.KeyedLock

structure St where
  kl : KL := {}
  keys : List Nat := []

def insertKey (k : Nat) : List Nat → List Nat
  | [] => [k]
  | x :: r => if k < x then k :: x :: r else if k = x then x :: r else x :: insertKey k r

def showFut : Fut → String
  | .pending => "P" | .woken => "W" | .cancelled => "C" | .wokenCancelled => "X"

def showKey (k : Nat) (st : KeySt) : String :=
  let refs := match st.refs with | none => "-" | some n => toString n
  let lk := match st.lock with | none => "-" | some l => if l.locked then "1" else "0"
  let q := match st.lock with
    | none => ""
    | some l => ",".intercalate (l.waiters.map fun (w : Nat × Fut) => s!"{w.1}/{showFut w.2}")
  s!"{k}:refs={refs}:L={lk}:in={",".intercalate (st.inside.map toString)}:q={q}"

def showState (s : St) : String :=
  let parts := (s.keys.filter fun k => !(empty (s.kl.slot k))).map fun k => showKey k (s.kl.slot k)
  let body := if parts.isEmpty then "empty" else ";".intercalate parts
  if s.kl.main then "MAIN " ++ body else body

def showErr : Err → String
  | .disabled => "disabled"
  | .keyError => "error:keyError"
  | .releaseUnlocked => "error:releaseUnlocked"
  | .mainWouldBlock => "error:mainWouldBlock"
  | .lostLock => "error:lostLock"

def act? (name : String) (a : Nat) : Option KAct :=
  match name with
  | "enter" => some (.enter a)
  | "resume" => some (.resume a)
  | "cancel" => some (.cancel a)
  | "exit" => some (.exit a)
  | _ => none

def step (s : St) (line : String) : St × String :=
  match line.splitOn "|" with
  | ["reset"] => ({}, "reset")
  | ["live", ks, as] =>
    match parseNat? ks, parseNat? as with
    | some k, some a =>
      let st := s.kl.slot k
      (s, s!"live={if live st a then 1 else 0} measure={measure st a}")
    | _, _ => (s, "bad-op")
  | [name, ks, as] =>
    match parseNat? ks, parseNat? as with
    | some k, some a =>
      match act? name a with
      | none => (s, "bad-op")
      | some x =>
        let s1 : St := { s with keys := insertKey k s.keys }
        match _root_.KeyedLock.step s1.kl ⟨k, x⟩ with
        | .ok kl' => let s2 : St := { s1 with kl := kl' }; (s2, "ok " ++ showState s2)
        | .error e => (s1, showErr e ++ " " ++ showState s1)
    | _, _ => (s, "bad-op")
  | _ => (s, "bad-op")

end Drv.KeyedLock
