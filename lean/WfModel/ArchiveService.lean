import WfModel.Archive
import WfModel.ArchiveClean
/-!
M14, fourth part — how `manage_api/backup_service.py` (`BackupService._perform_backup`) feeds
`create_backup_archive`: for every raw resource of the cluster it reads `metadata.name` and
`metadata.generation` **before** cleaning the resource, keys the secrets and the generations by
that name, and hands the *cleaned* resources to the writer — which reads `metadata.name` again,
from the cleaned resource, to name the members.  (Which keys, which order, which dict goes where is
re-read from the source: `GenArchiveClean.svc*`.)
-/
namespace ArchiveService
open Archive ArchiveClean GenArchive GenArchiveClean

variable {V Y : Type}

/-- `crd.get("metadata", {}).get("name", "")` — `str` reads a value as the string it is -/
def svcName (str : V → Name) (r : Doc V) : Name := ((metaField svcNameKey r).map str).getD svcNameDefault

/-- `crd.get("metadata", {}).get("generation")`, then `int(gen)` -/
def svcGen (int : V → Int) (r : Doc V) : Option Int := (metaField svcGenKey r).map int

/-- the arguments of `create_backup_archive` for the cluster state `raws` (+ the paired secret of each
deployment name, `none` = no such secret); names distinct (the dicts are written as association lists) -/
def svcBackup (str : V → Name) (int : V → Int) (inj : Doc V → Y) (raws : List (Doc V))
    (sec : Name → Option Y) (ns ts : Str) : Backup Y :=
  { deps := raws.map fun r => ((nameOf (cleanCrd r)).map str, inj (cleanCrd r)),
    secrets := raws.filterMap fun r => (sec (svcName str r)).map fun s => (svcName str r, s),
    gens := some (raws.filterMap fun r => (svcGen int r).map fun g => (svcName str r, g)),
    «namespace» := ns, timestamp := ts }

/-- what a faithful restore of the cluster state returns: every deployment under its cluster name, its
cleaned resource, its paired secret, the generation it had in the cluster -/
def svcExpected (str : V → Name) (int : V → Int) (inj : Doc V → Y) (raws : List (Doc V))
    (sec : Name → Option Y) : List (Entry Y) :=
  raws.map fun r => ⟨svcName str r, inj (cleanCrd r), sec (svcName str r), svcGen int r⟩

end ArchiveService
