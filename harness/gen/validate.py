"""Re-extract the tables `representation/validate.py` decides with (C23).

Written to lean/WfModel/GenValidate.lean on every run.  The hand-written model
(`WfModel/Validate.lean`) *uses* these constants (which root classes count as
boundary / output / seed events, how the human-in-the-loop flag is computed), and
`C23_source_shape` pins every one of them, so a changed tuple, a re-ordered check or
a differently computed flag changes the model and breaks a proof.

Root classes are numbered as in the model:
Event 0, StartEvent 1, StopEvent 2, InputRequiredEvent 3, HumanResponseEvent 4,
StepFailedEvent 5 (NoneType 6 never appears in an issubclass test).  An unknown
name is emitted as 99 together with a note.
"""
from __future__ import annotations

import ast
from typing import Any

from ..boot import repo_path

LEAN_MODULE = "GenValidate"

VALIDATE = "packages/llama-index-workflows/src/workflows/representation/validate.py"
DECORATORS = "packages/llama-index-workflows/src/workflows/decorators.py"
WORKFLOW = "packages/llama-index-workflows/src/workflows/workflow.py"

ROOTS = {"Event": 0, "StartEvent": 1, "StopEvent": 2, "InputRequiredEvent": 3, "HumanResponseEvent": 4,
         "StepFailedEvent": 5}
CHECK_FUNCS = ["_ensure_start_event_class", "_ensure_stop_event_class", "_validate_event_connectivity",
               "_collect_catch_error_handlers", "validate_graph", "validate_catch_error_handlers", "build_step_graph"]


def _func(tree: ast.Module, name: str) -> ast.FunctionDef:
    for n in tree.body:
        if isinstance(n, (ast.FunctionDef, ast.AsyncFunctionDef)) and n.name == name:
            return n  # type: ignore[return-value]
    raise KeyError(name)


def _roots_of(node: ast.AST, notes: list[str], where: str) -> list[int]:
    """second argument of issubclass: a Name or a Tuple of Names -> root ids"""
    elts = node.elts if isinstance(node, ast.Tuple) else [node]
    res = []
    for e in elts:
        if isinstance(e, ast.Name) and e.id in ROOTS:
            res.append(ROOTS[e.id])
        else:
            notes.append(f"gen/validate: {where}: unexpected class in issubclass test: {ast.unparse(e)}")
            res.append(99)
    return res


def _issubclass_calls(node: ast.AST) -> list[ast.Call]:
    return [c for c in ast.walk(node) if isinstance(c, ast.Call) and isinstance(c.func, ast.Name)
            and c.func.id == "issubclass" and len(c.args) == 2]


def _assign_value(fn: ast.FunctionDef, target: str) -> ast.AST:
    for n in ast.walk(fn):
        if isinstance(n, ast.Assign) and len(n.targets) == 1 and isinstance(n.targets[0], ast.Name) and n.targets[0].id == target:
            return n.value
        if isinstance(n, ast.AnnAssign) and isinstance(n.target, ast.Name) and n.target.id == target and n.value is not None:
            return n.value
    raise KeyError(target)


def _lean_nats(xs: list[int]) -> str:
    return "[" + ", ".join(str(x) for x in xs) + "]"


def _lean_strs(xs: list[str]) -> str:
    return "[" + ", ".join('"' + x.replace("\\", "\\\\").replace('"', '\\"').replace("\n", "\\n") + '"' for x in xs) + "]"


def _hitl_term(e: ast.AST) -> tuple[bool, int, bool] | None:
    """one disjunct of the returned flag -> (by_subclass, root, over_produced)"""
    sets = {"produced_events": True, "consumed_events": False}
    # `Root in produced_events`
    if (isinstance(e, ast.Compare) and len(e.ops) == 1 and isinstance(e.ops[0], ast.In) and isinstance(e.left, ast.Name)
            and e.left.id in ROOTS and isinstance(e.comparators[0], ast.Name) and e.comparators[0].id in sets):
        return (False, ROOTS[e.left.id], sets[e.comparators[0].id])
    # `any(issubclass(x, Root) for x in produced_events)`
    if (isinstance(e, ast.Call) and isinstance(e.func, ast.Name) and e.func.id == "any" and len(e.args) == 1
            and isinstance(e.args[0], ast.GeneratorExp)):
        g = e.args[0]
        if len(g.generators) == 1 and not g.generators[0].ifs and isinstance(g.generators[0].target, ast.Name) \
                and isinstance(g.generators[0].iter, ast.Name) and g.generators[0].iter.id in sets:
            var = g.generators[0].target.id
            c = g.elt
            if (isinstance(c, ast.Call) and isinstance(c.func, ast.Name) and c.func.id == "issubclass" and len(c.args) == 2
                    and isinstance(c.args[0], ast.Name) and c.args[0].id == var and isinstance(c.args[1], ast.Name)
                    and c.args[1].id in ROOTS):
                return (True, ROOTS[c.args[1].id], sets[g.generators[0].iter.id])
    return None


def generate(notes: list[str]) -> list[str]:
    L: list[str] = ["namespace Gen.C23", ""]

    def emit(name: str, ty: str, val: str, doc: str = "") -> None:
        if doc:
            L.append(f"/-- {doc} -/")
        L.append(f"def {name} : {ty} := {val}")

    tree = ast.parse(open(repo_path(VALIDATE)).read())

    # ---- order of the checks in _validate_workflow
    try:
        fn = _func(tree, "_validate_workflow")
        calls = [(c.lineno, c.col_offset, c.func.id) for c in ast.walk(fn)
                 if isinstance(c, ast.Call) and isinstance(c.func, ast.Name) and c.func.id in CHECK_FUNCS]
        order = [n for _l, _c, n in sorted(calls)]
        first = fn.body[1] if isinstance(fn.body[0], ast.Expr) else fn.body[0]
        empty_first = isinstance(first, ast.If) and ast.unparse(first.test) == "not steps" and any(isinstance(s, ast.Raise) for s in first.body)
    except Exception as e:  # noqa: BLE001
        notes.append(f"gen/validate: _validate_workflow: {e!r}")
        order, empty_first = [], False
    emit("checkOrder", "List String", _lean_strs(order), "calls made by `_validate_workflow`, in source order")
    emit("emptyCheckedFirst", "Bool", "true" if empty_first else "false", "`if not steps: raise` is the first statement")

    # ---- start / stop inference
    for fname, const in (("_ensure_start_event_class", "start"), ("_ensure_stop_event_class", "stop")):
        try:
            fn = _func(tree, fname)
            calls = _issubclass_calls(fn)
            roots = [r for c in calls for r in _roots_of(c.args[1], notes, fname)]
            attrs = sorted({a.attr for a in ast.walk(fn) if isinstance(a, ast.Attribute) and a.attr in ("accepted_events", "return_types")})
            cmp_ = sorted(ast.unparse(i.test) for i in ast.walk(fn) if isinstance(i, ast.If))
        except Exception as e:  # noqa: BLE001
            notes.append(f"gen/validate: {fname}: {e!r}")
            roots, attrs, cmp_ = [99], [], []
        emit(f"{const}Roots", "List Nat", _lean_nats(roots))
        emit(f"{const}Scans", "List String", _lean_strs(attrs))
        emit(f"{const}Tests", "List String", _lean_strs(cmp_))

    # ---- event connectivity
    try:
        fn = _func(tree, "_validate_event_connectivity")
        loop = next(n for n in fn.body if isinstance(n, ast.For))
        stop_calls = _issubclass_calls(loop)
        accept_stop = [r for c in stop_calls for r in _roots_of(c.args[1], notes, "accepting-stop test")]
        unconsumed = _assign_value(fn, "unconsumed_events")
        unused = _assign_value(fn, "unused_events")
        cb = [r for c in _issubclass_calls(unconsumed) for r in _roots_of(c.args[1], notes, "unconsumed_events")]
        pb = [r for c in _issubclass_calls(unused) for r in _roots_of(c.args[1], notes, "unused_events")]
        diffs = [ast.unparse(unconsumed.generators[0].iter), ast.unparse(unused.generators[0].iter)]  # type: ignore[attr-defined]
        negs = [ast.unparse(unconsumed.generators[0].ifs[0])[:17], ast.unparse(unused.generators[0].ifs[0])[:17]]  # type: ignore[attr-defined]
        init = [ast.unparse(_assign_value(fn, "produced_events")), ast.unparse(_assign_value(fn, "consumed_events"))]
        raises = []
        for n in fn.body:
            if isinstance(n, ast.If) and any(isinstance(s, ast.Raise) for s in n.body):
                raises.append(ast.unparse(n.test))
        ret = next(n for n in reversed(fn.body) if isinstance(n, ast.Return))
        terms_ast = ret.value.values if isinstance(ret.value, ast.BoolOp) and isinstance(ret.value.op, ast.Or) else [ret.value]
        terms = [_hitl_term(t) for t in terms_ast]
        known = all(t is not None for t in terms)
        if not known:
            notes.append(f"gen/validate: human-in-the-loop flag has an unrecognised shape: {ast.unparse(ret.value)}")
            terms = []
        none_skip = any(isinstance(i, ast.If) and ast.unparse(i.test) == "event_type is type(None)" for i in ast.walk(loop))
    except Exception as e:  # noqa: BLE001
        notes.append(f"gen/validate: _validate_event_connectivity: {e!r}")
        accept_stop, cb, pb, diffs, negs, init, raises, terms, known, none_skip = [99], [99], [99], [], [], [], [], [], False, False
    emit("acceptStopRoots", "List Nat", _lean_nats(accept_stop), "a step accepting a subclass of these is rejected")
    emit("consumedBoundary", "List Nat", _lean_nats(cb), "consumed-but-not-produced is allowed for subclasses of these")
    emit("producedBoundary", "List Nat", _lean_nats(pb), "produced-but-not-consumed is allowed for subclasses of these")
    emit("connectivityDiffs", "List String", _lean_strs(diffs))
    emit("connectivityFilters", "List String", _lean_strs(negs))
    emit("connectivityInit", "List String", _lean_strs(init))
    emit("connectivityRaises", "List String", _lean_strs(raises), "guards of the three raises, in source order")
    emit("producedSkipsNone", "Bool", "true" if none_skip else "false")
    emit("hitlShapeKnown", "Bool", "true" if known else "false")
    emit("hitlTerms", "List (Bool × Nat × Bool)",
         "[" + ", ".join(f"({str(a).lower()}, {b}, {str(c).lower()})" for a, b, c in terms) + "]",  # type: ignore[misc]
         "disjuncts of the returned flag: (tested with issubclass, root class, over produced_events)")

    # ---- graph construction
    try:
        fn = _func(tree, "build_step_graph")
        seeds_loop = next(n for n in fn.body if isinstance(n, ast.For) and isinstance(n.iter, ast.Name) and n.iter.id == "event_types")
        seed_roots = [r for c in _issubclass_calls(seeds_loop) for r in _roots_of(c.args[1], notes, "forward seeds")]
        out = _assign_value(fn, "output_seeds")
        out_roots = [r for c in _issubclass_calls(out) for r in _roots_of(c.args[1], notes, "output seeds")]
        seeds0 = ast.unparse(_assign_value(fn, "seeds"))
        dfs_calls = sorted((c.lineno, ast.unparse(c)) for c in ast.walk(fn) if isinstance(c, ast.Call) and isinstance(c.func, ast.Name) and c.func.id == "_dfs")
        dfs_calls_s = [s for _l, s in dfs_calls]
    except Exception as e:  # noqa: BLE001
        notes.append(f"gen/validate: build_step_graph: {e!r}")
        seed_roots, out_roots, seeds0, dfs_calls_s = [99], [99], "", []
    emit("seedRoots", "List Nat", _lean_nats(seed_roots), "event types that are forward seeds besides the start event")
    emit("outputRoots", "List Nat", _lean_nats(out_roots), "event types the reverse search starts from")
    emit("seedsInit", "String", _lean_strs([seeds0])[1:-1])
    emit("dfsCalls", "List String", _lean_strs(dfs_calls_s))

    try:
        fn = _func(tree, "_dfs")
        body = [ast.unparse(s) for s in fn.body if not (isinstance(s, ast.Expr) and isinstance(s.value, ast.Constant))]
    except Exception as e:  # noqa: BLE001
        notes.append(f"gen/validate: _dfs: {e!r}")
        body = []
    emit("dfsBody", "List String", _lean_strs(body), "statements of `_dfs` (unparsed)")

    # ---- graph checks
    try:
        fn = _func(tree, "validate_graph")
        guards = []
        for n in fn.body:
            if isinstance(n, ast.If) and isinstance(n.test, ast.Compare) and isinstance(n.test.ops[0], ast.NotIn) \
                    and isinstance(n.test.left, ast.Constant) and ast.unparse(n.test.comparators[0]) == "skip_checks":
                guards.append(n.test.left.value)
                block = n
                step_skips = sorted({c.left.value for c in ast.walk(block) if isinstance(c, ast.Compare) and isinstance(c.ops[0], ast.In)
                                     and isinstance(c.left, ast.Constant) and ast.unparse(c.comparators[0]) == "cfg.skip_graph_checks"})
                L.append(f"def stepSkipIn_{n.test.left.value} : List String := {_lean_strs(step_skips)}")
        term_block = next(n for n in fn.body if isinstance(n, ast.If) and ast.unparse(n.test) == "'terminal_event' not in skip_checks")
        term_roots = [r for c in _issubclass_calls(term_block) for r in _roots_of(c.args[1], notes, "terminal_event check")]
        appended = [ast.unparse(i.test) for n in fn.body if isinstance(n, ast.If) for i in n.body if isinstance(i, ast.If)]
    except Exception as e:  # noqa: BLE001
        notes.append(f"gen/validate: validate_graph: {e!r}")
        guards, term_roots, appended = [], [99], []
    emit("graphGuards", "List String", _lean_strs([str(g) for g in guards]), "`if \"<name>\" not in skip_checks` blocks, in source order")
    emit("terminalRoots", "List Nat", _lean_nats(term_roots), "event types that may be terminal")
    emit("graphErrorTests", "List String", _lean_strs(appended), "what makes each block append an error")

    # ---- handler budgets (the part of _collect_catch_error_handlers the handler model folds into `valid`)
    try:
        fn = _func(tree, "_collect_catch_error_handlers")
        tests = [t for _l, t in sorted((i.lineno, ast.unparse(i.test)) for i in ast.walk(fn)
                                         if isinstance(i, ast.If) and any(isinstance(s, ast.Raise) for s in i.body))]
    except Exception as e:  # noqa: BLE001
        notes.append(f"gen/validate: _collect_catch_error_handlers: {e!r}")
        tests = []
    emit("handlerRaises", "List String", _lean_strs(tests))

    # ---- check names
    try:
        dtree = ast.parse(open(repo_path(DECORATORS)).read())
        lits: dict[str, list[Any]] = {}
        for n in dtree.body:
            if isinstance(n, ast.Assign) and isinstance(n.targets[0], ast.Name) and n.targets[0].id in ("WorkflowGraphCheck", "StepGraphCheck"):
                sl = n.value.slice  # type: ignore[attr-defined]
                elts = sl.elts if isinstance(sl, ast.Tuple) else [sl]
                lits[n.targets[0].id] = [e.value for e in elts]
    except Exception as e:  # noqa: BLE001
        notes.append(f"gen/validate: decorators.py: {e!r}")
        lits = {}
    emit("workflowGraphChecks", "List String", _lean_strs([str(x) for x in lits.get("WorkflowGraphCheck", [])]))
    emit("stepGraphChecks", "List String", _lean_strs([str(x) for x in lits.get("StepGraphCheck", [])]))

    # ---- what Workflow.__init__ / _validate do around _validate_workflow
    try:
        wtree = ast.parse(open(repo_path(WORKFLOW)).read())
        cls = next(n for n in wtree.body if isinstance(n, ast.ClassDef) and n.name == "Workflow")
        init = next(n for n in cls.body if isinstance(n, ast.FunctionDef) and n.name == "__init__")
        events: list[tuple[int, str]] = []
        for c in ast.walk(init):
            if isinstance(c, ast.Call) and isinstance(c.func, ast.Name) and c.func.id in ("_ensure_start_event_class", "_ensure_stop_event_class"):
                events.append((c.lineno, c.func.id))
            if isinstance(c, ast.If) and ast.unparse(c.test) == "unknown" and any(isinstance(s, ast.Raise) for s in c.body):
                events.append((c.lineno, "raise-unknown-check"))
        init_order = [n for _l, n in sorted(events)]
        val = next(n for n in cls.body if isinstance(n, ast.FunctionDef) and n.name == "_validate")
        vcall = [ast.unparse(c) for c in ast.walk(val) if isinstance(c, ast.Call) and isinstance(c.func, ast.Name) and c.func.id == "_validate_workflow"]
        vret = [ast.unparse(a.value) for a in ast.walk(val) if isinstance(a, ast.Assign) and ast.unparse(a.targets[0]) == "self._validation_result"]
    except Exception as e:  # noqa: BLE001
        notes.append(f"gen/validate: workflow.py: {e!r}")
        init_order, vcall, vret = [], [], []
    emit("initOrder", "List String", _lean_strs(init_order), "what `Workflow.__init__` checks, in source order")
    emit("validateCall", "List String", _lean_strs(vcall))
    emit("validateReturns", "List String", _lean_strs(vret))

    L += ["", "end Gen.C23"]
    return L
