"""Scripted scheduler for real asyncio tasks.

`SLoop` is a `BaseEventLoop` that never runs by itself: callbacks scheduled with
`call_soon` (task steps, future wake-ups) pile up in `_ready` and the harness picks
which task's handle runs next, one at a time.  Each handle run is exactly one
await-free section of the task's coroutine (from one suspension point to the
next), executed by the real `asyncio.Task` / `asyncio.Future` machinery.  Part of the
trusted base (relies on CPython 3.12 private attributes `_ready`, `Handle._callback`,
`Handle._run`, `events._set_running_loop`, and on `__self__` of task step callbacks).
"""
from __future__ import annotations

import asyncio
from asyncio import events
from typing import Any


class SLoop(asyncio.BaseEventLoop):
    def __init__(self) -> None:
        super().__init__()
        self.errors: list[dict] = []
        self.set_exception_handler(lambda _loop, ctx: self.errors.append(ctx))

    def _process_events(self, event_list: Any) -> None:  # pragma: no cover - never polled
        pass

    @staticmethod
    def owner(handle: Any) -> Any:
        return getattr(handle._callback, "__self__", None)

    def handles_of(self, task: Any) -> list:
        return [h for h in self._ready if not h._cancelled and self.owner(h) is task]

    def has_ready(self, task: Any) -> bool:
        return bool(self.handles_of(task))

    def foreign_handles(self, tasks: list) -> list:
        """ready handles that belong to none of the given tasks (should not exist)"""
        ids = {id(t) for t in tasks}
        return [h for h in self._ready if not h._cancelled and id(self.owner(h)) not in ids]

    def run_one(self, task: Any) -> bool:
        """Run the oldest ready handle of `task` (one await-free section)."""
        for h in list(self._ready):
            if h._cancelled:
                self._ready.remove(h)
                continue
            if self.owner(h) is task:
                self._ready.remove(h)
                events._set_running_loop(self)
                try:
                    h._run()
                finally:
                    events._set_running_loop(None)
                return True
        return False

    def discard_all(self) -> None:
        self._ready.clear()
