import WfProofs.ArchiveWrite
import WfProofs.ArchiveInstances
/-!
# C33 — backup archives restore exactly what was backed up

Model: `WfModel/Archive.lean` (M14).  Every theorem is for **all** deployment lists with
distinct valid (DNS-1035) names, all secret maps, generation maps, passwords, all YAML/JSON
codecs satisfying the round-trip laws and all AEADs satisfying the two AEAD laws; the member
suffixes, the reader's classification chain, the password tests and the framing constants are
the ones regenerated from the source on every run (`WfModel/GenArchive.lean`).
-/
open Archive GenArchive

/-- What the hand-written parts of the model rely on, re-read from `archive.py`,
`encryption.py` and `schema/deployments.py` on every run: the manifest is written first, then per
deployment CR / secret / generation; the writer decides "encrypt" and `manifest.encrypted` with
the *same* `is not None` test and the reader refuses with `is None`; every `removesuffix` literal
is its `endswith` literal; `encrypt` draws `SALT_LENGTH` / `NONCE_LENGTH` random bytes and returns
salt‖nonce‖ciphertext; `decrypt` refuses fewer than salt+nonce+16 bytes and slices at exactly
those lengths; the key comes from PBKDF2-SHA256(password as UTF-8, salt) with the module's
iteration count and key length; nonce and no AAD go to the AEAD; deployment names are DNS-1035. -/
theorem C33_source_shape :
    manifestFirst = true ∧ writeOrder = [4, 1, 2] ∧ writeVersion = supportedVersion ∧
    manifestKeys = ["version", "timestamp", "namespace", "deployment_count", "encrypted"] ∧
    manifestKeysRead = manifestKeys ∧ countIsLenDeployments = true ∧ secretGuardIsNotNone = true ∧
    genGuard = "generations and name in generations" ∧ genKeyWrite = genKeyRead ∧ nameFromMetadata = true ∧
    manifestEncTest = 0 ∧ writeEncTest = 0 ∧ readNoPwTest = 0 ∧
    readerChain.all (fun e => e.2.1 == e.2.2.1) = true ∧ entriesFromCrFiles = true ∧ skipsNonFiles = true ∧
    encSaltLen = saltLength ∧ encNonceLen = nonceLength ∧ blobOrder = ["salt", "nonce", "ciphertext"] ∧
    minLength = saltLength + nonceLength + tagLength ∧ minLengthCmp = "Lt min_length" ∧
    (decSaltLo, decSaltHi) = (0, saltLength) ∧ (decNonceLo, decNonceHi) = (saltLength, saltLength + nonceLength) ∧
    decCtLo = saltLength + nonceLength ∧ decCtOpen = true ∧
    kdfLength = keyLength ∧ kdfIterations = pbkdf2Iterations ∧ kdfAlgorithm = "hashes.SHA256()" ∧
    kdfSaltIsSalt = true ∧ kdfPasswordEncoding = "password.encode('utf-8')" ∧ keyFromPasswordAndSalt = true ∧
    sealArgs = ["nonce", "plaintext", "None"] ∧ openArgs = ["nonce", "ciphertext", "None"] ∧
    saltLength = 16 ∧ nonceLength = 12 ∧ keyLength = 32 ∧ pbkdf2Iterations = 600000 ∧ tagLength = 16 ∧
    dns1035Regex = "^[a-z]([a-z0-9-]{0,61}[a-z0-9])?$" := by decide

/-- The archive layer has no size-dependent behaviour (re-read from `archive.py` on every run): neither the writer,
the reader nor `_add_bytes_to_tar` tests a length or a tar member's size or reads a bounded number of bytes, and the
module defines / mentions no integer that could be a size bound.  This is what entitles the model to treat member
contents as opaque values of *any* length: `C33_roundtrip` quantifies over all codecs' outputs, so with this fact it
speaks about secrets and resources of every size (a reader that skipped or cut "too large" members would make the
round trip fail exactly for those, which the model cannot see from the inside). -/
theorem C33_size_agnostic : sizeTests = [] ∧ sizeConstants = [] := by decide

/-! ## classification -/

/-- For every valid deployment name, each of the four member names the writer can build from it
is classified by the reader's chain into exactly its own category, with exactly that deployment
name; the manifest name is classified as the manifest.  (Needs: valid names have no dot; the
order of the suffix tests.) -/
theorem C33_classification_names (n : Name) (h : validName n = true) :
    classify (n ++ crSuffix) = some (.cr, n) ∧
    classify (n ++ secEncSuffix) = some (.secEnc, n) ∧
    classify (n ++ secClearSuffix) = some (.secClear, n) ∧
    classify (n ++ metaSuffix) = some (.gmeta, n) ∧
    classify manifestName = some (.manifest, manifestName) :=
  have hd := validName_dotfree h
  ⟨classify_cr hd, classify_secEnc hd, classify_secClear hd, classify_meta hd, classify_manifest⟩

/-- Every member of every written archive is classified back into the category and the
deployment it came from — none is ignored, none is taken for something else. -/
theorem C33_classification_total {Y : Type} (A : Aead) (C : Codec Y) (pw : Option Bytes)
    (rnd : Nat → Bytes × Bytes) (b : Backup Y) (hb : b.wf) :
    ∀ t ∈ writeTagged A C pw rnd b, classify t.member.1 = some (t.cat, t.dep) := by
  intro t ht
  simp only [writeTagged, List.mem_cons] at ht
  rcases ht with rfl | ht
  · exact classify_manifest
  · obtain ⟨d, hd, k', hk'⟩ := mem_writeDeps _ _ ht
    have hdot := validName_dotfree (hb.1 d hd)
    rcases mem_writeDep hk' with rfl | ⟨g, _, rfl⟩ | ⟨s, p, _, _, rfl⟩ | ⟨s, _, _, rfl⟩
    · exact classify_cr hdot
    · exact classify_meta hdot
    · exact classify_secEnc hdot
    · exact classify_secClear hdot

/-- non-vacuity: a 63-character name, a name ending in `secret`, one ending in `-yaml`; and the
dot matters — `x.secret` is not a valid name, and its CR member would be taken for a secret. -/
example :
    validName ("a23456789012345678901234567890123456789012345678901234567890-b3".toList) = true ∧
    validName "my-secret".toList = true ∧ validName "meta-json-yaml".toList = true ∧
    validName "x.secret".toList = false ∧ validName "Ab".toList = false ∧ validName "a-".toList = false ∧
    classify ("x.secret".toList ++ crSuffix) = some (.secClear, "x".toList) ∧
    classify "README.md".toList = none := by decide

/-! ## manifest -/

/-- `manifest.encrypted` ⇔ a password was given ⇔ secrets are stored encrypted: with a password
no member is a clear-text secret and every secret member is `encrypt password salt nonce (yaml secret)`
of that deployment's secret; without one no member is an encrypted secret.  The manifest is the
first member. -/
theorem C33_manifest_consistent {Y : Type} (A : Aead) (C : Codec Y) (pw : Option Bytes)
    (rnd : Nat → Bytes × Bytes) (b : Backup Y) :
    (write A C pw rnd b).head? = some (manifestName, C.encManifest (manifestOf pw b)) ∧
    (manifestOf pw b).encrypted = pw.isSome ∧ (manifestOf pw b).count = b.deps.length ∧
    ∀ t ∈ writeTagged A C pw rnd b,
      (t.cat = .secClear → pw = none ∧ ∃ s, alookup t.dep b.secrets = some s ∧ t.member.2 = C.encY s) ∧
      (t.cat = .secEnc → ∃ p k s, pw = some p ∧ alookup t.dep b.secrets = some s ∧
        t.member.2 = encrypt A p (rnd k).1 (rnd k).2 (C.encY s)) := by
  have hpw : ∀ q : Option Bytes, encPw 0 q = q := by intro q; cases q <;> rfl
  refine ⟨rfl, ?_, rfl, ?_⟩
  · show (encPw manifestEncTest pw).isSome = pw.isSome
    have : manifestEncTest = 0 := rfl
    rw [this, hpw]
  · intro t ht
    simp only [writeTagged, List.mem_cons] at ht
    rcases ht with rfl | ht
    · exact ⟨fun h => (by cases h), fun h => (by cases h)⟩
    · obtain ⟨d, hd, k', hk'⟩ := mem_writeDeps _ _ ht
      have hw : writeEncTest = 0 := rfl
      rcases mem_writeDep hk' with rfl | ⟨g, _, rfl⟩ | ⟨s, p, hs, hp, rfl⟩ | ⟨s, hs, hp, rfl⟩
      · exact ⟨fun h => (by cases h), fun h => (by cases h)⟩
      · exact ⟨fun h => (by cases h), fun h => (by cases h)⟩
      · rw [hw, hpw] at hp
        exact ⟨fun h => (by cases h), fun _ => ⟨p, k', s, hp, hs, rfl⟩⟩
      · rw [hw, hpw] at hp
        exact ⟨fun _ => ⟨hp, s, hs, rfl⟩, fun h => (by cases h)⟩

/-! ## round trip -/

/-- `read (write x) = x`, with or without encryption (`pw = none` / `some p`, the empty password
included): the manifest that was written, and one entry per deployment, in order, carrying its
name, its resource, exactly its secret (or none) and exactly its generation (or none). -/
theorem C33_roundtrip {Y : Type} (A : Aead) (hA : A.Lawful) (C : Codec Y) (hC : C.Lawful)
    (pw : Option Bytes) (rnd : Nat → Bytes × Bytes) (hr : rndWf rnd) (b : Backup Y) (hb : b.wf) :
    read A C pw (write A C pw rnd b) = .ok ⟨manifestOf pw b, expectedEntries b⟩ :=
  read_write hA hC pw pw hr b hb.wfDot (fun _ _ => Or.inr (Or.inr rfl))

/-- An archive written without a password restores under any reader password. -/
theorem C33_roundtrip_clear_any_reader {Y : Type} (A : Aead) (hA : A.Lawful) (C : Codec Y) (hC : C.Lawful)
    (rpw : Option Bytes) (rnd : Nat → Bytes × Bytes) (hr : rndWf rnd) (b : Backup Y) (hb : b.wf) :
    read A C rpw (write A C none rnd b) = .ok ⟨manifestOf none b, expectedEntries b⟩ :=
  read_write hA hC none rpw hr b hb.wfDot (fun _ _ => Or.inr (Or.inl rfl))

/-- non-vacuity: the hypotheses are satisfiable (a lawful AEAD, a lawful codec, well-formed
randomness) and the statement is about non-trivial data: three deployments (one without a
`metadata.name`), two secrets, one stray secret, generations for two; encrypted with the empty
password; four entries come back and the second carries its secret and generation. -/
example :
    prefixAead.Lawful ∧ tokenCodec.Lawful ∧ rndWf (fun k => (List.replicate 16 k, List.replicate 12 (k + 1))) ∧
    let b : Backup Nat :=
      { deps := [(some "web".toList, 10), (some "web-secret".toList, 11), (none, 12), (some "z9".toList, 13)],
        secrets := [("web-secret".toList, 21), ("ghost".toList, 22), ("unknown".toList, 23)],
        gens := some [("web-secret".toList, 7), ("z9".toList, 0)], «namespace» := [110, 115], timestamp := [116] }
    b.wf ∧
    (okOf (read prefixAead tokenCodec (some [])
        (write prefixAead tokenCodec (some []) (fun k => (List.replicate 16 k, List.replicate 12 (k + 1))) b))).map
      (fun r => (r.manifest.encrypted, r.entries.map (fun e => (e.cr, e.secret, e.generation)))) =
        some (true, [(10, none, none), (11, some 21, some 7), (12, some 23, none), (13, none, some 0)]) := by
  refine ⟨prefixAead_lawful, tokenCodec_lawful, fun k => ⟨by simp; rfl, by simp; rfl⟩, ?_, by decide⟩
  constructor
  · decide
  · decide

/-! ## wrong password -/

/-- Reading an encrypted archive with a *different* password never yields a secret: if any
deployment has a secret the read fails with `InvalidTag`; it succeeds only when there is no
secret in the backup at all (and then every entry's secret is none). -/
theorem C33_wrong_password {Y : Type} (A : Aead) (hA : A.Lawful) (C : Codec Y) (hC : C.Lawful)
    (pw pw' : Bytes) (hne : pw' ≠ pw) (rnd : Nat → Bytes × Bytes) (hr : rndWf rnd) (b : Backup Y) (hb : b.wf) :
    ((∃ d ∈ b.deps, secretOf b d ≠ none) →
      read A C (some pw') (write A C (some pw) rnd b) = .error .invalidTag) ∧
    (∀ r, read A C (some pw') (write A C (some pw) rnd b) = .ok r →
      (∀ d ∈ b.deps, secretOf b d = none) ∧ ∀ e ∈ r.entries, e.secret = none) := by
  have hfail : (∃ d ∈ b.deps, secretOf b d ≠ none) →
      read A C (some pw') (write A C (some pw) rnd b) = .error .invalidTag := fun hex =>
    read_write_fail hA hC pw (some pw') hr b hb.wfDot .invalidTag rfl
      (fun st n k x hdot => readMember_wrong_pw hA pw pw' hne hr rfl st n k x hdot) hex
  refine ⟨hfail, ?_⟩
  intro r hrd
  have hnone : ∀ d ∈ b.deps, secretOf b d = none := by
    intro d hd
    cases hs : secretOf b d with
    | none => rfl
    | some s =>
      have := hfail ⟨d, hd, by rw [hs]; exact fun h => by cases h⟩
      rw [this] at hrd; cases hrd
  refine ⟨hnone, ?_⟩
  have hok := read_write hA hC (some pw) (some pw') hr b hb.wfDot (fun d hd => Or.inl (hnone d hd))
  rw [hok] at hrd
  cases hrd
  intro e he
  simp only [expectedEntries, List.mem_map] at he
  obtain ⟨d, hd, rfl⟩ := he
  exact hnone d hd

/-- Reading an encrypted archive with no password fails ("no password provided") as soon as a
secret is in it. -/
theorem C33_no_password {Y : Type} (A : Aead) (hA : A.Lawful) (C : Codec Y) (hC : C.Lawful)
    (pw : Bytes) (rnd : Nat → Bytes × Bytes) (hr : rndWf rnd) (b : Backup Y) (hb : b.wf)
    (hex : ∃ d ∈ b.deps, secretOf b d ≠ none) :
    read A C none (write A C (some pw) rnd b) = .error .noPassword :=
  read_write_fail hA hC pw none hr b hb.wfDot .noPassword rfl
    (fun st n k x hdot => readMember_no_pw pw rfl st n k x hdot) hex

/-- non-vacuity: encrypted with the empty password, read with `"x"` and with none. -/
example :
    let b : Backup Nat :=
      { deps := [(some "web".toList, 10), (some "db".toList, 11)], secrets := [("db".toList, 21)],
        gens := none, «namespace» := [], timestamp := [] }
    let rnd : Nat → Bytes × Bytes := fun k => (List.replicate 16 k, List.replicate 12 (k + 1))
    b.wf ∧ (∃ d ∈ b.deps, secretOf b d ≠ none) ∧
    errOf (read prefixAead tokenCodec (some [120]) (write prefixAead tokenCodec (some []) rnd b)) = some .invalidTag ∧
    errOf (read prefixAead tokenCodec none (write prefixAead tokenCodec (some []) rnd b)) = some .noPassword := by
  refine ⟨⟨by decide, by decide⟩, ⟨(some "db".toList, 11), by decide, by decide⟩, by decide, by decide⟩

/-! ## framing of encryption.py -/

/-- `decrypt pw (encrypt pw salt nonce m) = m` for `os.urandom` results of the requested sizes,
and `InvalidTag` under any other password; anything shorter than salt+nonce+tag is refused
before the AEAD is consulted. -/
theorem C33_framing (A : Aead) (hA : A.Lawful) (pw salt nonce m : Bytes)
    (hs : salt.length = saltLength) (hn : nonce.length = nonceLength) :
    decrypt A pw (encrypt A pw salt nonce m) = .ok m ∧
    (∀ pw', pw' ≠ pw → decrypt A pw' (encrypt A pw salt nonce m) = .error .invalidTag) ∧
    (encrypt A pw salt nonce m).length = saltLength + nonceLength + (A.lock pw salt nonce m).length ∧
    (∀ data : Bytes, data.length < saltLength + nonceLength + tagLength → decrypt A pw data = .error .tooShort) := by
  refine ⟨decrypt_encrypt hA pw salt nonce m hs hn,
    fun pw' hne => decrypt_encrypt_wrong hA pw pw' salt nonce m hne hs hn, ?_, ?_⟩
  · simp [encrypt, hs, hn]; omega
  · intro data hlt
    have : minLength = saltLength + nonceLength + tagLength := by decide
    simp [decrypt, this, hlt]

example : prefixAead.Lawful ∧
    okOf (decrypt prefixAead [112, 119]
      (encrypt prefixAead [112, 119] (List.replicate 16 7) (List.replicate 12 9) [1, 2, 3])) = some [1, 2, 3] ∧
    errOf (decrypt prefixAead []
      (encrypt prefixAead [112, 119] (List.replicate 16 7) (List.replicate 12 9) [1, 2, 3])) = some .invalidTag ∧
    errOf (decrypt prefixAead [112, 119] (List.replicate 43 0)) = some .tooShort :=
  ⟨prefixAead_lawful, by decide, by decide, by decide⟩
