import WfProofs.LifecycleSafe
import WfModel.GenLifecycleShape
import WfProofs.LifecycleRow
import WfProofs.LifecycleCoarse
import WfProofs.LifecycleTicks
import WfProps.C03
/-!
# C26 — idle release and resume never lose an event or double-run a workflow

Model M7 (`WfModel/Lifecycle.lean`).  (A) the in-process `IdleReleaseDecorator`: schedules are
arbitrary lists of the code's await-free sections, for any number of concurrent senders and
deferred-release tasks, interleaved with an engine that can do anything the reducer-level
soundness of idle announcements (C03_idle_reducer_sound) permits.  (B) the DBOS lifecycle row and
the release / resume protocol around it, any number of releasers and resumers, releaser crashes
anywhere.

What holds for every schedule: at most one live control loop, no failing reload / delivery, every
tick is in exactly one place (`C26_single_loop`, `C26_tick_accounting`), CAS wins alternate
(`C26_cas_unique_owner`), takeovers only after the crash timeout (`C26_crash_timeout`).
What needs a hypothesis: nothing is lost and the run is released only when quiet
(`C26_no_lost_send`, `C26_released_only_when_quiet`) **if** idleness is announced only when truly
idle (`idleSoundAt` = C03's statement, refuted there) **and** no announcement lands inside a lock
holder's clear-then-deliver / query-then-decide window (`windowFreeAt`).  Both hypotheses are
necessary: `C26_refuted_premature_idle` (F14, a consequence of C03's findings) and
`C26_refuted_send_window` (a truthful announcement between a sender's `idle_since` clear and its
delivery) — both replay on the real server stack.
-/
set_option linter.unusedVariables false
open Lifecycle

/-- The sources the model's atomic actions are cut along, re-read on every run: `send_event` and
`_release_idle_handler` are single `async with self._reload_lock(run_id)` sections; a sender clears
`idle_since` (or reloads: active test, query, `context_from_ticks`, `workflow.run` + `_active_run_ids.add`,
clear) **before** it delivers; the idle announcement writes `idle_since` first and spawns the
deferred release last, outside the lock; `run_workflow` adds the run to the active set. -/
theorem C26_source_shape :
    GenLifecycleShape.shape_ir_send =
      ["with(self._runtime._reload_lock)", "if(NotIn;_active_run_ids,_runtime,run_id)",
       "await(self._runtime._ensure_active_run_locked)", "else",
       "await(self._runtime._store.update_handler_status;idle_since=None)", "endif",
       "await(self._decorated.send_event)", "endwith"] ∧
    GenLifecycleShape.shape_ir_reload =
      ["if(In;_active_run_ids)", "return", "endif", "await(self._store.query)", "if(NotEq;)", "raise", "endif",
       -- (repair 0a15aa0) a run whose stored status is terminal is not reloaded; runs of this model never end,
       -- so the early return has no counterpart among the model's actions
       "call(_)", "if(;status,_)", "return", "endif",
       "call(self._persistence.get_tracked_workflow)", "if(Is;None)", "raise", "endif",
       "await(self._persistence.context_from_ticks)", "call(_.run)", "call(self._active_run_ids.add)",
       "await(self._store.update_handler_status;idle_since=None)"] ∧
    GenLifecycleShape.shape_ir_write =
      ["if(;WorkflowIdleEvent)", "call(datetime.now)",
       "await(self._store.update_handler_status;status='running',idle_since=*)", "endif", "call(super)",
       "await(super().write_to_event_stream)", "if(;WorkflowIdleEvent)", "call(self._runtime._deferred_release)",
       "call(self._runtime._spawn_task)", "endif"] ∧
    GenLifecycleShape.shape_ir_run_workflow =
      ["call(self._active_run_ids.add)", "call(super().run_workflow)", "call(super)", "return"] := by decide

/-! ## (A) in-process -/

/-- **single loop**: along every schedule, control loops started = control loops aborted + (1 if one is
registered), the active set says exactly whether one is registered, and neither error branch of
`send_event` (run id already registered / not registered) is ever taken.  So at no time are two
control loops of the run alive, and a reload never starts a loop beside a live one. -/
theorem C26_single_loop (tau : Nat) (acts : List Act) :
    let s := run (init tau) acts
    s.started = s.aborted + (if s.cur.isSome then 1 else 0) ∧ s.active = s.cur.isSome ∧ s.errs = 0 := by
  have h := Inv.run (init tau) acts (Inv.init tau)
  exact ⟨h.count, h.act, h.errs⟩

/-- non-vacuity: idle announcement, release at the timeout, two concurrent senders — the first reloads,
the second (queued behind the lock) finds the run active and only clears and delivers -/
def C26.exActs : List Act :=
  [.eDone, .eMark, .eSpawn 0, .advance 200, .tAcq 0, .tQuery 0, .tDecide 0,
   .sCall 1, .sCall 2, .sAcq 1, .sAcq 2, .sQuery 1, .sLog 1, .sStart 1, .sRClear 1, .sDeliver 1,
   .sAcq 2, .sClear 2, .sDeliver 2, .ePull, .eReduce, .ePull]

example :
    let s := run (init 200) C26.exActs
    s.started = 2 ∧ s.aborted = 1 ∧ s.cur.map (·.inc) = some 1 ∧ s.cur.map (·.mailbox) = some [] ∧
      s.cur.map (·.buf) = some [2] ∧ s.log = [1] ∧ s.lost = [] ∧ s.busyReleases = 0 := by decide

/-- **accounting**: along every schedule every tick ever put into a mailbox (external or internal)
is in exactly one place — persisted, in the registered loop's memory (tick buffer or mailbox), or
counted as lost by a release — and a `send_event` call that has returned has put its tick. -/
theorem C26_tick_accounting (tau : Nat) (acts : List Act) :
    let s := run (init tau) acts
    List.Perm s.sent (s.log ++ s.inMem ++ s.lost) ∧ ∀ i, s.senders i = .done → i ∈ s.sent := by
  exact ⟨(Acct.run (init tau) acts (Acct.init tau)).perm, DoneSent.run acts (init tau) (DoneSent.init tau)⟩

/-- **no lost send** (partial: under `IdleSound` = C03 and `WindowFree`): nothing is ever dropped by
a release, so every tick whose `send_event` has returned is persisted or waits in the memory of the
*registered, live* loop (and while the run is released every one of them is persisted). -/
theorem C26_no_lost_send (tau : Nat) (acts : List Act)
    (hIdle : Along idleSoundAt (init tau) acts) (hWin : Along windowFreeAt (init tau) acts) :
    let s := run (init tau) acts
    s.lost = [] ∧ (∀ i, s.senders i = .done → i ∈ s.log ∨ i ∈ s.inMem) ∧ (s.cur = none → ∀ i, s.senders i = .done → i ∈ s.log) := by
  intro s
  have hs := Safe.run acts (init tau) (Safe.init tau) (Inv.init tau) hIdle hWin
  have hp := (C26_tick_accounting tau acts).1
  have hd := (C26_tick_accounting tau acts).2
  have hmem : ∀ i, s.senders i = .done → i ∈ s.log ∨ i ∈ s.inMem := by
    intro i hi
    have := hp.subset (hd i hi)
    rw [show s.lost = [] from hs.lost] at this
    simpa using this
  refine ⟨hs.lost, hmem, ?_⟩
  intro hc i hi
  rcases hmem i hi with h | h
  · exact h
  · simp [S.inMem, hc] at h

/-- **released only when quiet** (same hypotheses): every release found the run with no
reducer-visible work, no pending delayed retry, an empty tick buffer and an empty mailbox. -/
theorem C26_released_only_when_quiet (tau : Nat) (acts : List Act)
    (hIdle : Along idleSoundAt (init tau) acts) (hWin : Along windowFreeAt (init tau) acts) :
    (run (init tau) acts).busyReleases = 0 :=
  (Safe.run acts (init tau) (Safe.init tau) (Inv.init tau) hIdle hWin).busy

/-- **stock stores** (`MemoryWorkflowStore`, `SqliteWorkflowStore`: no store call ever suspends, so inside a lock
section every `idle_since` access is immediately followed by the action that uses it — `coarse` schedules):
`WindowFree` holds by construction, and truthful idle announcements (C03) alone give: nothing lost, released only
when quiet, never early. -/
theorem C26_no_lost_send_atomic_store (tau : Nat) (acts : List Act) (hc : coarse acts = true)
    (hIdle : Along idleSoundAt (init tau) acts) :
    (run (init tau) acts).lost = [] ∧ (run (init tau) acts).busyReleases = 0 ∧ (run (init tau) acts).earlyReleases = 0 ∧
    Along windowFreeAt (init tau) acts := by
  have hs := coarse_safe tau acts hc hIdle
  exact ⟨hs.lost, hs.busy, hs.early, coarse_windowFree acts (init tau) hc (by simp [Lifecycle.init, S.inWindow])⟩

/-- non-vacuity: the release / reload / second-sender schedule above is such a schedule, with truthful announcements -/
example : coarse C26.exActs = true ∧ Along idleSoundAt (init 200) C26.exActs := by decide

/-- the unconditional form of the two theorems above -/
def C26_no_lost_send_statement : Prop :=
  ∀ (tau : Nat) (acts : List Act), (run (init tau) acts).lost = [] ∧ (run (init tau) acts).busyReleases = 0

/-- F14: step `a` did `ctx.send_event(X)` and finished; idleness is announced while `X` is still in the
mailbox (C03/idle_with_undelivered_event); `b` handles `X` for longer than `idle_timeout`; the
deferred release finds `idle_since` set, the timeout elapsed, the run active — and aborts a working run. -/
def C26.f14Acts : List Act :=
  [.ePut 5, .eDone, .eMark, .eSpawn 0, .ePull, .eReduce, .advance 200, .tAcq 0, .tQuery 0, .tDecide 0]

theorem C26_refuted_premature_idle :
    (run (init 200) C26.f14Acts).busyReleases = 1 ∧ (run (init 200) C26.f14Acts).cur = none ∧
    (run (init 200) C26.f14Acts).work = true ∧ ¬ Along idleSoundAt (init 200) C26.f14Acts ∧
    Along windowFreeAt (init 200) C26.f14Acts := by decide

/-- a variant that loses the tick itself: the release hits while `X` is pulled but not yet persisted -/
theorem C26_refuted_premature_idle_lost :
    (run (init 200) [.ePut 5, .eDone, .eMark, .eSpawn 0, .advance 200, .ePull, .tAcq 0, .tQuery 0, .tDecide 0]).lost = [5] := by
  decide

/-- the send window: every announcement is truthful (`idleSoundAt` holds all along), but the
engine finishes tick 1 and announces idleness after sender 2 has cleared `idle_since` and before it
delivers; the stale `idle_since` outlives the delivery and the release aborts the run while it works on 2. -/
def C26.windowActs : List Act :=
  [.eDone, .eMark, .eSpawn 0, .advance 50, .sCall 1, .sAcq 1, .sClear 1, .sDeliver 1, .ePull, .eReduce,
   .advance 50, .sCall 2, .sAcq 2, .sClear 2, .advance 50, .eDone, .eMark, .eSpawn 1, .sDeliver 2, .ePull, .eReduce,
   .advance 50, .tAcq 0, .tQuery 0, .tDecide 0, .advance 150, .tAcq 1, .tQuery 1, .tDecide 1]

theorem C26_refuted_send_window :
    Along idleSoundAt (init 200) C26.windowActs ∧ ¬ Along windowFreeAt (init 200) C26.windowActs ∧
    (run (init 200) C26.windowActs).busyReleases = 1 ∧ (run (init 200) C26.windowActs).work = true ∧
    (run (init 200) C26.windowActs).cur = none ∧ (run (init 200) C26.windowActs).log = [1, 2] := by decide

theorem C26_refuted : ¬ C26_no_lost_send_statement := by
  intro h
  have := (h 200 C26.f14Acts).2
  rw [C26_refuted_premature_idle.1] at this
  cases this

/-- `idleSoundAt` is C03's idle-soundness statement read through the abstraction: for a runner of the
engine model M1, "truly idle" (C03.TrulyIdle: no `TickAddEvent` in the timer heap, the mailbox or
the buffer) is what `Loop.quiet` says of the abstract loop that holds exactly those ticks. -/
def C26.absLoop (r : Engine.Runner) : Loop :=
  { inc := 0, start := [],
    mailbox := (r.mailbox.filter C03.isAddEvent).map (fun _ => 0),
    buf := (r.buf.filter C03.isAddEvent).map (fun _ => 0),
    retry := (r.heap.filter (fun t => C03.isAddEvent t.tick)).length }

theorem C26_idleSound_is_C03 (r : Engine.Runner) : C03.TrulyIdle r = (C26.absLoop r).quiet := by
  simp only [C03.TrulyIdle, Loop.quiet, C26.absLoop, List.isEmpty_map]
  have e1 : ∀ (l : List Engine.Tick), (!(l.any C03.isAddEvent)) = (l.filter C03.isAddEvent).isEmpty := by
    intro l; induction l with
    | nil => rfl
    | cons a as ih => cases h : C03.isAddEvent a <;> simp [List.filter, h, ih]
  have e2 : (!(r.heap.any fun t => C03.isAddEvent t.tick)) =
      ((r.heap.filter (fun t => C03.isAddEvent t.tick)).length == 0) := by
    induction r.heap with
    | nil => rfl
    | cons a as ih => cases h : C03.isAddEvent a.tick <;> simp [List.filter, h, ih]
  rw [e1, e1, e2, Bool.and_assoc, Bool.and_comm ((List.filter (fun t => C03.isAddEvent t.tick) r.heap).length == 0), Bool.and_assoc]

/-! ## (B) the DBOS lifecycle lock -/

/-- The state names, the CAS statements of both lock classes and their bound states, as the code has them now. -/
theorem C26_lifecycle_constants :
    GenLifecycle.stateNames = ["active", "releasing", "released"] ∧
    GenLifecycle.stateValues = ["active", "releasing", "released"] ∧
    GenLifecycleShape.tableName = "run_lifecycle" ∧
    -- SQLite
    GenLifecycleShape.sqlite_begin_sql = "UPDATE T SET state = ?, updated_at = ? WHERE run_id = ? AND state = ?" ∧
    (GenLifecycleShape.sqlite_begin_from, GenLifecycleShape.sqlite_begin_to) = ("active", "releasing") ∧
    GenLifecycleShape.sqlite_complete_sql = "UPDATE T SET state = ?, updated_at = ? WHERE run_id = ? AND state = ?" ∧
    (GenLifecycleShape.sqlite_complete_from, GenLifecycleShape.sqlite_complete_to) = ("releasing", "released") ∧
    (GenLifecycleShape.sqlite_create_from, GenLifecycleShape.sqlite_create_to) = ("none", "active") ∧
    GenLifecycleShape.sqlite_resume_select = "SELECT state, updated_at FROM T WHERE run_id = ?" ∧
    GenLifecycleShape.sqlite_resume_update = "UPDATE T SET state = ?, updated_at = ? WHERE run_id = ?" ∧
    (GenLifecycleShape.sqlite_resume_to, GenLifecycleShape.sqlite_resume_pred, GenLifecycleShape.sqlite_resume_cmp) = ("active", "none", "Gt") ∧
    (GenLifecycleShape.sqlite_resume_noRowNone, GenLifecycleShape.sqlite_resume_passIfActive, GenLifecycleShape.sqlite_resume_takeIfReleased) = (true, true, true) ∧
    (GenLifecycleShape.sqlite_resume_returnsWin, GenLifecycleShape.sqlite_resume_returnsBusy) = ("released", "releasing") ∧
    GenLifecycleShape.sqlite_shape_begin.head? = some "with(self._lock)" ∧ GenLifecycleShape.sqlite_shape_resume.head? = some "with(self._lock)" ∧
    -- PostgreSQL: the same transitions; the resume is SELECT … FOR UPDATE + UPDATE inside one transaction
    GenLifecycleShape.pg_begin_sql = "UPDATE T SET state = $1, updated_at = $2 WHERE run_id = $3 AND state = $4 RETURNING run_id" ∧
    (GenLifecycleShape.pg_begin_from, GenLifecycleShape.pg_begin_to) = ("active", "releasing") ∧
    (GenLifecycleShape.pg_complete_from, GenLifecycleShape.pg_complete_to) = ("releasing", "released") ∧
    (GenLifecycleShape.pg_create_from, GenLifecycleShape.pg_create_to) = ("none", "active") ∧
    GenLifecycleShape.pg_resume_forUpdate = true ∧
    (GenLifecycleShape.pg_resume_to, GenLifecycleShape.pg_resume_pred, GenLifecycleShape.pg_resume_cmp) = ("active", "none", "Gt") ∧
    (GenLifecycleShape.pg_resume_noRowNone, GenLifecycleShape.pg_resume_passIfActive, GenLifecycleShape.pg_resume_takeIfReleased) = (true, true, true) ∧
    (GenLifecycleShape.pg_resume_returnsWin, GenLifecycleShape.pg_resume_returnsBusy) = ("released", "releasing") ∧
    GenLifecycleShape.pg_shape_resume.take 3 = ["with(self._pool.acquire)", "with(_.transaction)", "await(_.fetchrow)"] ∧
    -- the decorator
    GenLifecycle.crashTimeoutMs = 120000 ∧ GenLifecycleShape.pollMs = 500 ∧
    GenLifecycleShape.shape_dbos_send =
      ["await(self._runtime._get_lifecycle)", "loop", "await(_.try_begin_resume;crash_timeout_seconds=CRASH_TIMEOUT_SECONDS)",
       "if(Is;None)", "await(self._decorated.send_event)", "return", "endif", "if(Eq;released)",
       "await(self._runtime._do_resume;pending_tick=*)", "return", "endif", "await(asyncio.sleep)", "endloop"] ∧
    GenLifecycleShape.shape_dbos_release =
      ["await(self._get_lifecycle)", "await(_.begin_release)", "if(Not;begin_release,_.begin_release)", "return", "endif",
       "call(self._decorated.get_external_adapter)", "await(_.send_event)", "call(self._await_and_mark_released)",
       "call(self._spawn_task)"] ∧
    GenLifecycleShape.shape_dbos_mark_released =
      ["try", "await(_.get_result)", "await(self._get_lifecycle)", "await(_.complete_release)", "call(datetime.now)",
       "await(self._store.update_handler_status;status='running',idle_since=*)", "except", "endtry"] := by decide

/-- **unique owner**: along every schedule of releasers, resumers and crashes,
* the row-changing CAS wins strictly alternate between release wins (`active → releasing`) and activating
  wins (`create`, `released → active`, takeover) — between two resume winners there is exactly one
  release winner and vice versa, so each transition has exactly one winner;
* the newest win is a release win iff the row is not `active`, and there is no win iff there is no row;
* while the row says `releasing`, exactly one releaser is recorded as its holder and that releaser is
  inside the release it began at the row's `updated_at`;
and a CAS that does not win changes nothing; the two-statement form of `try_begin_resume` (SELECT, then
UPDATE without a state predicate) equals the atomic one as long as nothing touches the row in between
(keyed lock in-process / `FOR UPDATE` row lock). -/
theorem C26_cas_unique_owner (acts : List BAct) :
    let s := brun {} acts
    altWins s.wins = true ∧
    headRel s.wins = (match s.db with | none => none | some r => some (decide (r.st ≠ .active))) ∧
    (∀ r, s.db = some r → r.st = .releasing →
      ∃ i, s.holder = some i ∧ relAt s.rel i r.upd = true) ∧
    (∀ (db : DB) (now : Nat), (dbBeginRelease db now).2 = false → (dbBeginRelease db now).1 = db) ∧
    (∀ (db : DB) (now : Nat) (ct : Option Nat), (dbTryBeginResume db now ct).2 ≠ some .released → (dbTryBeginResume db now ct).1 = db) ∧
    (∀ (db : DB) (now : Nat) (ct : Option Nat), dbTryBeginResumeTwoStatements db now ct = dbTryBeginResume db now ct) := by
  intro s
  have h := BInv.run acts {} BInv.init
  refine ⟨h.alt, h.hd, ?_, ?_, ?_, tryBeginResume_twoStatements⟩
  · intro r h1 h2
    have := h.rinv r h1 h2
    cases hh : (brun {} acts).holder with
    | none => rw [hh] at this; cases this
    | some i => rw [hh] at this; exact ⟨i, rfl, this⟩
  · intro db now hb
    unfold dbBeginRelease at hb ⊢
    cases db with
    | none => rfl
    | some r => simp only at hb ⊢; split <;> simp_all
  · intro db now ct hb
    unfold dbTryBeginResume at hb ⊢
    cases db with
    | none => rfl
    | some r => simp only at hb ⊢; repeat' split <;> simp_all

/-- non-vacuity: create, a release that completes, three resumers of which exactly one wins -/
example :
    let s := brun {} [.create, .rSpawn 0, .rSpawn 1, .rBegin 0, .rBegin 1, .rSend 0, .wfStep, .rComplete 0,
                      .uSpawn 1, .uSpawn 2, .uSpawn 3, .uTry 2, .uTry 1, .uTry 3]
    s.wins = [.resume 2 false, .release 0, .created] ∧ s.res 1 = .pass ∧ s.res 2 = .owner ∧ s.res 3 = .pass ∧
      s.rel 0 = .done ∧ s.rel 1 = .lostCas := by decide

/-- **crash timeout**: (a) a row stuck in `releasing` is taken over only when strictly more than
`CRASH_TIMEOUT_SECONDS` have passed since the release began; (b) if live releasers never hold `releasing`
that long (`promptAt` along the schedule), every releaser that was taken over had crashed; (c) once the
timeout has expired, the next `try_begin_resume` of any waiting sender wins.
Not part of the model's claim: that the superseded release's workflow has stopped — `_do_resume` awaits
the old DBOS workflow handle (and continues on failure); the model enables `uFinish` only when no workflow
is up (assumption `OldWorkflowFinished`, trusted: DBOS is absent). -/
theorem C26_crash_timeout (acts : List BAct) :
    let s := brun {} acts
    (∀ k ∈ s.takeovers, k.at_ - k.began > 120000) ∧
    (balongB promptAt {} acts = true → ∀ k ∈ s.takeovers, k.wasCrashed = true) ∧
    (∀ (s0 : Sys) (u k : Nat), s0.db = some ⟨.releasing, u⟩ → s0.now - u > 120000 →
      (s0.res k = .start ∨ s0.res k = .waiting) →
      (bstepD s0 (.uTry k)).res k = .owner ∧ (bstepD s0 (.uTry k)).db = some ⟨.active, s0.now⟩) := by
  intro s
  have h := BInv.run acts {} BInv.init
  refine ⟨?_, ?_, ?_⟩
  · intro k hk
    have := h.tk k hk
    simpa [crashExpired_eq, crashTimeout, GenLifecycle.crashTimeoutMs] using this
  · intro hp
    exact TkCrashed.run acts {} (by intro k hk; cases hk) BInv.init hp
  · intro s0 u k hdb hx hr
    have hx' : GenLifecycle.crashExpired (s0.now - u) crashTimeout = true := by
      simp [crashExpired_eq, crashTimeout, GenLifecycle.crashTimeoutMs]; omega
    have hr' : (s0.res k == UPc.start || s0.res k == UPc.waiting) = true := by
      rcases hr with e | e <;> simp [e]
    simp [bstepD, bstep, hdb, dbTryBeginResume, hx', hr']

/-- non-vacuity: a releaser crashes after winning; a resumer polls, is refused before the timeout and takes over after it -/
example :
    let s := brun {} [.create, .rSpawn 0, .rBegin 0, .rCrash 0, .uSpawn 1, .tick 120000, .uTry 1, .tick 1, .uTry 1]
    s.res 1 = .owner ∧ s.takeovers = [{ releaser := 0, began := 0, at_ := 120001, wasCrashed := true }] ∧
      balongB promptAt {} [.create, .rSpawn 0, .rBegin 0, .rCrash 0, .uSpawn 1, .tick 120000, .uTry 1, .tick 1, .uTry 1] = true := by
  decide

/-- The check-then-send window (model only — `dbos` is not available, so this is *not* claimed as a
finding): a sender reads `active` from `try_begin_resume`, a releaser then wins `begin_release` and its
TickIdleRelease ends the workflow, and only then the sender's `send_event` reaches the workflow's inbox.
In the model — where a message to a workflow that has exited is dropped when `_do_resume` purges its DBOS
state — the tick is stranded.  Whether DBOS keeps such a message for the next workflow of the same id is
outside what can be checked here. -/
theorem C26_dbos_check_then_send_window :
    (brun {} [.create, .uSpawn 1, .uTry 1, .rSpawn 0, .rBegin 0, .rSend 0, .wfStep, .uSend 1]).stranded = [1] := by decide

/-- **DBOS protocol, tick accounting** (machine B; any number of releasers, senders / resumers, releaser crashes anywhere):
along every schedule (a) the ticks reduced by the run, the ticks in the workflow's mailbox and the stranded ticks are pairwise
distinct — no tick is reduced twice, by whichever incarnation; (b) a tick is in one of these three places **iff** its sender has
finished (`uSend` delivered it, or `uFinish` folded it into the rebuilt state) — nothing an accepted send handed over
disappears, nothing appears from nowhere; (c) so if nothing is stranded every finished send is reduced or still in the
mailbox, and (d) a tick at the head of the mailbox of a running workflow is consumed by the workflow's next step.
The harness checks the same accounting on the real `DBOSIdleReleaseDecorator` under latency (`C26/dbos_event_never_processed:*`,
where `stranded` is what the windows of `C26_dbos_stranding_only_in_windows` lose). -/
theorem C26_dbos_tick_accounting (acts : List BAct) :
    let s := brun {} acts
    (s.processed ++ (inboxTicks s.inbox ++ s.stranded)).Nodup ∧
    (∀ k, s.res k = .done ↔ (k ∈ s.processed ∨ Msg.tick k ∈ s.inbox ∨ k ∈ s.stranded)) ∧
    (s.stranded = [] → ∀ k, s.res k = .done → (k ∈ s.processed ∨ Msg.tick k ∈ s.inbox)) ∧
    (∀ t m, s.wfUp = true → s.inbox = .tick t :: m →
      (bstepD s .wfStep).processed = s.processed ++ [t] ∧ (bstepD s .wfStep).inbox = m) := by
  intro s
  have h : TickAcc s := TickAcc.run acts {} TickAcc.init
  have hiff : ∀ k, s.res k = .done ↔ (k ∈ s.processed ∨ Msg.tick k ∈ s.inbox ∨ k ∈ s.stranded) := by
    intro k
    rw [← h.done_iff k]
    simp [Sys.places, mem_inboxTicks]
  refine ⟨h.nodup, hiff, ?_, ?_⟩
  · intro he k hk
    rcases (hiff k).1 hk with h1 | h1 | h1
    · exact Or.inl h1
    · exact Or.inr h1
    · rw [he] at h1; cases h1
  · intro t m hup hin
    simp [bstepD, bstep, hup, hin]

/-- non-vacuity: a tick delivered to the running workflow, a release, a resume that folds the reloading tick in: both ticks
are reduced exactly once, nothing is stranded -/
example :
    let s := brun {} [.create, .uSpawn 0, .uTry 0, .uSend 0, .wfStep, .rSpawn 0, .rBegin 0, .rSend 0, .wfStep, .rComplete 0,
                      .uSpawn 1, .uTry 1, .uFinish 1, .wfStep]
    s.processed = [0, 1] ∧ s.stranded = [] ∧ s.res 0 = .done ∧ s.res 1 = .done ∧ s.wfUp = true ∧ s.wfInc = 1 := by
  decide

/-- **the only ways the DBOS protocol strands a tick** are the two check-then-send windows: (release side) a sender that was
told `active` delivers after TickIdleRelease has ended the workflow; (resume side) the resumer finds client ticks left in the
exited workflow's mailbox (sent while the row already said `active` again, or queued behind TickIdleRelease) and purges them.
Every other action of every schedule leaves `stranded` alone.  Both windows are exhibited on the real decorator by the
harness (`…:tick_arrived_during_release`, `…:tick_sent_during_resume`; model witness of the first:
`C26_dbos_check_then_send_window`). -/
theorem C26_dbos_stranding_only_in_windows (s s' : Sys) (a : BAct) (h : bstep s a = some s') (hne : s'.stranded ≠ s.stranded) :
    (∃ k, a = .uSend k ∧ s.res k = .pass ∧ s.wfUp = false ∧ s'.stranded = s.stranded ++ [k]) ∨
    (∃ k, a = .uFinish k ∧ s.res k = .owner ∧ s.wfUp = false ∧ inboxTicks s.inbox ≠ [] ∧
      s'.stranded = s.stranded ++ inboxTicks s.inbox) :=
  stranded_only_in_windows s s' a h hne

/-- non-vacuity of the resume-side window: sender 1 owns the resume (row `active` again), sender 2 is told `active` and
delivers to the exited workflow, sender 1's `_do_resume` purges it -/
example :
    let s := brun {} [.create, .rSpawn 0, .rBegin 0, .rSend 0, .wfStep, .rComplete 0, .uSpawn 1, .uTry 1, .uSpawn 2, .uTry 2, .uSend 2]
    s.res 1 = .owner ∧ s.res 2 = .done ∧ s.wfUp = false ∧ s.stranded = [2] ∧
      (brun s [.uFinish 1, .wfStep]).processed = [1] ∧ (brun s [.uFinish 1, .wfStep]).stranded = [2] := by
  decide
