"""C29 — stream merge and sorted-prefix utilities preserve items and order."""
from __future__ import annotations

import asyncio
import inspect
import json
import os
import random
from typing import Any

from ..boot import VERIF
from ..runner import Divergence, Driver, Env, Outcome, Violation, diff_streams
from ..vloop import VLoop
from .. import c29_deb

THEOREMS = [
    "C29_source_shape",
    "C29_source_buffering_holds_back",
    "C29_dsp_buffering_yields_nothing",
    "C29_merge_source_prefix",
    "C29_merge_is_shuffle",
    "C29_error_reraised",
    "C29_merge_error_loses_only_unprocessed",
    "C29_merge_never_stuck",
    "C29_error_countdown",
    "C29_sort_is_stable_sort",
    "C29_dsp_order",
    "C29_dsp_order_partial",
    "C29_dsp_order_refuted_onIsComplete",
    "C29_dsp_exactly_once",
    "C29_dsp_final",
    "C29_dsp_error",
    "C29_merge_accounting",
    "C29_merge_lag_le_one",
    "C29_merge_stop_on_first_completion",
    "C29_source_debouncer_shape",
    "C29_deb_not_before_quiet",
    "C29_deb_fire_time",
    "C29_deb_loop_never_spins",
    "C29_deb_window_fixed_when_debounce_ge_max",
]
LEAN_TARGETS = ["WfProps.C29"]
EXPLANATION = (
    "Lean: merge_generators and debounced_sorted_prefix as labelled transition systems whose actions are the code's "
    "await-free sections (source task finishes with item/end/exception; asyncio.wait returns a done-set in arbitrary "
    "order; consumer resumes; debounce timer fires; marker produced/consumed), so every interleaving and every timing "
    "relative to the debounce window is an action list. Proved by induction over arbitrary action lists: per-source "
    "output is a prefix of the source's sequence; at normal completion the output is a shuffle (per-source equality + "
    "multiset equality); an input's error is what is raised, never swallowed, and nothing but unprocessed finished "
    "tasks is lost; the sorted-prefix output is, at every point, empty before the marker is consumed and afterwards "
    "stable-sort(first k arrived) ++ rest in arrival order; exactly once on completion. The order theorem is stated "
    "for the pass-through condition re-extracted from the current source (Gen.passMode); the pre-repair condition "
    "(debouncer.is_complete) is refuted in Lean (F27). Tie: trace validation - the real async generators run under the "
    "virtual-time loop with scripted sources; probes (asyncio.wait/Event proxies inside iter_utils, a transparent "
    "wrapper around the inner merge, the scripted sources themselves) record the action list of the real run, the "
    "compiled model replays it and every action's enabledness, emitted token, yielded items and phase are diffed. "
    "Search: the property is checked directly on the yielded sequences (prefix/shuffle/error identity; exists-split "
    "sorted-burst-then-arrival-order; exactly once), and the order clause once more from the inputs alone: arrival times "
    "against the debounce / max window give the admissible burst lengths k, output must be stable_sort(arrival[:k]) ++ "
    "arrival[k:]. Besides the short scripts, every run feeds long initial bursts (999..10000 items and the neighbourhood of "
    "every integral constant of the current iter_utils.py), replayed by the model up to 3000 items and once at 10000. "
    "Extension: (1) a second merge invariant gives, for EVERY reachable state, the accounting of produced items (yielded / collected "
    "awaiting yield / discarded by the stop-first break / in an unlooked-at finished task), the back-pressure bound (no source more "
    "than one item ahead of the consumer) and the stop_on_first_completion clauses (normal return only by a real completion, no yield "
    "after the stop, no retired slot). (2) The Debouncer's timer arithmetic is a second model with an explicit monotone clock "
    "(WfModel/IterDebounce.lean; comparison operator, loop / extend_window / __init__ shapes and parameter defaults regenerated): "
    "the signal is never set before min(u + debounce, start + max_window) for the start and every extend_window call u, is set at "
    "exactly max(start, min(last + debounce, start + max_window)) plus the lateness of the loop task, the loop runs at most "
    "(#extend_window + 2) iterations and is never stuck; with debounce >= max_window (the defaults) the window is fixed. Tie: every "
    "real debounced_sorted_prefix run (all sizes, also the nested ones) and stand-alone Debouncer runs log __init__ / extend_window / "
    "sleep(remaining) / signal.set() with their clock values; the compiled timed model replays them (ops c29deb_*: complete_time after each "
    "extend, wake-up time of each sleep, firing time, iteration count, lateness 0) and an oracle independent of the model checks the firing time."
)
LEVEL_TEXT = "proof (Lean 4) over an executable LTS model + per-run trace validation against the real generators + direct monitors"
ASSUMPTIONS = [
    "asyncio task scheduling, cancellation delivery and the finally-block of merge_generators (cancel/gather/aclose) are not modelled; they are exercised only by the real runs under the virtual-time loop",
    "in the Dsp model the debounce timer may fire at any point of the action list (a superset of the real timings); WHEN it fires is the separate timed model Deb "
    "(C29_deb_*), tied to the same real runs; the two models are composed in prose, not by a Lean refinement: Dsp's `fire` = Deb's firing `loop`, Deb's `extend` = "
    "Dsp's buffering branch (source fact bufferBranchHoldsBack)",
    "Deb: clock values are integers (the check uses dyadic virtual-loop times scaled by 65536); lateness of the `_loop` task is a ghost quantity that the theorems "
    "bound the firing time with; the virtual-time loop only exhibits lateness 0; floating-point rounding of real clock sums is not modelled",
    "keys are modelled as natural numbers with <=; Python compares arbitrary keys with <",
    "the flush marker is a module-private object recognised by identity (C29_source_shape: Gen.markerInBand = false), which the model renders as the Tok.val / Tok.marker split; a stream that deliberately yields that private object is outside the domain",
    "a consumer that abandons the generator early (aclose) is outside the property and not modelled",
    "burst lengths: bursts longer than 10000 items (20000 for lengths derived from a constant of the source) are not fed; the Lean theorems are length-independent, and the source facts dspYieldSites / bufferBranchHoldsBack pin that the buffering branch has no length- or time-dependent hand-over",
    "the arrival-time oracle accepts either side for an item that arrives exactly when the window closes, and either origin (generator start / first item) for the first quiet period and the max window: the property text does not fix them",
    "the iteration order of the `done` set returned by asyncio.wait is a parameter of the `batch` action (all orders are covered by the theorems; the real runs exhibit only those CPython produces)",
]
TRUSTED_EXTRA = [
    "in-process probes: iter_utils.asyncio replaced by a forwarding proxy that records asyncio.wait results and Event.set; "
    "iter_utils.merge_generators wrapped by a transparent pass-through generator inside debounced_sorted_prefix runs; "
    "Debouncer's default get_time replaced by the virtual loop clock",
]

UNIT = 1.0 / 64.0          # one tick of virtual time (dyadic: all sums are exact)
START = 1024.0
W_TICKS = 4                # debounce window, in ticks
MAX_STEPS = 200_000        # loop iterations before a run is declared livelocked (raised for long bursts)
UID_STRIDE = 100_000       # uid = source index * UID_STRIDE + position in the source
LONG_SIZES = (999, 1000, 1001, 2500, 10000)   # burst lengths fed on every run, besides those around the source's constants
MAX_LONG = 20_000          # longest burst derived from a constant of the source
DERIVED_ITEMS = 40_000     # per round: total length of the bursts derived from constants (keeps the run time bounded)
MAX_HANGS = 6              # runs that do not terminate before the case loop gives up (each costs MAX_STEPS iterations)
K_MAX_ITEMS = 3_000        # runs with more items go through the model only once per run (the compiled model is quadratic: appends)


# --------------------------------------------------------------------------
# scripted world


class SrcError(Exception):
    def __init__(self, src: int, code: int):
        super().__init__(f"source {src} failed with code {code}")
        self.src = src
        self.code = code


class Item:
    """An item of a scripted source; compares by identity (never equal to the marker string)."""

    __slots__ = ("src", "seq", "key", "t")

    def __init__(self, src: int, seq: int, key: int):
        self.src, self.seq, self.key = src, seq, key
        self.t = None  # virtual time at which the item reached debounced_sorted_prefix's `inner`

    @property
    def uid(self) -> int:
        return self.src * UID_STRIDE + self.seq

    def __repr__(self) -> str:
        return f"<{self.src}.{self.seq} k={self.key}>"


def run_keys(n: int, mode: str, a: int) -> list[int]:
    """keys of a `["run", n, mode, a, ...]` step (a compact description of n consecutive items)"""
    if mode == "desc":      # strictly descending: every item is out of order with respect to every earlier one
        return [n - 1 - j for j in range(n)]
    if mode == "asc":
        return list(range(n))
    if mode == "saw":       # ascending inside stretches of length a, restarting from 0 at each multiple of a
        return [j % max(a, 1) for j in range(n)]
    if mode == "few":       # a handful of distinct keys: long stretches of equal keys (stability)
        r = random.Random(a)
        return [r.randrange(5) for _ in range(n)]
    r = random.Random(a)    # "rand"
    return [r.randrange(4 * n + 1) for _ in range(n)]


def expand_script(script: list) -> list:
    """`["run", n, mode, a, every, ticks]` = n items with keys run_keys(n, mode, a); after every `every` items
    (0 = never) the source sleeps `ticks` ticks.  Everything else is copied."""
    if not any(st[0] == "run" for st in script):
        return script
    res: list = []
    for st in script:
        if st[0] != "run":
            res.append(st)
            continue
        n, mode, a = int(st[1]), st[2], int(st[3])
        every, ticks = (int(st[4]), int(st[5])) if len(st) > 5 else (0, 0)
        for j, k in enumerate(run_keys(n, mode, a)):
            if every and ticks and j and j % every == 0:
                res.append(["sleep", ticks])
            res.append(["item", k])
    return res


def _n_items(script: list) -> int:
    return sum(int(st[1]) if st[0] == "run" else 1 if st[0] == "item" else 0 for st in script)


def _short(xs: list, edge: int = 12) -> str:
    """lists in messages: whole when small, both ends otherwise"""
    if len(xs) <= 2 * edge + 4:
        return repr(xs)
    return "[" + ", ".join(map(repr, xs[:edge])) + f", ... {len(xs) - 2 * edge} more ..., " + ", ".join(map(repr, xs[-edge:])) + "]"


async def scripted_source(log: list, idx: int, script: list):
    seq = 0
    for st in expand_script(script):
        op = st[0]
        if op == "sleep":
            await asyncio.sleep(st[1] * UNIT)
        elif op == "hop":
            for _ in range(st[1]):
                await asyncio.sleep(0)
        elif op == "item":
            it = Item(idx, seq, st[1])
            seq += 1
            it.t = _loop_time()
            log.append(("P", idx, it))
            yield it
        elif op == "raise":
            e = SrcError(idx, st[1])
            log.append(("E", idx, e))
            raise e
        else:  # pragma: no cover
            raise AssertionError(op)
    log.append(("F", idx))


class OrderedTask(asyncio.Task):
    """Task whose hash is a function of its creation number and the case's salt, so that the
    iteration order of the `done` set returned by asyncio.wait (CPython: address-dependent) is
    reproducible per case and differs between cases."""

    _next_hash = 0

    def __hash__(self) -> int:  # identity equality is kept
        try:
            return self._c29_hash  # type: ignore[has-type]
        except AttributeError:  # first use: inside Task.__init__ (registration in a WeakSet)
            self._c29_hash = OrderedTask._next_hash
            return self._c29_hash


class GuardLoop(VLoop):
    def __init__(self, salt: int = 0, max_steps: int = MAX_STEPS) -> None:
        super().__init__(START)
        self.steps = 0
        self.max_steps = max_steps
        self.livelock = False
        self._created = 0
        self._mul = (1, 3, 5, 7)[salt % 4]
        self._add = (salt // 4) % 8
        self.set_task_factory(self._factory)

    def _factory(self, loop: Any, coro: Any, **kw: Any) -> "asyncio.Task":
        self._created += 1
        OrderedTask._next_hash = (self._created * self._mul + self._add) & 0xFFFF
        return OrderedTask(coro, loop=loop, **kw)

    def _run_once(self) -> None:  # type: ignore[override]
        self.steps += 1
        if self.steps > self.max_steps:
            self.livelock = True
            self.stop()
            return
        super()._run_once()


class Hang(Exception):
    pass


def run_loop(main, salt: int = 0, max_steps: int = MAX_STEPS) -> Any:
    loop = GuardLoop(salt, max_steps)
    asyncio.set_event_loop(loop)
    try:
        task = loop.create_task(main())
        task.add_done_callback(lambda _t: loop.stop())
        loop.run_forever()
        if not task.done():
            raise Hang("livelock" if loop.livelock else "deadlock")
        return task.result()
    finally:
        try:
            pending = [t for t in asyncio.all_tasks(loop) if not t.done()]
            for t in pending:
                t.cancel()
            loop.steps = -10**9
            if pending:
                loop.run_until_complete(asyncio.gather(*pending, return_exceptions=True))
            loop.run_until_complete(loop.shutdown_asyncgens())
        except BaseException:
            pass
        asyncio.set_event_loop(None)
        loop.close()


# --------------------------------------------------------------------------
# probes


class _Probe:
    """Installs / removes the observation points inside the real module."""

    def __init__(self, iu: Any):
        self.iu = iu
        self.log: list = []
        self.real_asyncio = asyncio
        self.real_merge = iu.merge_generators
        probe = self

        class ProbedEvent(asyncio.Event):
            def set(self) -> None:  # type: ignore[override]
                if not self.is_set():
                    probe.log.append(("FIRE", _loop_time()))
                super().set()

        class AsyncioProxy:
            Event = ProbedEvent

            def __getattr__(self, name: str) -> Any:
                return getattr(asyncio, name)

            async def sleep(self, delay: Any, *a: Any, **kw: Any) -> Any:
                # inside iter_utils only Debouncer._loop sleeps: one event per iteration that goes back to sleep
                probe.log.append(("SL", _loop_time(), delay))
                return await asyncio.sleep(delay, *a, **kw)

            async def wait(self, fs: Any, **kw: Any) -> Any:
                done, pending = await asyncio.wait(fs, **kw)
                probe.log.append(("B", [_classify(t) for t in done]))  # same set object => same iteration order
                return done, pending

        self.proxy = AsyncioProxy()

    def probed_merge(self, *gens: Any, **kw: Any):
        probe = self
        real = self.real_merge

        async def gen():
            it = real(*gens, **kw)
            try:
                first = True
                while True:
                    if not first:
                        probe.log.append(("R",))
                    first = False
                    try:
                        x = await it.__anext__()
                    except StopAsyncIteration:
                        probe.log.append(("X", None))
                        return
                    except Exception as e:
                        probe.log.append(("X", e))
                        raise
                    probe.log.append(("G", x))
                    yield x
            finally:
                await it.aclose()

        return gen()

    def __enter__(self) -> "_Probe":
        iu = self.iu
        self._saved_defaults = iu.Debouncer.__init__.__defaults__
        sig = inspect.signature(iu.Debouncer.__init__)
        params = [p for p in sig.parameters.values() if p.default is not inspect.Parameter.empty
                  and p.kind in (p.POSITIONAL_ONLY, p.POSITIONAL_OR_KEYWORD)]
        new = tuple((_loop_time if p.name == "get_time" else p.default) for p in params)
        iu.Debouncer.__init__.__defaults__ = new
        # the timer's own calls (for the timed model `c29deb_*` and the timer oracle)
        probe = self
        real_init = self._real_init = iu.Debouncer.__init__
        real_ext = self._real_ext = iu.Debouncer.__dict__.get("extend_window")

        def probed_init(this: Any, *a: Any, **kw: Any) -> None:
            real_init(this, *a, **kw)
            probe.log.append(("DEB", getattr(this, "start_time", None), getattr(this, "debounce_seconds", None),
                              getattr(this, "max_window_seconds", None)))

        def probed_ext(this: Any, *a: Any, **kw: Any) -> Any:
            r = real_ext(this, *a, **kw)
            probe.log.append(("EXT", _loop_time(), getattr(this, "complete_time", None)))
            return r

        iu.Debouncer.__init__ = probed_init
        if real_ext is not None:
            iu.Debouncer.extend_window = probed_ext
        self._saved_time = getattr(iu, "time", None)
        iu.time = _VTime()
        iu.asyncio = self.proxy
        return self

    def __exit__(self, *a: Any) -> None:
        iu = self.iu
        iu.asyncio = self.real_asyncio
        iu.merge_generators = self.real_merge
        iu.Debouncer.__init__ = self._real_init
        if self._real_ext is not None:
            iu.Debouncer.extend_window = self._real_ext
        iu.Debouncer.__init__.__defaults__ = self._saved_defaults
        if self._saved_time is not None:
            iu.time = self._saved_time


def _loop_time() -> float:
    return asyncio.get_event_loop().time()


class _VTime:
    def monotonic(self) -> float:
        return _loop_time()

    def time(self) -> float:
        return _loop_time()

    def __getattr__(self, name: str) -> Any:
        import time as _t

        return getattr(_t, name)


def _classify(t: "asyncio.Task") -> tuple:
    if t.cancelled():
        return ("cancelled",)
    e = t.exception()
    if e is None:
        return ("item", t.result())
    if isinstance(e, StopAsyncIteration):
        return ("end",)
    return ("err", e)


# --------------------------------------------------------------------------
# running one case on the real code


def run_merge_case(iu: Any, case: dict) -> dict:
    """case: {kind:'merge', stop:bool, scripts:[[step..]..], hops:[int..]}"""
    with _Probe(iu) as pr:
        log = pr.log
        got: list = []
        res: dict = {"log": log, "got": got, "exc": None, "hang": None}
        hops = list(case.get("hops") or [0])

        async def main() -> None:
            gens = [scripted_source(log, i, s) for i, s in enumerate(case["scripts"])]
            kw = {"stop_on_first_completion": True} if case.get("stop") else {}
            it = iu.merge_generators(*gens, **kw)
            first = True
            k = 0
            while True:
                if not first:
                    log.append(("R",))
                first = False
                try:
                    x = await it.__anext__()
                except StopAsyncIteration:
                    log.append(("X", None))
                    break
                except Exception as e:
                    log.append(("X", e))
                    res["exc"] = e
                    break
                log.append(("G", x))
                got.append(x)
                for _ in range(hops[k % len(hops)]):
                    await asyncio.sleep(0)
                k += 1

        try:
            run_loop(main, int(case.get("salt", 0)))
        except Hang as h:
            res["hang"] = str(h)
        return res


def run_dsp_case(iu: Any, case: dict) -> dict:
    """case: {kind:'dsp', script:[step..], hops:[int..], max_ticks:int} or
    {kind:'nested', scripts:[[step..]..], ...} (inner = a real merge of scripted sources; monitors only)"""
    with _Probe(iu) as pr:
        log = pr.log
        iu.merge_generators = pr.probed_merge
        out: list = []
        res: dict = {"log": log, "out": out, "exc": None, "hang": None, "t0": START}
        hops = list(case.get("hops") or [0])
        scripts = case["scripts"] if case["kind"] == "nested" else [case["script"]]
        n_items = sum(_n_items(sc) for sc in scripts)

        async def tap(agen: Any):
            # what reaches debounced_sorted_prefix is the arrival order of its `inner`
            try:
                async for x in agen:
                    x.t = _loop_time()
                    log.append(("P", 0, x))
                    yield x
            finally:
                await agen.aclose()

        async def main() -> None:
            if case["kind"] == "nested":
                # the way the repository uses it: sorted prefix over a merge of several log streams
                sub: list = []
                gens = [scripted_source(sub, i, sc) for i, sc in enumerate(case["scripts"])]
                res["sub"] = sub
                inner = tap(pr.real_merge(*gens))
            else:
                inner = scripted_source(log, 0, case["script"])
            res["t0"] = _loop_time()  # the debounce window opens when the generator is first advanced
            it = iu.debounced_sorted_prefix(inner, key=lambda x: x.key, debounce_seconds=W_TICKS * UNIT,
                                            max_window_seconds=case.get("max_ticks", 8) * UNIT)
            k = 0
            while True:
                try:
                    x = await it.__anext__()
                except StopAsyncIteration:
                    log.append(("DX", None))
                    break
                except Exception as e:
                    log.append(("DX", e))
                    res["exc"] = e
                    break
                log.append(("O", x))
                out.append(x)
                for _ in range(hops[k % len(hops)]):
                    await asyncio.sleep(0)
                k += 1

        try:
            run_loop(main, int(case.get("salt", 0)), max(MAX_STEPS, 64 * n_items))
        except Hang as h:
            res["hang"] = str(h)
        return res


def run_str_case(iu: Any, case: dict) -> dict:
    """case: {kind:'str', items:[str..], gaps:[ticks..]} - plain string items (monitors only): an item
    may be equal to whatever in-band marker the implementation uses."""
    with _Probe(iu):
        out: list = []
        res: dict = {"out": out, "exc": None, "hang": None}
        gaps = list(case.get("gaps") or [0])

        async def inner():
            for j, x in enumerate(case["items"]):
                g = gaps[j % len(gaps)]
                if g:
                    await asyncio.sleep(g * UNIT)
                yield x

        async def main() -> None:
            try:
                async for x in iu.debounced_sorted_prefix(inner(), key=lambda x: x, debounce_seconds=W_TICKS * UNIT,
                                                          max_window_seconds=case.get("max_ticks", 8) * UNIT):
                    out.append(x)
            except Exception as e:
                res["exc"] = e

        try:
            run_loop(main, int(case.get("salt", 0)))
        except Hang as h:
            res["hang"] = str(h)
        return res


def run_deb_case(iu: Any, case: dict) -> dict:
    """case: {kind:'deb', d:ticks, w:ticks, script:[["sleep",k]|["hop",k]|["ext"]]} - the Debouncer alone: scripted
    extend_window() calls, then wait(); afterwards aiter() must deliver exactly one element at once."""
    with _Probe(iu) as pr:
        log = pr.log
        res: dict = {"log": log, "exc": None, "hang": None, "waited": None, "flags": [], "aiter": None}

        async def main() -> None:
            deb = iu.Debouncer(case["d"] * UNIT, case["w"] * UNIT)
            res["flags"].append(bool(deb.is_complete))
            for st in case["script"]:
                if st[0] == "sleep":
                    await asyncio.sleep(st[1] * UNIT)
                elif st[0] == "hop":
                    for _ in range(st[1]):
                        await asyncio.sleep(0)
                else:
                    deb.extend_window()
            fired_before = any(ev[0] == "FIRE" for ev in log)
            await deb.wait()
            res["waited"] = (_loop_time(), fired_before, any(ev[0] == "FIRE" for ev in log))
            res["flags"].append(bool(deb.is_complete))
            if hasattr(deb, "aiter"):
                got = []
                async for x in deb.aiter():
                    got.append(x)
                res["aiter"] = (got, _loop_time())

        try:
            run_loop(main, int(case.get("salt", 0)))
        except Hang as h:
            res["hang"] = str(h)
        except Exception as e:  # the Debouncer itself raised
            res["exc"] = e
        return res


def monitor_deb(case: dict, res: dict) -> list[Violation]:
    if res["hang"]:
        return [Violation("C29/deb_wait_never_returns", f"Debouncer.wait() did not return ({res['hang']}): the window never closed", case)]
    if res["exc"] is not None:
        return [Violation("C29/deb_spurious_error", f"Debouncer raised {res['exc']!r}", case)]
    vs = c29_deb.monitor_timer(case, res["log"], Violation, ended=False)
    o = c29_deb.oracle(res["log"])
    t_wait, fired_before, fired_after = res["waited"]
    if not fired_after:
        vs.append(Violation("C29/deb_wait_returned_before_signal", "Debouncer.wait() returned although complete_signal was never set", case))
    elif o is not None and o["fire"] is not None and not fired_before and t_wait != o["fire"]:
        vs.append(Violation("C29/deb_wait_not_woken_at_signal",
                            f"wait() returned at tick {(t_wait - START) * 64:g}, the signal was set at tick {(o['fire'] - START) * 64:g}", case))
    if res["flags"] != [False, True] and not (res["flags"] == [True, True] and min(case["d"], case["w"]) <= 0):
        vs.append(Violation("C29/deb_is_complete_wrong", f"is_complete before the script / after wait(): {res['flags']}", case))
    if res["aiter"] is not None and (len(res["aiter"][0]) != 1 or res["aiter"][1] != t_wait):
        vs.append(Violation("C29/deb_aiter_not_single_marker", f"Debouncer.aiter() after the window closed delivered {res['aiter']}", case))
    return vs


def monitor_str(case: dict, res: dict) -> list[Violation]:
    if res["hang"]:
        return [Violation("C29/dsp_no_termination", f"debounced_sorted_prefix did not finish on a finite source ({res['hang']})", case)]
    if res["exc"] is not None:
        return [Violation("C29/dsp_spurious_error", f"debounced_sorted_prefix raised {res['exc']!r} on string items {case['items']}", case)]
    if sorted(res["out"]) != sorted(case["items"]):
        lost = list(case["items"])
        for x in res["out"]:
            if x in lost:
                lost.remove(x)
        if lost and all(x in case.get("marker_values", ["__COMPLETE__"]) for x in lost):
            return [Violation("C29/dsp_item_equal_to_marker_lost",
                              f"inner yielded {case['items']}, output is {res['out']}: an item equal to the in-band marker was swallowed", case)]
        return [Violation("C29/dsp_str_not_exactly_once", f"inner yielded {case['items']}, output is {res['out']}", case)]
    return []


# --------------------------------------------------------------------------
# (K) the real run as an action list for the model, with the answers the real run implies


def _phase_after(log: list, j: int) -> tuple[str, Any, list]:
    """Look from event j+1 up to the next B/R: (phase, emitted value or None, outer yields)."""
    emit = None
    phase = "wait"
    outs: list = []
    for i in range(j + 1, len(log)):  # (no slice: logs of long bursts have tens of thousands of events)
        ev = log[i]
        if ev[0] in ("B", "R"):
            break
        if ev[0] == "G" and emit is None and phase == "wait":
            emit = ev[1]
            phase = "susp"
        elif ev[0] == "X":
            phase = "fin:ok" if ev[1] is None else ("fin:err:" + (str(ev[1].code) if isinstance(ev[1], SrcError) else "?" + type(ev[1]).__name__))
        elif ev[0] == "O":
            outs.append(ev[1])
    return phase, emit, outs


def _mval(x: Any) -> str:
    if isinstance(x, Item):
        return f"{x.src}:{x.uid}"
    return f"?:{x!r}"


def merge_trace(case: dict, res: dict) -> tuple[list[str], list[str]]:
    log = res["log"]
    n = len(case["scripts"])
    ops = [f"minit {1 if case.get('stop') else 0} {n}"]
    exp = ["ok phase=" + ("fin:ok" if n == 0 else "wait")]
    phase = "wait"
    ended_uncollected: list[int] = []
    for j, ev in enumerate(log):
        t = ev[0]
        if t == "P":
            ops.append(f"prod {ev[1]} {ev[2].uid}")
            exp.append(f"ok emit=- phase={phase}")
        elif t == "F":
            ended_uncollected.append(ev[1])
            ops.append(f"fin {ev[1]}")
            exp.append(f"ok emit=- phase={phase}")
        elif t == "E":
            ops.append(f"err {ev[1]} {ev[2].code}")
            exp.append(f"ok emit=- phase={phase}")
        elif t in ("B", "R"):
            if t == "B":
                order = []
                ends = sorted(ended_uncollected)
                for d in ev[1]:
                    if d[0] == "item" and isinstance(d[1], Item):
                        order.append(d[1].src)
                    elif d[0] == "err" and isinstance(d[1], SrcError):
                        order.append(d[1].src)
                    elif d[0] == "end" and ends:
                        i = ends.pop(0)
                        ended_uncollected.remove(i)
                        order.append(i)
                    else:
                        order.append(99)  # not attributable: the model will refuse the batch
                ops.append("batch " + ",".join(map(str, order)))
            else:
                ops.append("resume")
            phase, emit, _ = _phase_after(log, j)
            exp.append(f"ok emit={_mval(emit) if emit is not None else '-'} phase={phase}")
    ops.append("out")
    exp.append("out " + (",".join(_mval(x) for x in res["got"]) or "-"))
    return ops, exp


def _is_marker(x: Any) -> bool:
    """In the merged stream inside debounced_sorted_prefix everything that is not one of the
    scripted items is the flush marker (a string in older sources, a private object now)."""
    return not isinstance(x, Item)


def _dtok(x: Any) -> str:
    if isinstance(x, Item):
        return f"0:{x.key}:{x.uid}"
    return "1:marker"


def _ditems(xs: list) -> str:
    return ",".join(f"{x.key}:{x.uid}" if isinstance(x, Item) else f"?{x!r}" for x in xs) or "-"


def dsp_trace(case: dict, res: dict) -> tuple[list[str], list[str]]:
    log = res["log"]
    ops = ["dinit gen"]
    exp = ["ok phase=wait"]
    phase = "wait"
    inner_end_uncollected = False
    marked = False
    for j, ev in enumerate(log):
        t = ev[0]
        if t == "P":
            ops.append(f"dprod {ev[2].key} {ev[2].uid}")
            exp.append(f"ok emit=- yield=- phase={phase}")
        elif t == "F":
            inner_end_uncollected = True
            ops.append("dend")
            exp.append(f"ok emit=- yield=- phase={phase}")
        elif t == "E":
            ops.append(f"derr {ev[2].code}")
            exp.append(f"ok emit=- yield=- phase={phase}")
        elif t == "FIRE":
            ops.append("fire")
            exp.append(f"ok emit=- yield=- phase={phase}")
        elif t in ("B", "R"):
            if t == "B":
                order = []
                n_end = sum(1 for d in ev[1] if d[0] == "end")
                deb_end = n_end == 2 or (n_end == 1 and not inner_end_uncollected)
                if any(d[0] == "item" and _is_marker(d[1]) for d in ev[1]) and not marked:
                    marked = True
                    ops.append("mark")  # Debouncer.aiter yielded the marker some time before this wake-up
                    exp.append(f"ok emit=- yield=- phase={phase}")
                if deb_end:
                    ops.append("dfin")  # ... or returned
                    exp.append(f"ok emit=- yield=- phase={phase}")
                inner_end_taken = False
                for d in ev[1]:
                    if d[0] == "item":
                        order.append(0 if isinstance(d[1], Item) else 1)
                    elif d[0] == "err":
                        order.append(0 if isinstance(d[1], SrcError) else 99)
                    elif d[0] == "end":
                        if inner_end_uncollected and not inner_end_taken:
                            inner_end_taken = True
                            order.append(0)
                        else:
                            order.append(1)
                    else:
                        order.append(99)
                if inner_end_taken:
                    inner_end_uncollected = False
                ops.append("dbatch " + ",".join(map(str, order)))
            else:
                ops.append("dresume")
            phase, emit, outs = _phase_after(log, j)
            exp.append(f"ok emit={_dtok(emit) if emit is not None else '-'} yield={_ditems(outs)} phase={phase}")
    ops.append("out")
    exp.append("out " + _ditems(res["out"]))
    return ops, exp


# --------------------------------------------------------------------------
# (S) the property, directly on what the real generators yielded


def _produced(log: list, src: int) -> list:
    return [ev[2] for ev in log if ev[0] == "P" and ev[1] == src]


def _is_prefix(a: list, b: list) -> bool:
    return len(a) <= len(b) and all(x is y for x, y in zip(a, b))


def monitor_merge(case: dict, res: dict) -> list[Violation]:
    vs: list[Violation] = []
    if res["hang"]:
        return [Violation("C29/merge_no_termination", f"merge_generators did not finish on finite sources ({res['hang']})", case)]
    log, got, exc = res["log"], res["got"], res["exc"]
    n = len(case["scripts"])
    stop = bool(case.get("stop"))
    raised = [ev[2] for ev in log if ev[0] == "E"]
    for x in got:
        if not isinstance(x, Item):
            vs.append(Violation("C29/merge_foreign_item", f"merge yielded {x!r}, which no source produced", case))
            return vs
    for i in range(n):
        gi = [x for x in got if x.src == i]
        pi = _produced(log, i)
        if not _is_prefix(gi, pi):
            ids = [x.seq for x in gi]
            kind = "duplicated" if len(set(ids)) < len(ids) else ("reordered" if sorted(ids) != ids else "skipped")
            vs.append(Violation(f"C29/merge_source_order_{kind}",
                                f"items yielded from source {i} are {gi}, not a prefix of what it produced {pi}", case))
            return vs
    if exc is None:
        if raised and not stop:
            vs.append(Violation("C29/merge_error_swallowed", f"source raised {raised[0]!r} but merge_generators returned normally", case))
        if not stop:
            for i in range(n):
                want = [st for st in case["scripts"][i] if st[0] == "item"]
                gi = [x for x in got if x.src == i]
                if not raised and len(gi) != len(want):
                    vs.append(Violation("C29/merge_lost_item", f"source {i} has {len(want)} items, merge yielded {len(gi)} of them and returned", case))
                    break
    else:
        if not any(exc is r for r in raised):
            sig = "C29/merge_spurious_error" if not raised else "C29/merge_wrong_error"
            vs.append(Violation(sig, f"merge_generators raised {exc!r}; sources raised {raised!r}", case))
        elif not stop:
            i = exc.src
            if len([x for x in got if x.src == i]) != len(_produced(log, i)):
                vs.append(Violation("C29/merge_lost_before_error", f"source {i} produced {len(_produced(log, i))} items before raising, fewer were yielded", case))
    if not vs:
        # back-pressure (C29_merge_lag_le_one): one task per source, the next anext only after the hand-over -
        # at no moment has a source produced more than one item beyond what was yielded from it
        ahead = [0] * n
        for ev in log:
            if ev[0] == "P":
                ahead[ev[1]] += 1
                if ahead[ev[1]] > 1:
                    vs.append(Violation("C29/merge_source_ran_ahead",
                                        f"source {ev[1]} was advanced to {ev[2]} while its previous item had not been yielded yet "
                                        f"(yielded so far: {[x for x in got if x.src == ev[1]][:len(_produced(log, ev[1])) - ahead[ev[1]]]})", case))
                    break
            elif ev[0] == "G" and isinstance(ev[1], Item):
                ahead[ev[1].src] -= 1
        # stop_on_first_completion (C29_merge_stop_on_first_completion): a normal return means some source really ended
        if stop and n > 0 and exc is None and not any(ev[0] == "F" for ev in log):
            vs.append(Violation("C29/merge_stopped_without_completion",
                                "merge_generators(stop_on_first_completion=True) returned although no source had finished", case))
    if not stop and not vs:
        # whatever finished: at most the value of one unprocessed finished task per source is missing
        for i in range(n):
            if len(_produced(log, i)) - len([x for x in got if x.src == i]) > 1:
                vs.append(Violation("C29/merge_lost_item", f"more than one produced item of source {i} was never yielded", case))
                break
        # values of the same wake-up that precede the failed task in the done-set are still handed out
        for ev in log:
            if ev[0] == "B" and any(d[0] == "err" for d in ev[1]):
                before = []
                for d in ev[1]:
                    if d[0] == "err":
                        break
                    if d[0] == "item":
                        before.append(d[1])
                missing = [x for x in before if not any(x is g for g in got)]
                if missing:
                    vs.append(Violation("C29/merge_dropped_collected_before_error",
                                        f"{missing} finished in the same wake-up ahead of the failing task but were never yielded", case))
                break
    return vs


def _stable_sorted(xs: list) -> list:
    return sorted(xs, key=lambda x: x.key)


def burst_bounds(times: list, t0: float, debounce: float, max_window: float) -> tuple[int, int]:
    """From the arrival times alone: (lo, hi) such that the initial burst is arrival[:k] for some lo <= k <= hi.

    The window closes after a quiet period of `debounce` or when `max_window` is over.  Where the property
    text leaves room the bounds are loose (both readings allowed): an item that arrives exactly when the
    window closes may be on either side; the quiet period before the very first item and the max window
    may be counted from the start of the generator or from the first item.
      lo: leading items that arrive less than `debounce` after their predecessor (the first one: after the
          start) and less than `max_window` after the start - the window cannot have closed before them;
      hi: the first item that arrives more than `debounce` after its predecessor, or more than `max_window`
          after the first item - the window has certainly closed before it."""
    n = len(times)
    lo = 0
    prev = t0
    for t in times:
        if t - prev < debounce and t - t0 < max_window:
            lo += 1
            prev = t
        else:
            break
    hi = n
    for i in range(1, n):
        if times[i] - times[i - 1] > debounce or times[i] - times[0] > max_window:
            hi = i
            break
    return lo, max(hi, lo)


def _sorted_runs(out: list, arrival: list, upto: int) -> list[int] | None:
    """Lengths of consecutive stretches of arrival[:upto] that were each yielded as one stable-sorted run
    (None when out[:upto] is not such a concatenation)."""
    runs: list[int] = []
    pos = 0
    while pos < upto:
        balance: dict = {}
        open_ids = 0
        end = None
        for e in range(pos, upto):
            for uid, d in ((out[e].uid, 1), (arrival[e].uid, -1)):
                b = balance.get(uid, 0)
                if b == 0:
                    open_ids += 1
                b += d
                balance[uid] = b
                if b == 0:
                    open_ids -= 1
            if open_ids == 0:
                end = e + 1
                break
        if end is None:
            return None
        if out[pos:end] != _stable_sorted(arrival[pos:end]):
            return None
        runs.append(end - pos)
        pos = end
    return runs


def monitor_dsp_timed(case: dict, res: dict, arrival: list) -> list[Violation]:
    """The order clause recomputed from the inputs only (what arrived, when, the two window parameters):
    output == stable_sort(arrival[:k]) + arrival[k:] for a k that the arrival times allow.  Nothing of
    the implementation's state or internal stream is read."""
    out, exc = res["out"], res["exc"]
    if exc is not None:
        # an error ends the stream: what was yielded must still be the beginning of such a sequence
        if not out:
            return []
        arrival = arrival[:len(out)]
    if len(out) != len(arrival) or {x.uid for x in out} != {x.uid for x in arrival}:
        if exc is not None:
            return [Violation("C29/dsp_output_before_error_not_a_prefix",
                              f"inner produced {_short(arrival)} ... and raised; the {len(out)} yielded items {_short(out)} are not its first {len(out)} items", case)]
        return []  # lost / duplicated: reported by the caller
    times = [x.t for x in arrival]
    if any(t is None for t in times):
        return []
    lo, hi = burst_bounds(times, res["t0"], W_TICKS * UNIT, case.get("max_ticks", 8) * UNIT)
    n = len(arrival)
    s = n  # out[s:] is arrival[s:], item by item
    while s > 0 and out[s - 1] is arrival[s - 1]:
        s -= 1
    k = max(s, lo)  # if any admissible split works, this one does
    if k <= hi and out[:k] == _stable_sorted(arrival[:k]):
        return []
    facts = f"{n} items arrived, debounce window of {W_TICKS} ticks, max window {case.get('max_ticks', 8)} ticks: the initial burst is the first k items, {lo} <= k <= {hi}"
    if s > hi:
        if out[:s] == _stable_sorted(arrival[:s]):
            return [Violation("C29/dsp_sorted_past_quiet_period",
                              f"{facts}; the output is the first {s} items sorted: items that arrived after the window had closed were "
                              f"held back and sorted instead of being passed on in arrival order; arrival {_short(arrival)}, output {_short(out)}", case)]
        j = next(i for i in range(n - 1, -1, -1) if out[i] is not arrival[i])
        return [Violation("C29/dsp_later_items_reordered",
                          f"{facts}; position {j} (after the window had closed) holds {out[j]!r} instead of {arrival[j]!r}: later items "
                          f"are not in arrival order; arrival {_short(arrival)}, output {_short(out)}", case)]
    # the first `lo` items all arrived inside one debounce window: they must come out as ONE sorted run
    if s < lo and out[:s] == _stable_sorted(arrival[:s]):
        return [Violation("C29/dsp_burst_cut_short",
                          f"{facts}; only the first {s} were sorted, items {s}..{lo - 1} arrived inside the window but were passed through "
                          f"unsorted; arrival {_short(arrival)}, output {_short(out)}", case)]
    runs = _sorted_runs(out, arrival, k)
    at = {x.uid: i for i, x in enumerate(arrival)}
    bad = next(i for i in range(1, k + 1) if i == k or out[i].key < out[i - 1].key or
               (out[i].key == out[i - 1].key and at[out[i].uid] < at[out[i - 1].uid])) if k else 0
    if runs is not None and len(runs) >= 2:
        return [Violation("C29/dsp_burst_emitted_as_several_sorted_runs",
                          f"{facts}; the first {k} outputs are not one sorted burst but {len(runs)} separately sorted runs of lengths "
                          f"{_short(runs, 4)} (consecutive stretches of the arrival order, each sorted on its own); key order first breaks at "
                          f"output position {bad}: {_short(out[max(bad - 2, 0):bad + 2])}; arrival {_short(arrival)}, output {_short(out)}", case)]
    if bad < k:
        return [Violation("C29/dsp_window_burst_not_sorted",
                          f"{facts}; the first {k} outputs are not in (stable) key order: position {bad}: {_short(out[max(bad - 2, 0):bad + 2])}; "
                          f"arrival {_short(arrival)}, output {_short(out)}", case)]
    return [Violation("C29/dsp_window_burst_wrong_items",
                      f"{facts}; the first {k} outputs are sorted but are not the first {k} arrived items; arrival {_short(arrival)}, output {_short(out)}", case)]


def monitor_dsp(case: dict, res: dict) -> list[Violation]:
    if res["hang"]:
        return [Violation("C29/dsp_no_termination", f"debounced_sorted_prefix did not finish on a finite source ({res['hang']})", case)]
    log, out, exc = res["log"], res["out"], res["exc"]
    arrival = _produced(log, 0)
    raised = [ev[2] for ev in log + res.get("sub", []) if ev[0] == "E"]
    scripts = case["scripts"] if case["kind"] == "nested" else [case["script"]]
    n_items = sum(_n_items(sc) for sc in scripts)
    for x in out:
        if not isinstance(x, Item):
            return [Violation("C29/dsp_foreign_item", f"yielded {x!r}, which inner did not produce", case)]
    ids = [x.uid for x in out]
    if len(set(ids)) < len(ids):
        return [Violation("C29/dsp_duplicate", f"an item was yielded twice: {_short(out)}", case)]
    if exc is None:
        if raised:
            return [Violation("C29/dsp_error_swallowed", f"inner raised {raised[0]!r} but debounced_sorted_prefix returned normally", case)]
        if sorted(ids) != sorted(x.uid for x in arrival) or len(arrival) != n_items:
            return [Violation("C29/dsp_lost_item", f"inner produced {_short(arrival)}, output is {_short(out)}", case)]
    elif not any(exc is r for r in raised):
        return [Violation("C29/dsp_spurious_error" if not raised else "C29/dsp_wrong_error",
                          f"debounced_sorted_prefix raised {exc!r}; inner raised {raised!r}", case)]
    # order, first from the inputs alone (arrival times against the debounce window) ...
    vt = monitor_dsp_timed(case, res, arrival)
    if vt:
        return vt
    # ... then against the merged stream the real consumer loop saw.  The burst is what reached the consumer loop before it saw the marker (observed on the
    # real merged stream); the output must be: nothing before that point, then the burst in key order,
    # then every later item in arrival order.
    stream = [ev[1] for ev in log if ev[0] == "G"]
    mk = next((j for j, x in enumerate(stream) if _is_marker(x)), None)
    consumed = [x for x in stream if isinstance(x, Item)]
    if not _is_prefix(consumed, arrival):
        return [Violation("C29/dsp_stream_mismatch", f"consumer loop received {_short(consumed)}, inner produced {_short(arrival)}", case)]
    first_o = next((j for j, ev in enumerate(log) if ev[0] == "O"), None)
    mk_ev = next((j for j, ev in enumerate(log) if ev[0] == "G" and _is_marker(ev[1])), None)
    if first_o is not None and (mk_ev is None or first_o < mk_ev):
        return [Violation("C29/dsp_later_before_burst",
                          f"arrival {_short(arrival)}, output {_short(out)}: {out[0]} was yielded before the buffered burst was flushed", case)]
    if mk is None:
        return []  # never flushed (error first): nothing was yielded, checked above
    k = mk
    head, tail = out[:k], out[k:]
    later = consumed[k:]
    if {x.uid for x in head} != {x.uid for x in consumed[:k]} or len(head) != k:
        return [Violation("C29/dsp_order", f"burst {_short(consumed[:k])}, output {_short(out)}: the first {k} outputs are not the burst", case)]
    if not all(a.key <= b.key for a, b in zip(head, head[1:])):
        return [Violation("C29/dsp_burst_not_sorted", f"burst {_short(consumed[:k])} was yielded as {_short(head)}: not in key order", case)]
    if not (_is_prefix(tail, later) and (exc is not None or len(tail) == len(later))):
        return [Violation("C29/dsp_later_not_in_arrival_order", f"items after the burst arrived as {_short(later)}, were yielded as {_short(tail)}", case)]
    return []


# --------------------------------------------------------------------------
# generators


def gen_script(rng, src_kind: str, max_items: int = 5) -> list:
    """src_kind 'merge': delays are a few ticks / hops; 'dsp': delays quantised around the debounce window."""
    k = rng.randint(0, max_items)
    script: list = []
    fail_at = rng.randint(0, k) if rng.random() < (0.22 if src_kind == "merge" else 0.15) else None
    for j in range(k + 1):
        # delay before item j (or before the end / the raise)
        r = rng.random()
        if src_kind == "dsp":
            ticks = rng.choice([0, 0, 0, 1, 2, 3, W_TICKS, W_TICKS, W_TICKS + 1, 2 * W_TICKS, 2 * W_TICKS + 1]) if r < 0.75 else 0
        else:
            ticks = rng.choice([0, 0, 1, 1, 2, 3]) if r < 0.6 else 0
        if ticks:
            script.append(["sleep", ticks])
        h = rng.randint(0, 4)
        if h:
            script.append(["hop", h])
        if fail_at is not None and j == fail_at:
            script.append(["raise", rng.randint(1, 9)])
            return script
        if j < k:
            script.append(["item", rng.randint(0, 6)])
    return script


def gen_merge_case(rng) -> dict:
    n = rng.choice([1, 2, 2, 3, 3, 4]) if rng.random() < 0.97 else 0
    return {"kind": "merge", "stop": rng.random() < 0.2,
            "scripts": [gen_script(rng, "merge", 4) for _ in range(n)],
            "hops": [rng.randint(0, 2) for _ in range(rng.randint(1, 3))], "salt": rng.randrange(32)}


def gen_dsp_case(rng) -> dict:
    return {"kind": "dsp", "script": gen_script(rng, "dsp", 6), "max_ticks": rng.choice([W_TICKS, 2 * W_TICKS, 3 * W_TICKS]),
            "hops": [rng.randint(0, 2) for _ in range(rng.randint(1, 3))], "salt": rng.randrange(32)}


def gen_nested_case(rng) -> dict:
    return {"kind": "nested", "scripts": [gen_script(rng, "dsp", 3) for _ in range(rng.choice([2, 2, 3]))],
            "max_ticks": rng.choice([W_TICKS, 2 * W_TICKS, 3 * W_TICKS]),
            "hops": [rng.randint(0, 2) for _ in range(rng.randint(1, 3))], "salt": rng.randrange(32)}


def long_sizes() -> list[int]:
    """burst lengths for the long-burst stream: the fixed ones plus the neighbourhood of every integral constant
    found in the CURRENT iter_utils.py (re-read on every run): a cap / threshold / chunk size on the number of
    held-back items can only be one of those."""
    from ..gen import iterutils as gen

    sizes = set(LONG_SIZES)
    try:
        consts = gen.int_constants()
    except Exception:
        consts = []
    spent = 0
    # nearest neighbours of every constant first; stop adding when a round would exceed DERIVED_ITEMS items
    for offs in (lambda c: c + 1, lambda c: c + 2, lambda c: c, lambda c: c - 1, lambda c: c + max(c // 10, 3),
                 lambda c: 2 * c + 1, lambda c: 2 * c + c // 2 + 2):
        for c in consts:
            n = offs(c)
            if 2 <= n <= MAX_LONG and n not in sizes and spent + n <= DERIVED_ITEMS:
                sizes.add(n)
                spent += n
    return sorted(sizes)


def gen_long_case(rng, n: int, consts: list[int]) -> dict:
    """One long initial burst of n items (all inside one debounce window unless the max window cuts it), keys out of
    order across every possible chunk boundary, optionally followed - after a quiet period - by later items whose
    arrival order is not key order."""
    mode = rng.choice(["desc", "desc", "rand", "rand", "saw", "few"])
    a = rng.randrange(1 << 16)
    if mode == "saw":
        a = rng.choice([c for c in consts if 2 <= c <= n] or [max(n // 3, 2)])
    pace = rng.random()
    if pace < 0.45:
        every, ticks = 0, 0                       # back to back: the whole burst in one instant
    else:
        every = rng.choice([1, 7, 100, max(n // 3, 1), max(n - 1, 1)])
        ticks = rng.choice([1, 2, W_TICKS - 1])   # always shorter than the debounce window
    script: list = []
    if rng.random() < 0.2:
        script.append(["sleep", rng.choice([1, W_TICKS - 1])])
    script.append(["run", n, mode, a, every, ticks])
    unbounded = 1 << 20
    max_ticks = unbounded
    if every and rng.random() < 0.25:
        # the max window closes in the middle of the burst: the rest of the run is `later`
        total = ((n - 1) // every) * ticks
        if total >= 2:
            max_ticks = rng.randint(1, total)
    r = rng.random()
    if r < 0.45:
        script.append(["sleep", rng.choice([W_TICKS + 1, 2 * W_TICKS, 3 * W_TICKS])])
        for _ in range(rng.randint(1, 4)):
            script.append(["item", rng.randint(0, 6)])
            if rng.random() < 0.3:
                script.append(["hop", rng.randint(1, 3)])
    elif r < 0.6:
        # a long stretch AFTER the quiet period: must come out in arrival order, however long it is
        script.append(["sleep", rng.choice([W_TICKS + 1, 2 * W_TICKS])])
        script.append(["run", min(rng.choice([n, max(n // 2, 2)]), 2000), "desc", 0, 0, 0])
    if rng.random() < 0.08:
        script.append(["raise", rng.randint(1, 9)])
    return {"kind": "dsp", "script": script, "max_ticks": max_ticks, "hops": rng.choice([[0], [0], [0], [1], [0, 2]]),
            "salt": rng.randrange(32)}


def marker_literals() -> list[str]:
    """string values an in-band marker could have: the historical one and whatever the current source compares with"""
    from ..gen import iterutils as gen

    lits = ["__COMPLETE__"]
    try:
        m = gen.extract().get("markerCmp") or ""
        if m.startswith("lit:") and m[4:] not in lits:
            lits.append(m[4:])
    except Exception:
        pass
    return lits


def gen_str_case(rng, lits: list[str]) -> dict:
    pool = ["a", "b", "c", "__complete__", "", "zz"] + lits
    items = [rng.choice(pool) for _ in range(rng.randint(0, 6))]
    if rng.random() < 0.5 and items:
        items[rng.randrange(len(items))] = rng.choice(lits)
    return {"kind": "str", "items": items, "gaps": [rng.choice([0, 0, 1, W_TICKS, 2 * W_TICKS]) for _ in range(rng.randint(1, 3))],
            "max_ticks": rng.choice([W_TICKS, 2 * W_TICKS]), "salt": rng.randrange(32), "marker_values": lits}


def load_corpus() -> list[dict]:
    p = os.path.join(VERIF, "harness", "corpus", "c29_cases.json")
    return json.load(open(p))["cases"]


# --------------------------------------------------------------------------


def _case_key(case: dict) -> str:
    return json.dumps(case, sort_keys=True)


def run(env: Env) -> Outcome:
    from llama_agents.core import iter_utils as iu

    out = Outcome()
    out.rule = ("scripted sources (items with delays in ticks of 1/4 debounce window, 0..4 extra sleep(0) hops, optional raise at a "
                "chosen position, 0..4 sources, consumer hops 0..2, both stop_on_first_completion settings) under the virtual-time "
                "loop; plus long initial bursts (999/1000/1001/2500/10000 items, three random lengths in 7..5000 and the neighbourhood of "
                "every integral constant of the current iter_utils.py; descending / random / saw-tooth / few-valued keys; back to back or paced inside the "
                "debounce window; optionally cut by the max window; optionally followed by later items or a long later stretch); "
                "non-trivial = at least two items yielded; distinct by case")
    cases: list[dict] = []
    if env.replay is not None:
        cases.append(env.replay["payload"]["case"])
    cases += load_corpus()
    n = env.budget(1500, 40000)
    for _ in range(n):
        cases.append(gen_merge_case(env.rng))
        cases.append(gen_dsp_case(env.rng))
    for _ in range(n // 5):
        cases.append(gen_nested_case(env.rng))
    lits = marker_literals()
    for _ in range(n // 10):
        cases.append(gen_str_case(env.rng, lits))
    for _ in range(n // 3):
        cases.append(c29_deb.gen_deb_case(env.rng))
    # long initial bursts (the generated scripts above have at most 6 items)
    from ..gen import iterutils as gen_facts

    consts = gen_facts.int_constants()
    sizes = long_sizes()
    out.notes.append(f"long-burst sizes this run: {sizes} (integral constants in iter_utils.py: {consts or 'none'})")
    for _ in range(min(env.budget(2, 8), 8)):
        for sz in sizes + [env.rng.randint(7, 100), env.rng.randint(101, 998), env.rng.randint(1003, 5000)]:
            cases.append(gen_long_case(env.rng, sz, consts))

    all_ops: list[str] = []
    all_exp: list[str] = []
    owner: list[int] = []
    n_hangs = 0
    big_in_k = False  # the first run above K_MAX_ITEMS (normally a 10000-item burst) is replayed by the model too
    for ci, case in enumerate(cases):
        if case["kind"] == "merge":
            res = run_merge_case(iu, case)
            vs = monitor_merge(case, res)
            ops, exp = ([], []) if res["hang"] else merge_trace(case, res)
            yielded = res["got"]
            out.count(f"merge:n={len(case['scripts'])}")
            out.count("merge:stop" if case.get("stop") else "merge:all")
            out.count("merge:" + ("hang" if res["hang"] else "error" if res["exc"] is not None else "ok"))
            big = max((len(ev[1]) for ev in res["log"] if ev[0] == "B"), default=0)
            out.count(f"merge:max_batch={min(big, 4)}")
        elif case["kind"] == "deb":
            res = run_deb_case(iu, case)
            vs = monitor_deb(case, res)
            ops, exp = ([], []) if (res["hang"] or res["exc"] is not None) else c29_deb.deb_trace(res["log"], START)
            yielded = []
            o = c29_deb.oracle(res["log"])
            if o is not None and o["fire"] is not None:
                out.count("deb:closed_by=" + o["why"])
                out.count("deb:extends_before_signal=" + ("0" if o["n_ext"] == 0 else "1" if o["n_ext"] == 1 else "2+"))
                out.count("deb:loop_iterations=" + str(min(o["loops"], 4)) + ("+" if o["loops"] >= 4 else ""))
                n_after = sum(1 for ev in res["log"] if ev[0] == "EXT") - o["n_ext"]
                out.count("deb:extend_after_signal" if n_after else "deb:no_extend_after_signal")
                out.count("deb:debounce>=max_window" if case["d"] >= case["w"] else "deb:debounce<max_window")
                if o["n_ext"] >= 1:
                    out.nontrivial(_case_key(case))
        elif case["kind"] == "str":
            res = run_str_case(iu, case)
            vs = monitor_str(case, res)
            ops, exp = [], []
            yielded = res["out"]
            out.count("str:" + ("with_marker_value" if any(x in case.get("marker_values", ["__COMPLETE__"]) for x in case["items"]) else "plain"))
        elif case["kind"] == "nested":
            res = run_dsp_case(iu, case)
            vs = monitor_dsp(case, res)
            vs += [] if res["hang"] else c29_deb.monitor_timer(case, res["log"], Violation, ended=True)
            ops, exp = ([], []) if res["hang"] else c29_deb.deb_trace(res["log"], START)
            yielded = res["out"]
            out.count("nested:" + ("hang" if res["hang"] else "error" if res["exc"] is not None else "ok"))
        else:
            res = run_dsp_case(iu, case)
            vs = monitor_dsp(case, res)
            size = _n_items(case["script"])
            in_k = size <= K_MAX_ITEMS or not big_in_k
            if in_k and size > K_MAX_ITEMS:
                big_in_k = True
                out.count("dsp:long:model_replayed_above_%d" % K_MAX_ITEMS)
            ops, exp = ([], []) if (res["hang"] or not in_k) else dsp_trace(case, res)
            if not res["hang"]:
                # the same run's timer, replayed by the timed Debouncer model (cheap: linear, also for the long bursts)
                vs += c29_deb.monitor_timer(case, res["log"], Violation, ended=True)
                dops, dexp = c29_deb.deb_trace(res["log"], START)
                ops, exp = ops + dops, exp + dexp
                o = c29_deb.oracle(res["log"])
                if dops and o is not None and o["fire"] is not None:
                    out.count("dsp:timer:closed_by=" + o["why"])
                    n_after = sum(1 for ev in res["log"] if ev[0] == "EXT") - o["n_ext"]
                    out.count("dsp:timer:extend_after_signal" if n_after else "dsp:timer:no_extend_after_signal")
            yielded = res["out"]
            out.count("dsp:" + ("hang" if res["hang"] else "error" if res["exc"] is not None else "ok"))
            log = res["log"]
            fire = next((j for j, ev in enumerate(log) if ev[0] == "FIRE"), None)
            mk = next((j for j, ev in enumerate(log) if ev[0] == "G" and _is_marker(ev[1])), None)
            if fire is not None and mk is not None:
                between = sum(1 for ev in log[fire:mk] if ev[0] == "G")
                out.count("dsp:item_between_fire_and_marker" if between else "dsp:no_item_between_fire_and_marker")
            nb = sum(1 for ev in log if ev[0] == "P")
            burst = 0
            for ev in log:
                if ev[0] == "G":
                    if _is_marker(ev[1]):
                        break
                    burst += 1
            out.count("dsp:burst=" + ("0" if burst == 0 else "1" if burst == 1 else "2+") + (",later" if nb > burst else ",nolater"))
            if nb >= 100:
                mag = "100.." if burst < 1000 else "1000.." if burst < 2500 else "2500.." if burst < 10000 else "10000.."
                out.count(f"dsp:long:burst={mag}" + (",later" if nb > burst else ",nolater"))
        if res.get("hang"):
            n_hangs += 1
            if n_hangs >= MAX_HANGS:
                # every further livelocked run costs MAX_STEPS loop iterations: the violations are recorded, stop here
                out.violations += vs
                out.notes.append(f"stopped after {n_hangs} runs that did not terminate ({ci + 1} of {len(cases)} cases run)")
                break
        out.evaluations += 1
        if len(yielded) >= 2:
            out.nontrivial(_case_key(case))
        out.violations += vs
        out.sample({"case": case, "yielded": [repr(x) for x in yielded[:40]] + (["..."] if len(yielded) > 40 else []), "error": repr(res["exc"]) if res["exc"] is not None else None})
        all_ops += ops
        all_exp += exp
        owner += [ci] * len(ops)
        if ops:
            out.traces_validated += 1

    # malformed / not-enabled stream: the model must refuse, never guess
    bad_ops = ["resume", "minit 0 2", "resume", "batch 0", "prod 5 1", "prod 0 1", "prod 0 2", "batch 1", "batch 0,0", "batch 0",
               "batch 0", "fire", "dinit nope", "dinit fixed", "mark", "dfin", "dbatch 1", "fire", "fire", "dprod x 1", "prod 0 1",
               "", "minit 2 2", "batch 0;1", "c29deb_loop 1", "c29deb_init 4 8", "c29deb_init 4 8 0", "c29deb_loop -1", "c29deb_extend x",
               "c29deb_loop 0", "c29deb_loop 3", "c29deb_extend 2", "prod 0 1", "c29deb_loop 4", "c29deb_extend 3", "c29deb_loop 6",
               "c29deb_loop 7", "c29deb_state"]
    bad_exp = ["bad-op", "ok phase=wait", "disabled", "disabled", "disabled", "ok emit=- phase=wait", "disabled", "disabled", "disabled",
               "ok emit=0:1 phase=susp", "disabled", "bad-op", "bad-op", "ok phase=wait", "disabled", "disabled", "disabled",
               "ok emit=- yield=- phase=wait", "disabled", "bad-op", "bad-op", "bad-op", "bad-op", "bad-op",
               "bad-op", "bad-op", "ok wake=0", "disabled", "bad-op", "ok sleep=4", "disabled", "ok complete=6", "bad-op",
               "ok sleep=6", "disabled", "ok fired=6", "disabled", "state fired=6 wakes=3 exts=1 late=0"]
    all_ops += bad_ops
    all_exp += bad_exp
    owner += [-1] * len(bad_ops)
    try:
        model_out = Driver("iterutils").run(all_ops)
    except Exception as e:
        out.divergences.append(Divergence("iterutils", 0, "<driver>", repr(e), ""))
        return out
    out.disagreements_checked = len(all_ops)
    d = diff_streams("iterutils", all_ops, model_out, all_exp)
    if d is not None:
        ci = owner[d.index] if d.index < len(owner) else -1
        if ci >= 0:
            first = owner.index(ci)
            d.context = {"case": cases[ci], "ops_of_case": all_ops[first:d.index + 1]}
        out.divergences.append(d)
    return out
