import WfModel.Engine
/-!
M1 (continued) — `_ControlLoopRunner` as a labelled transition system.

State: the reducer state plus the tick buffer, the timer heap (with sequence
numbers), the `_idle_check_pending` flag, the started-and-unfinished workers,
the published stream, the tick log (`on_tick`), the mailbox (`receive_queue`),
the clock and the outcome.  Actions mirror what the loop can do: process the
head of the buffer (`drain`), a worker finishing with arbitrary results, one
mailbox pull, the timer firing, time passing, and an external party putting a
tick into the mailbox, and a running step writing to the stream
(`ctx.write_event_to_stream`).  Enabledness mirrors the code: everything except
`drain`, `advance` and `external` requires an empty buffer (the loop drains the
buffer completely before it waits).  Disabled actions are no-ops, so schedules
are arbitrary action lists.
-/
namespace Engine

inductive Outcome
  | completed (p : Pub)
  | failed (step : Nat) (exc : Nat)
  | halted (k : HaltKind)
  | crashed
deriving DecidableEq, Repr

structure Worker where
  step : Nat
  wid : Nat
  ev : Ev
deriving DecidableEq, Repr

structure Timer where
  at_ : Int
  seq : Nat
  tick : Tick
deriving DecidableEq, Repr

structure Runner where
  st : State
  buf : List Tick := []
  heap : List Timer := []
  seq : Nat := 0
  idlePending : Bool := false
  running : List Worker := []
  stream : List Pub := []
  log : List (Tick × Int) := []
  outcome : Option Outcome := none
  mailbox : List Tick := []
  now : Int := 0

def Runner.push (r : Runner) (t : Tick) (at_ : Int) : Runner :=
  { r with heap := r.heap ++ [{ at_ := at_, seq := r.seq, tick := t }], seq := r.seq + 1 }

def Runner.finish (r : Runner) (o : Outcome) : Runner :=
  { r with outcome := some o, running := [] }

/-- `process_command` -/
def execCmd (r : Runner) : Cmd → Runner
  | .queueEvent att step delay =>
    match delay with
    | some d => if d > 0 then r.push (.addEvent att step) (r.now + d)
                else { r with buf := r.buf ++ [.addEvent att step] }
    | none => { r with buf := r.buf ++ [.addEvent att step] }
  | .runWorker s ev w => { r with running := r.running ++ [{ step := s, wid := w, ev := ev }] }
  | .halt k => r.finish (.halted k)
  | .completeRun p => r.finish (.completed p)
  | .failWorkflow s x => r.finish (.failed s x)
  | .publish p => { r with stream := r.stream ++ [p] }
  | .scheduleIdleCheck =>
    if r.idlePending then r else { r with buf := r.buf ++ [.idleCheck], idlePending := true }
  | .scheduleWaiterTimeout s w t => r.push (.waiterTimeout s w) (r.now + t)
  | .crash => r.finish .crashed

/-- commands are processed in order; an exit command ends processing -/
def execCmds : Runner → List Cmd → Runner
  | r, [] => r
  | r, c :: cs =>
    let r' := execCmd r c
    if r'.outcome.isSome then r' else execCmds r' cs

inductive Act
  | drain
  | workerDone (step wid : Nat) (res : List Res)
  | pull
  | timer
  | advance (dt : Nat)
  | external (t : Tick)
  | stepWrite (p : Pub)
deriving Repr

/-- ticks another party may put into the mailbox (`ctx.send_event`, `cancel_run`,
the server's idle release, publish requests) -/
def Tick.isExternal : Tick → Bool
  | .addEvent _ _ => true
  | .cancelRun => true
  | .idleRelease => true
  | .publish _ => true
  | _ => false

def insertTimer (t : Timer) : List Timer → List Timer
  | [] => [t]
  | u :: us =>
    if t.at_ < u.at_ || (t.at_ == u.at_ && t.seq < u.seq) then t :: u :: us else u :: insertTimer t us

def sortTimers (l : List Timer) : List Timer := l.foldr insertTimer []

/-- the earliest due time in the timer heap: what `scheduled_wakeups[0][0]` is as long as the list is only ever changed
by `heapq.heappush` / `heapq.heappop` (pinned by `GenEngineShape.wakeupsOnlyThroughHeapq`) -/
def minAt : List Timer → Option Int
  | [] => none
  | t :: ts =>
    match minAt ts with
    | none => some t.at_
    | some m => some (if t.at_ ≤ m then t.at_ else m)

/-- `next_wakeup_timeout(now)` as an absolute time: the instant the control loop sleeps until when nothing else
happens (`None` = no timer: it waits for workers / the mailbox only); an overdue head gives timeout 0 -/
def Runner.nextWakeup (r : Runner) : Option Int :=
  (minAt r.heap).map (fun m => if m ≤ r.now then r.now else m)

def hasStopResult (res : List Res) : Bool :=
  res.any (fun r => match r with | .result (some e) => e.kind == .stop | _ => false)

def Runner.step (cfg : Cfg) (pol : Policy) (r : Runner) (a : Act) : Runner :=
  if r.outcome.isSome then r else
  match a with
  | .drain =>
    match r.buf with
    | [] => r
    | t :: rest =>
      let r1 := { r with buf := rest, idlePending := if t = Tick.idleCheck then false else r.idlePending }
      let res := reduce cfg pol t r1.st r1.now
      if res.2.contains .crash then r1.finish .crashed
      else execCmds { r1 with st := res.1, log := r1.log ++ [(t, r1.now)] } res.2
  | .workerDone s w res =>
    if !r.buf.isEmpty then r else
    match r.running.find? (fun x => x.step == s && x.wid == w) with
    | none => r
    | some x =>
      let running := r.running.eraseP (fun y => y.step == s && y.wid == w)
      { r with running := if hasStopResult res then [] else running,
               buf := [.stepResult s w x.ev res] }
  | .pull =>
    if !r.buf.isEmpty then r else
    match r.mailbox with
    | [] => r
    | t :: m => { r with buf := [t], mailbox := m }
  | .timer =>
    if !r.buf.isEmpty then r else
    let due := sortTimers (r.heap.filter (fun t => t.at_ ≤ r.now))
    { r with buf := due.map (·.tick), heap := r.heap.filter (fun t => !(t.at_ ≤ r.now)) }
  | .advance dt => { r with now := r.now + dt }
  | .external t => if t.isExternal then { r with mailbox := r.mailbox ++ [t] } else r
  | .stepWrite p => { r with stream := r.stream ++ [p] }

def Runner.run (cfg : Cfg) (pol : Policy) (r : Runner) (acts : List Act) : Runner :=
  acts.foldl (Runner.step cfg pol) r

/-! ### a running step calls `ctx.send_event` (`InternalContext.send_event`)

`run_worker` hands every invocation a `RetryAttempt` whose `recovery_counts` are a copy of those of
its in-progress entry, on the first attempt as on a retry; `send_event` tags the `TickAddEvent` it
puts into the mailbox with exactly these counts: the sent event stays on the invocation's lineage. -/

/-- the tick `ctx.send_event(e, step=target)` puts into the mailbox when called by the running
invocation `(step, wid)`; `none` when no such invocation is in progress -/
def sendTick (st : State) (step wid : Nat) (e : Ev) (target : Option Nat) : Option Tick :=
  match (st.workers step).inProg.find? (fun ip => ip.wid == wid) with
  | some ip => some (.addEvent { ev := e, rc := ip.rc } target)
  | none => none

/-- schedules with step-side sends: an `Act`, or a running invocation calling `ctx.send_event` -/
inductive CtxAct
  | act (a : Act)
  | stepSend (step wid : Nat) (e : Ev) (target : Option Nat)
deriving Repr

def Runner.stepS (cfg : Cfg) (pol : Policy) (r : Runner) : CtxAct → Runner
  | .act a => r.step cfg pol a
  | .stepSend s w e tgt =>
    match sendTick r.st s w e tgt with
    | some t => r.step cfg pol (.external t)
    | none => r

def Runner.runS (cfg : Cfg) (pol : Policy) (r : Runner) (acts : List CtxAct) : Runner :=
  acts.foldl (Runner.stepS cfg pol) r

/-! ### start of a run: `_ControlLoopRunner.__init__` + the head of `run()` -/

def insertWaiter (w : Waiter) : List Waiter → List Waiter
  | [] => [w]
  | u :: us => if w.wid ≤ u.wid then w :: u :: us else u :: insertWaiter w us

/-- `rehydrate_with_ticks`: waiters whose requirements were lost in serialisation
re-ping their step; the re-run continues the suspended invocation (`Waiter.replay`) -/
def rehydrateTicks (cfg : Cfg) (st : State) : List Tick :=
  (sortedSteps cfg).flatMap fun c =>
    (((st.workers c.name).waiters.foldr insertWaiter []).filter (fun w => w.hasReq && w.req.isNone && w.resolved.isNone && !w.timedOut)).map
      fun w => Tick.addEvent w.replay (some c.name)

def Runner.init (cfg : Cfg) (st0 : State) (now : Int) (start : Option Ev) (timeout : Option Nat) : Runner :=
  let startTicks := match start with | some e => [Tick.addEvent { ev := e } none] | none => []
  let r0 : Runner := { st := st0, buf := rehydrateTicks cfg st0 ++ startTicks, now := now }
  let r1 := match timeout with | some t => r0.push (.timeout t) (now + t) | none => r0
  let rw := rewind cfg st0 now
  execCmds { r1 with st := rw.1 } rw.2

/-! ### `rebuild_state_from_ticks`: what `ctx.to_dict()` / `running_steps()` compute -/

/-- The checkpointed state the run was started from is rewound first — **always**, exactly as
the head of `run()` did to it: in-progress invocations go back to the front of their queue and
queued ones are started again as workers `0, 1, …` up to the step's limit (so also when nothing
was in progress) — and then every logged tick is reduced, each with the decisions its policy makes
now and at the CURRENT clock (not at the tick's recorded time).  `none` where a reduction raises. -/
def rebuildAt (cfg : Cfg) (st0 : State) (log : List (Tick × Policy)) (now : Int) : Option State :=
  log.foldl (fun acc tp => acc.bind fun s =>
      let r := reduce cfg tp.2 tp.1 s now
      if r.2.contains .crash then none else some r.1)
    (some (rewind cfg st0 now).1)

end Engine
