"""C04 — every run ends once, and its stream ends with the matching terminal event."""
from __future__ import annotations

import random

from ..engine import cleanup, gate, monitors, overlap, reuse, suite
from ..runner import Divergence, Driver, Env, Outcome, diff_streams

THEOREMS = ["C04_init_live", "C04_terminal_last", "C04_crash_unreachable", "C04_terminal_last_unconditional",
            "C04_outcome_once", "C04_consumer_terminates_of_endedWell", "C04_consumer_terminates", "C04_statement_holds",
            "C04_refuted_witness_unrepaired", "C04_refuted_unrepaired", "C04_unrepaired_differs_only_on_raise",
            "C04_overlap_source_shape", "C04_overlap_exactly_once", "C04_overlap_holds", "C04_overlap_refuted_unrepaired",
            "C04_overlap_guarded_unrepaired", "C04_overlap_guard_position_matters",
            "C04_cleanup_source_shape", "C04_cleanup_any_grace", "C04_cleanup_holds", "C04_cleanup_returns_with_last",
            "C04_cleanup_refuted_wait_only", "C04_cleanup_wait_only_partial"]
LEAN_TARGETS = ["WfProps.C04"]
EXPLANATION = (
    "Runner LTS: for every configuration, retry-policy oracle (also one that raises), initial state satisfying the "
    "worker-slot invariant, start event, timeout and schedule/worker results/external ticks (whose user content publishes "
    "no StopEvent behind the engine's back) a run is live with no terminal event, or ended with the terminal event of the "
    "outcome's kind as the last and only terminal element of the stream (C04_terminal_last_unconditional); there is no "
    "third case: an exception escaping the reducer is unreachable from the start of a run (C04_crash_unreachable: the "
    "three remaining sources - no free worker id, step result for an unknown step, step result for a worker not in "
    "progress - are excluded by the worker-slot invariant and by running <= in-progress); after the end nothing changes; "
    "a consumer that stops at the first terminal element stops exactly when the run has ended (C04_consumer_terminates). "
    "Of the reducer BEFORE the repair of C04/engine_side_failure_no_terminal_event (a retry policy raising inside the "
    "reducer => no terminal event) the statement is refuted (C04_refuted_unrepaired, reducer variant kept in Lean); the "
    "raising-policy witness and raising policies in the generated stream run on the real engine on every run as "
    "regression tests. Tie: runner correspondence tick by tick (commands in order, stream length, outcome). Search: "
    "outcome vs terminal event, uniqueness, nothing after it, consumer termination. "
    "Every consumer, not only the first: stream-gate LTS of ExternalAsyncioAdapter.stream_published_events (FIFO stream lock, "
    "'already consumed' guard, publish queue; any number of consumers, any interleaving with publications and the end of the "
    "run's task; guard position and stream_finished flag re-extracted from the source): in every quiescent state after the "
    "terminal item was taken and the task is done every consumer has terminated (C04_overlap_holds); nothing is delivered twice "
    "or lost (C04_overlap_exactly_once); false of the code before repair fix-C04e (C04_overlap_refuted_unrepaired; true part "
    "C04_overlap_guarded_unrepaired) and of a guard evaluated in front of the lock (C04_overlap_guard_position_matters). Tie: the "
    "real adapter driven op by op against the model. Search: 1-3 consumers of one run's stream alive at once on live workflows, "
    "all four outcome kinds, under the virtual loop - all finished once the run has ended and nothing is runnable. "
    "Steps that take a while to stop: worker-cleanup model of _ControlLoopRunner.cleanup_tasks (every ending runs it before the terminal "
    "event is published): the rest of a cancelled body is any list of segments (wait; a further cancellation aborts it / ends the waiting / "
    "is ignored; optional write), the await is the one re-extracted from the source (wait_for(gather(..), 0.5): on expiry cancels again and "
    "returns only when all are done): when the method returns no worker is running and none writes later, for all bodies and grace periods "
    "(C04_cleanup_holds, C04_cleanup_any_grace, C04_cleanup_returns_with_last); false of asyncio.wait(.., timeout) in its place "
    "(C04_cleanup_refuted_wait_only; true part C04_cleanup_wait_only_partial). Tie: the real method on harness-made tasks against the model. "
    "Search: live runs ending all four ways while 1-3 helper steps with asynchronous cancellation teardowns (0.125-2.5 s, four reactions to a "
    "second cancel) are at work, loop kept going after the end - nothing after the terminal event, ever; no step body in flight once the "
    "outcome is available."
)
ASSUMPTIONS = suite.ENGINE_ASSUMPTIONS + [
    "steps returning non-events are turned into step failures by the step wrapper (exercised by the monitors, 'ret bad' scripts)",
    "TickIdleRelease (server-internal release) is outside the four outcomes of the property",
    "ctx.write_event_to_stream(StopEvent) by user code is outside the property",
    "the retry policy is an oracle answering a delay, None or an exception; a policy object that breaks the protocol in another way "
    "(no introspectable `next`: inspect.signature raising; a non-numeric delay) and exceptions raised by the runtime adapter inside the "
    "control loop (get_now, write_to_event_stream, wait_for_next_task - store faults are C15's subject) are outside the model: those "
    "still end a run without a terminal event",
    "several consumers: consumer tasks are not cancelled while they wait; a consumer that has been given the terminal event eventually "
    "asks for the next item or closes its generator (model: `finish`); asyncio.Lock is FIFO without barging (CPython 3.12, trusted)",
    "stopping workers: nobody cancels the run's task from outside while cleanup_tasks waits (a second handler.cancel() during the grace "
    "interrupts the wait: DESIGN 14.3, C30 observation); sync steps (executor threads) cannot be cancelled and are not counted as alive; "
    "asyncio.wait_for / gather / wait semantics (CPython 3.12) enter the worker-cleanup model as read and are exercised by its correspondence; "
    "a teardown ending in the very instant the grace period expires (two equal timers) is not modelled (driver: `tie`); the engine-runner "
    "correspondence skips runs whose reducer is called at a fractional virtual time",
]


def _raising(spec: dict, rng) -> dict:
    """a tenth of the specs: retry policies whose next() raises (regression test of the repaired finding
    C04/engine_side_failure_no_terminal_event: the run must still end with one matching terminal event)"""
    if rng.random() < 0.10:
        for s in spec["steps"]:
            if s.get("retry") and rng.random() < 0.6:
                s["retry"] = {"kind": "raises"}
    return spec


def _cancel_reporting(spec: dict, rng) -> dict:
    """user cancellation while a gated step is in flight that reports on the stream from its cancellation path
    (`except CancelledError: ctx.write_event_to_stream(..); raise`): nothing may follow the WorkflowCancelledEvent"""
    gated = [s for s in spec["steps"] if any(a[0] in ("gate", "sleep") for a in s["script"]) and s.get("role") != "handler"]
    if not gated:
        return spec
    for s in rng.sample(gated, min(len(gated), rng.randint(1, 2))):
        if not any(a[0] == "on_cancel_stream" for a in s["script"]):
            s["script"].insert(0, ["on_cancel_stream", rng.choice([5, 6, 7, 8, 9])])
    spec["externals"] = [e for e in spec.get("externals", []) if e.get("op") != "cancel"] + [{"op": "cancel", "after_quiet": rng.randint(0, 4)}]
    spec.pop("timeout", None)
    return spec


TEARDOWN_SECS = [0.125, 0.25, 0.375, 0.625, 0.75, 1.25, 2.5]  # both sides of the control loop's worker-cancel grace (not read from it)
TEARDOWN_MODES = ["finally", "swallow", "shield", "stubborn"]
ENDINGS = ["result", "failure", "cancel", "timeout"]


def gen_teardown_spec(rng) -> dict:
    """One run with 1..3 helper steps still at work when the run ends (result / step failure / user cancel / timeout), each
    of which reacts to its cancellation with an ASYNCHRONOUS teardown (0.125 .. 2.5 virtual seconds; interrupted by, cut short
    by, or deaf to a further cancellation; or swallowing the first one) and then says a last word on the stream.  After the
    run's end the loop is kept going until every body has come to its end (`drain_after_end`)."""
    ending = rng.choice(ENDINGS)
    nhelp = rng.choice([1, 1, 2, 3])
    helper_tys = [5, 6, 7][:nhelp]
    main: dict = {"name": "s00", "accepts": [0], "nw": 1, "script": []}
    steps = [main]
    for i, ty in enumerate(helper_tys):
        main["script"].append(["send", ty, f"s{i + 1:02d}"])
        script: list = [["on_cancel_teardown", rng.choice(TEARDOWN_SECS), rng.choice([8, 9, 10, 10, None]), rng.choice(TEARDOWN_MODES)]]
        if rng.random() < 0.3:
            script.append(["on_cancel_stream", 11])  # also reports at once when cancelled
        if rng.random() < 0.6:
            script.append(["stream", 9])
        # mostly busy until the run ends; sometimes waiting for I/O the schedule may complete first (then it is simply done)
        script.append(["block"] if rng.random() < 0.8 else ["gate"])
        script.append(["ret", "none"])
        steps.append({"name": f"s{i + 1:02d}", "accepts": [ty], "nw": rng.choice([1, 2]), "script": script})
    if rng.random() < 0.4:
        main["script"].append(["stream", 8])
    spec: dict = {"steps": steps, "externals": [], "drain_after_end": 20}
    if ending == "result":
        main["script"] += [["gate"], ["ret", "stop"]]
    elif ending == "failure":
        main["script"] += [["gate"], ["fail_always", rng.randint(1, 9)]]
        if rng.random() < 0.3:
            main["retry"] = {"kind": "attempts", "n": 2, "wait": rng.choice([0, 1])}
    elif ending == "cancel":
        main["script"] += [["block"], ["ret", "stop"]]
        spec["externals"] = [{"op": "cancel", "after_quiet": rng.randint(1, 3)}]
    else:
        main["script"] += [["block"], ["ret", "stop"]]
        spec["timeout"] = rng.choice([1, 2, 3])
    return spec


def _teardown_runs(env: Env, out: Outcome, n: int) -> None:
    """steps whose cancellation teardown takes a while (see gen_teardown_spec): nothing is published after the terminal event --
    not during the run's end and not later -- and no step of the run is still at work once the outcome is available; the runs
    also go through the runner correspondence"""
    rng = random.Random(env.rng.randrange(1 << 30))
    jobs = [{"spec": sp, "seed": 0} for item in suite.load_corpus("C04/teardown") for sp in item["specs"]]
    jobs += [{"spec": gen_teardown_spec(rng), "seed": rng.randrange(1 << 30)} for _ in range(n)]
    # (K) runner correspondence too, except for runs whose reducer is called at a fractional time (see suite.live_runs)
    traces = suite.live_runs(env, out, 0, [monitors.mon_c04], extra_specs=jobs)
    for tr in traces:
        if not tr.spec.get("drain_after_end"):
            continue  # (a replayed case of another family)
        ending = {"result": "result", "error": "failure", "cancelled": "cancel", "timeout": "timeout"}.get(tr.outcome[0], tr.outcome[0])
        out.count("teardown:ending:" + ending)
        for t in tr.teardowns:
            side = "longer_than_half_a_second" if t["secs"] > 0.5 else "shorter_than_half_a_second"
            out.count(f"teardown:{ending}:{t['mode']}:{side}:{t['how']}" + (":wrote" if t["wrote"] else ""))
        if any(t["secs"] > 0.5 for t in tr.teardowns) and any(t["secs"] < 0.5 for t in tr.teardowns):
            out.count("teardown:both_sides_in_one_run")
        if tr.teardowns:
            out.nontrivial(("teardown", repr(tr.spec), tuple(tr.actions)))


def _reuse_runs(env: Env, out: Outcome, n: int) -> None:
    """histories of 2..3 runs on one runtime that reuse an explicit run_id (earlier handlers kept or dropped, their streams
    unread / partly read): the last run is refused or is a run of its own (own events only, one matching terminal event, last)"""
    rng = random.Random(env.rng.randrange(1 << 30))
    jobs = []
    if env.replay is not None and isinstance(env.replay.get("payload", {}).get("case"), dict) and "reuse" in env.replay["payload"]["case"]:
        jobs.append(env.replay["payload"]["case"]["reuse"])
    jobs += [reuse.gen_scenario(rng) for _ in range(n)]
    for sc in jobs:
        vs, info = reuse.run_scenario(sc)
        out.evaluations += 1
        for k, v in info.items():
            out.count(f"reuse:{k}", v)
        out.count("reuse:last_kind:" + sc["runs"][-1]["kind"])
        if info.get("accepted", 0) >= 2:
            out.nontrivial(("reuse", repr(sc)))
        for v in vs:
            v.replay = {"reuse": sc}
            out.violations.append(v)


def _overlap_runs(env: Env, out: Outcome, n: int) -> None:
    """2..3 consumers of ONE run's stream alive at the same time (owner reads through the terminal event, the others arrive
    before / while / right after it is taken), every outcome kind: once the run has ended and the virtual loop is quiescent
    every consumer has terminated (terminal event, left on its own, or refused); nothing delivered twice or lost"""
    rng = random.Random(env.rng.randrange(1 << 30))
    jobs = []
    if env.replay is not None and isinstance(env.replay.get("payload", {}).get("case"), dict) and "overlap" in env.replay["payload"]["case"]:
        jobs.append(env.replay["payload"]["case"]["overlap"])
    jobs += [sc for item in suite.load_corpus("C04/overlap") for sc in item["scenarios"]]
    jobs += [overlap.gen_scenario(rng) for _ in range(n)]
    for sc in jobs:
        vs, info = overlap.run_scenario(sc)
        out.evaluations += 1
        for k, v in info.items():
            out.count(f"overlap:{k}", v)
        out.count("overlap:kind:" + sc["kind"])
        out.count("overlap:consumers", len(sc["consumers"]))
        if len(sc["consumers"]) >= 2 and info.get("terminal_delivered"):
            out.nontrivial(("overlap", repr(sc)))
        out.violations += vs


def _gate_runs(env: Env, out: Outcome, n: int) -> None:
    """(K) the real ExternalAsyncioAdapter.stream_published_events, op by op (arrive / publish / complete / finish, settled
    after each), against `wfdriver streamgate` (model configured from the current source); (S) at the end of each sequence
    the run is over and nobody holds the terminal event: no consumer may be pending"""
    rng = random.Random(env.rng.randrange(1 << 30))
    seqs: list[list[str]] = []
    if env.replay is not None and isinstance(env.replay.get("payload", {}).get("case"), dict) and "gate_ops" in env.replay["payload"]["case"]:
        seqs.append(list(env.replay["payload"]["case"]["gate_ops"]))
    seqs += [list(sq) for item in suite.load_corpus("C04/gate") for sq in item["sequences"]]
    seqs += [gate.gen_ops(rng) for _ in range(n)]
    seqs.append(list(gate.MALFORMED))
    ops: list[str] = []
    exp: list[str] = []
    owner: list[int] = []
    for k, sq in enumerate(seqs):
        lines, facts = gate.run_real(sq)
        ops += ["reset"] + sq
        exp += ["reset"] + lines
        owner += [k] * (len(sq) + 1)
        out.evaluations += 1
        out.count("gate:sequences")
        out.count("gate:ops", len(sq))
        for l in lines:
            out.count("gate:answer:" + l.split(" ", 1)[0])
        if facts.get("over"):
            out.count("gate:run_over:" + ("owner_released_after_task_done" if facts.get("complete_before_release") else "owner_released_before_task_done"))
        ncons = len([o for o in sq if o.startswith("arrive|")])
        if ncons >= 2 and facts.get("over"):
            out.nontrivial(("gate", tuple(sq)))
        out.violations += gate.monitor(sq, facts)
    try:
        mo = Driver("streamgate").run(ops)
    except Exception as ex:
        out.divergences.append(Divergence("streamgate", 0, "<driver>", repr(ex), ""))
        return
    out.traces_validated += len(seqs)
    out.disagreements_checked += len(ops)
    d = diff_streams("streamgate", ops, mo, exp)
    if d is not None:
        sq = seqs[owner[d.index]] if d.index < len(owner) else None
        d.context = {"gate_ops": sq}
        out.divergences.append(d)


def _cleanup_runs(env: Env, out: Outcome, n: int) -> None:
    """(K) the real `_ControlLoopRunner.cleanup_tasks` on harness-made worker tasks that unwind from their cancellation as
    generated programs say (segments: wait / reaction to a further cancellation / write), against `wfdriver workercleanup`
    (await shape and grace period from the current source); (S) when the method returns no worker is running and none
    writes later"""
    rng = random.Random(env.rng.randrange(1 << 30))
    ops: list[str] = []
    if env.replay is not None and isinstance(env.replay.get("payload", {}).get("case"), dict) and "cleanup_op" in env.replay["payload"]["case"]:
        ops.append(env.replay["payload"]["case"]["cleanup_op"])
    ops += [op for item in suite.load_corpus("C04/cleanup") for op in item["ops"]]
    ops += [cleanup.gen_op(rng) for _ in range(n)]
    ops += list(cleanup.MALFORMED)
    exp: list[str] = []
    for op in ops:
        line, facts = cleanup.run_real(op)
        exp.append(line)
        out.evaluations += 1
        out.count("cleanup:ops")
        if facts:
            out.count("cleanup:workers", len(facts["done"]))
            out.count("cleanup:returned:" + ("at_once" if facts["returned"] == 0 else "within_half_a_second" if facts["returned"] < 4
                                             else "at_half_a_second" if facts["returned"] == 4 else "later_waiting_for_a_deaf_worker"))
            out.count("cleanup:second_cancel_delivered", sum(facts["more"].values()))
            if len(facts["done"]) >= 1 and facts["returned"] > 0:
                out.nontrivial(("cleanup", op))
        else:
            out.count("cleanup:malformed")
        out.violations += cleanup.monitor(op, facts)
    try:
        mo = Driver("workercleanup").run(ops)
    except Exception as ex:
        out.divergences.append(Divergence("workercleanup", 0, "<driver>", repr(ex), ""))
        return
    # a tie (a segment ending in the very instant the grace period expires) is not modelled: whatever the code did stands
    ties = [i for i, m in enumerate(mo) if m == "tie"]
    out.count("cleanup:tie_skipped", len(ties))
    exp = ["tie" if i in ties else e for i, e in enumerate(exp)]
    out.traces_validated += len(ops)
    out.disagreements_checked += len(ops)
    d = diff_streams("workercleanup", ops, mo, exp)
    if d is not None:
        d.context = {"cleanup_op": ops[d.index] if d.index < len(ops) else None}
        out.divergences.append(d)


def run(env: Env) -> Outcome:
    out = Outcome()
    out.rule = ("direct (state,tick) pairs + live scripted workflows (steps that raise, return non-events, race with StopEvent, "
                "cancel/timeout externals, raising retry policies in a tenth of the specs); run histories reusing one run_id on one runtime; several consumers of one run's stream alive at once (all four outcome kinds); runs ending while steps with slow cancellation teardowns are at work (all four outcome kinds, teardown times on both sides of the cancel grace); cleanup_tasks on generated worker programs; non-trivial = more than 2 ticks; distinct by (spec, schedule)")
    suite.direct_corr(env, out, env.budget(3000, 60000))
    suite.live_runs(env, out, env.budget(400, 8000), [monitors.mon_c04], extra_specs=[c for c in suite.load_corpus("C04") if "spec" in c],
                    mutate_spec=_raising)
    suite.live_runs(env, out, env.budget(120, 2400), [monitors.mon_c04], mutate_spec=_cancel_reporting)
    _reuse_runs(env, out, env.budget(150, 3000))
    _overlap_runs(env, out, env.budget(220, 3000))
    _gate_runs(env, out, env.budget(250, 4000))
    _teardown_runs(env, out, env.budget(120, 1200))
    _cleanup_runs(env, out, env.budget(150, 3000))
    return out
