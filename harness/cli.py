from __future__ import annotations

import argparse
import os
import sys


def main() -> int:
    ap = argparse.ArgumentParser()
    ap.add_argument("prop")
    ap.add_argument("--tier", default=os.environ.get("VERIF_TIER", "quick"), choices=["quick", "thorough"])
    ap.add_argument("--replay", default=None)
    a = ap.parse_args()
    seed = int(os.environ.get("VERIF_SEED", "0") or 0)
    try:
        # a generated run that feeds itself must end in MemoryError (exit 2), not take the machine down
        import resource

        lim = int(os.environ.get("VERIF_MEM_GB", "24")) * 2 ** 30
        resource.setrlimit(resource.RLIMIT_AS, (lim, resource.getrlimit(resource.RLIMIT_AS)[1]))
    except Exception:
        pass
    from .runner import run_check

    if a.prop == "--selftest":
        return 0
    try:
        return run_check(a.prop, a.tier, seed, a.replay)
    except Exception:
        import traceback

        traceback.print_exc()
        return 2


if __name__ == "__main__":
    sys.exit(main())
