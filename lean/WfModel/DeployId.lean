import WfModel.Generated
import WfModel.GenDeployId
/-!
M13 — deployment-id derivation (`control_plane/k8s_client.py`:
`find_deployment_id`, `_append_random_suffix`).

The model works on `List Char` *after* Python's `str.lower()` (Unicode case
mapping is taken from the runtime; the correspondence harness feeds the model
`name.lower()` and the implementation `name`).  Randomness enters as an explicit
list of draws; id availability (`validate_deployment_id`, a Kubernetes lookup)
as an oracle.  Constants come from `Gen.C32` (regenerated from the source).
-/
namespace DeployId

def isLower (c : Char) : Bool := decide (97 ≤ c.toNat) && decide (c.toNat ≤ 122)
def isDigit (c : Char) : Bool := decide (48 ≤ c.toNat) && decide (c.toNat ≤ 57)
def isAlnum (c : Char) : Bool := isLower c || isDigit c
def isHyphen (c : Char) : Bool := c == '-'
def isLabelChar (c : Char) : Bool := isAlnum c || isHyphen c
/-- `"0123456789abcdef"` -/
def isHex (c : Char) : Bool := isDigit c || (decide (97 ≤ c.toNat) && decide (c.toNat ≤ 102))
/-- `"abcdef"` -/
def isHexAlpha (c : Char) : Bool := decide (97 ≤ c.toNat) && decide (c.toNat ≤ 102)

/-- `re.sub(r"[^a-z0-9]", "-", s)` -/
def sanitize (cs : List Char) : List Char := cs.map fun c => if isAlnum c then c else '-'

/-- `re.sub(r"-+", "-", s)` -/
def collapse : List Char → List Char
  | [] => []
  | [c] => [c]
  | c :: d :: rest =>
    if isHyphen c && isHyphen d then collapse (d :: rest) else c :: collapse (d :: rest)

def stripLead : List Char → List Char
  | [] => []
  | c :: r => if isHyphen c then r else c :: r

/-- `re.sub(r"^-|-$", "", s)`: at most one hyphen at each end. -/
def stripEnds (cs : List Char) : List Char := (stripLead (stripLead cs).reverse).reverse

/-- `"d-" + s` when `s` is non-empty and does not start with a letter. -/
def addPrefix : List Char → List Char
  | [] => []
  | c :: r => if isLower c then c :: r else 'd' :: '-' :: c :: r

/-- `s.rstrip("-")` -/
def rstrip (cs : List Char) : List Char := (cs.reverse.dropWhile isHyphen).reverse

/-- everything up to and including `deployment_id[:max_length].rstrip("-")` -/
def baseId (name : List Char) : List Char :=
  rstrip ((addPrefix (stripEnds (collapse (sanitize name)))).take Gen.C32.maxLength)

def alnumCount (name : List Char) : Nat := (name.filter isAlnum).length

structure Draw where
  hex : List Char
  alt : Char
deriving Repr

def wfDraw (d : Draw) : Bool :=
  d.hex.length == Gen.C32.randomness && d.hex.all isHex && isHexAlpha d.alt

/-- `_append_random_suffix` -/
def appendSuffix (id : List Char) (d : Draw) : List Char :=
  match id with
  | [] =>
    match d.hex with
    | h :: t => if isDigit h then d.alt :: t else h :: t
    | [] => []
  | _ :: _ => id.take (Gen.C32.maxLength - Gen.C32.randomness - 1) ++ '-' :: d.hex

/-- the `for i in range(1, 100)` loop; `none` = the final `raise ValueError`.
`answers` are the successive results of `validate_deployment_id` (a Kubernetes
lookup, adversarial here). -/
def findLoop (base : List Char) :
    Nat → List Char → List Bool → List Draw → Option (List Char)
  | 0, _, _, _ => none
  | n + 1, cur, answers, ds =>
    match answers with
    | [] => none
    | true :: _ => some cur
    | false :: answers' =>
      match ds with
      | [] => none
      | d :: ds' => findLoop base n (appendSuffix base d) answers' ds'

/-- iterations of `for i in range(loopStart, loopStop)` (bounds regenerated from the source) -/
def loopCount : Nat := Gen.DeployId.loopStop - Gen.DeployId.loopStart

def needsSuffix (name : List Char) (force : Bool) : Bool :=
  decide (alnumCount name < Gen.C32.minLength) || force

def findId (name : List Char) (force : Bool) (answers : List Bool) (ds : List Draw) :
    Option (List Char) :=
  let base := baseId name
  if needsSuffix name force then
    match ds with
    | [] => none
    | d :: ds' => findLoop base loopCount (appendSuffix base d) answers ds'
  else findLoop base loopCount base answers ds

/-- the ids `find_deployment_id` passes to `validate_deployment_id`, in order, when every answer
is "taken" and draws never run out: the base id (unless a suffix is needed at once), then one
freshly suffixed base per draw -/
def cands (name : List Char) (force : Bool) (ds : List Draw) : List (List Char) :=
  let base := baseId name
  if needsSuffix name force then ds.map (appendSuffix base) else base :: ds.map (appendSuffix base)

/-- the same loop with `validate_deployment_id` as a function of the lookup's index and of the
id it is asked about (the cluster may change between lookups).  Result: the id and the number
of lookups made, or `none` (the `ValueError`) with the number of lookups. -/
def findLoopO (base : List Char) (avail : Nat → List Char → Bool) :
    Nat → Nat → List Char → List Draw → Option (List Char) × Nat
  | 0, k, _, _ => (none, k)
  | n + 1, k, cur, ds =>
    if avail k cur then (some cur, k + 1)
    else
      match ds with
      | [] => (none, k + 1)
      | d :: ds' => findLoopO base avail n (k + 1) (appendSuffix base d) ds'

def findIdO (avail : Nat → List Char → Bool) (name : List Char) (force : Bool) (ds : List Draw) :
    Option (List Char) × Nat :=
  let base := baseId name
  if needsSuffix name force then
    match ds with
    | [] => (none, 0)
    | d :: ds' => findLoopO base avail loopCount 0 (appendSuffix base d) ds'
  else findLoopO base avail loopCount 0 base ds

/-- the answers the oracle gives when asked about `cs` in order, starting at lookup `k` -/
def oracleAnswers (avail : Nat → List Char → Bool) : Nat → List (List Char) → List Bool
  | _, [] => []
  | k, c :: cs => avail k c :: oracleAnswers avail (k + 1) cs

/-- `reserved_deployment_ids` (regenerated) -/
def reserved : List (List Char) := Gen.DeployId.reservedIds.map String.toList

/-- `display_name.lower() in reserved_deployment_ids` (the model's names are already lowered) -/
def isReserved (name : List Char) : Bool := reserved.contains name

/-- the `else` branch of `create_deployment`'s id choice:
`find_deployment_id(display_name, force_suffix=is_reserved)` -/
def deriveId (name : List Char) (answers : List Bool) (ds : List Draw) : Option (List Char) :=
  findId name (isReserved name) answers ds

/-! ### the specification the three `re.sub` passes are meant to compute -/

def consHead (c : Char) : List (List Char) → List (List Char)
  | [] => [[c]]
  | w :: ws => (c :: w) :: ws

/-- `re.split("[^a-z0-9]", s)`: the pieces between non-alphanumerics, empty ones included -/
def splitRaw : List Char → List (List Char)
  | [] => [[]]
  | c :: r => if isAlnum c then consHead c (splitRaw r) else [] :: splitRaw r

/-- the maximal runs of lowercase alphanumerics, in order -/
def words (cs : List Char) : List (List Char) := (splitRaw cs).filter fun w => !w.isEmpty

/-- `"-".join(ws)` -/
def hyphenJoin : List (List Char) → List Char
  | [] => []
  | [w] => w
  | w :: w' :: ws => w ++ '-' :: hyphenJoin (w' :: ws)

/-- DNS-1035 label, as `^[a-z]([a-z0-9-]{0,61}[a-z0-9])?$` in `schema/deployments.py` -/
def isDns1035 (r : List Char) : Bool :=
  match r with
  | [] => false
  | c :: rest =>
    isLower c && rest.all isLabelChar &&
      (match (c :: rest).getLast? with | some l => isAlnum l | none => false) &&
      decide ((c :: rest).length ≤ 63)

end DeployId
