import json, sys
pid = sys.argv[1]
tag = sys.argv[2] if len(sys.argv) > 2 else "b"
p = next(json.loads(l) for l in open('/verif/properties.jsonl') if json.loads(l)['id'] == pid)
wt = f"/tmp/seed_{pid}{tag}"
out = f"/tmp/seed_{pid}{tag}_out"
print(f"""You are helping to evaluate a verification effort by playing the adversary. The project is run-llama/workflows-py (LlamaIndex Workflows: an asyncio event-driven step engine with a pure tick/command reducer, worker pools, retries, waiters, resumable serialized state, plus an HTTP server and tooling). You have your own scratch git worktree of it at `{wt}` (create nothing elsewhere except your output directory `{out}`; never touch /repo or /verif, and do not read anything under /verif).

The following semantic property is supposed to hold of the code base:

  id: {pid}
  title: {p['title']}
  statement: {p['statement']}
  quantified over: {p['quantifier']['text']}
  anchored in: {', '.join(p['anchors']['files'])}
  mechanisms: {json.dumps(p['anchors'].get('mechanism', []))}

Your job: produce ONE realistic change to the source code (a patch of a few lines, the kind of regression a maintainer could plausibly introduce in a refactor or "optimisation") that BREAKS this property, while the code still imports/compiles and the existing pinned test suite still passes:
  cd {wt} && /venv/bin/python -m pytest -q -p no:cacheprovider tests/dev_cli      (147 tests must pass)
and, where runnable, the package's own tests do not newly fail either (for the engine package: `cd {wt}/packages/llama-index-workflows && PYTHONPATH=src:/tmp/seedshims /venv/bin/python -m pytest -q -p no:cacheprovider tests --ignore=tests/runtime` gives 424 passed + 3 pre-existing collection errors on the unchanged tree; other packages' tests mostly cannot be collected in this sandbox because starlette/uvicorn/sqlalchemy/asyncpg/dbos/kubernetes/cryptography are not installed and nothing can be installed: there is no network).

The change must NOT be one that ordinary use would expose at once. It must need something specific to manifest: a particular interleaving or completion order, a crash/stop or fault at a particular point, a multi-step sequence of operations, an unusual (but in-domain) input, or two cooperating sites that each look fine alone. Prefer subtle semantic changes in the anchored mechanisms over crude ones (no syntax errors, no deleted functions, no changes to tests, no new dependencies). Do not make a change that merely re-introduces an obviously commented known problem; make your own.

Deliverables in `{out}/`:
  1. `patch.diff` — `git -C {wt} diff` of your change (source files only).
  2. `demo.py` — a self-contained demonstration program that exits 0 and prints PASS on the UNCHANGED code and exits 1 and prints FAIL (with a short explanation of what was observed) on the changed code. It takes the checkout root as argv[1] (default `{wt}`) and makes it importable with:
         import sys; sys.path.insert(0, "/tmp/seedshims"); import seedboot; seedboot.boot(root)
     (read /tmp/seedshims/seedboot.py; the packages are not installed, `llama_index_instrumentation` is a no-op shim there; interpreter: /venv/bin/python, Python 3.12 with pydantic, httpx, PyYAML, packaging, pytest, hypothesis). It must be deterministic (control the interleaving explicitly with asyncio Events / ordering of awaits rather than sleeps where possible) and run in under 60 s.
  3. `meta.json` — {{"property": "{pid}", "summary": what the change does, "needs": what is needed for it to manifest, "why_tests_pass": why existing tests do not notice}}.

Verify yourself before finishing: (a) demo passes on a pristine copy (`git -C {wt} stash` / `git -C {wt} stash pop`, or run it against /repo read-only as argv[1]) and fails with your change; (b) the pinned suite passes with your change; (c) package tests as far as runnable. Leave the worktree `{wt}` with your change applied (uncommitted). In your final message give a 5-line summary.""")
