import WfProofs.EngineTerminal
/-! C04 on the runner LTS: exactly one terminal event, last in the stream, matching the outcome. -/
set_option linter.unusedSimpArgs false
set_option linter.unusedVariables false
set_option linter.unnecessarySimpa false

namespace Engine

def noTerminal (l : List Pub) : Prop := ∀ p ∈ l, isTerminalPub p = false

def outcomeMatches (p : Pub) : Outcome → Bool
  | .completed q => p == q
  | .failed s x => match p with | .failed s' x' _ _ => s == s' && x == x' | _ => false
  | .halted .cancelledByUser => p == .cancelled
  | .halted .timeout => match p with | .timedOut _ _ => true | _ => false
  | .crashed => false

/-- the run is over and its stream ends with exactly one terminal event, of the kind of the outcome -/
def EndedWell (r : Runner) : Prop :=
  ∃ o p pre, r.outcome = some o ∧ r.stream = pre ++ [p] ∧ noTerminal pre ∧ isTerminalPub p = true ∧
    outcomeMatches p o = true

def ticksOk (r : Runner) : Prop :=
  (∀ t ∈ r.buf, t.ok = true) ∧ (∀ t ∈ r.mailbox, t.ok = true) ∧ (∀ t ∈ r.heap, t.tick.ok = true)

/-- still running, nothing terminal published so far -/
def Live (r : Runner) : Prop := r.outcome = none ∧ noTerminal r.stream ∧ ticksOk r

theorem snoc_ok {l : List Tick} {t : Tick} (hl : ∀ x ∈ l, x.ok = true) (ht : t.ok = true) :
    ∀ x ∈ l ++ [t], x.ok = true := by
  intro x hx
  rcases List.mem_append.mp hx with hx | hx
  · exact hl x hx
  · simp only [List.mem_singleton] at hx; subst hx; exact ht

theorem execCmd_plain (r : Runner) (c : Cmd) (hc : plainCmd c = true) (hcr : c ≠ .crash) (h : Live r) :
    Live (execCmd r c) := by
  obtain ⟨ho, hs, hb, hm, hh⟩ := h
  cases c with
  | queueEvent att step delay =>
    simp only [execCmd]
    cases delay with
    | none => exact ⟨ho, hs, snoc_ok hb rfl, hm, hh⟩
    | some d =>
      simp only
      split
      · refine ⟨ho, hs, hb, hm, ?_⟩
        intro t ht
        simp only [Runner.push, List.mem_append, List.mem_singleton] at ht
        rcases ht with ht | ht
        · exact hh t ht
        · subst ht; rfl
      · exact ⟨ho, hs, snoc_ok hb rfl, hm, hh⟩
  | runWorker s ev w => exact ⟨ho, hs, hb, hm, hh⟩
  | halt k => simp [plainCmd, Cmd.isExit] at hc
  | completeRun p => simp [plainCmd, Cmd.isExit] at hc
  | failWorkflow s x => simp [plainCmd, Cmd.isExit] at hc
  | publish p =>
    simp only [plainCmd, Cmd.isExit, Bool.not_false, Bool.true_and, Bool.not_eq_true'] at hc
    refine ⟨ho, ?_, hb, hm, hh⟩
    intro q hq
    simp only [execCmd, List.mem_append, List.mem_singleton] at hq
    rcases hq with hq | hq
    · exact hs q hq
    · subst hq; exact hc
  | scheduleIdleCheck =>
    simp only [execCmd]
    split
    · exact ⟨ho, hs, hb, hm, hh⟩
    · exact ⟨ho, hs, snoc_ok hb rfl, hm, hh⟩
  | scheduleWaiterTimeout s w t =>
    refine ⟨ho, hs, hb, hm, ?_⟩
    intro x hx
    simp only [execCmd, Runner.push, List.mem_append, List.mem_singleton] at hx
    rcases hx with hx | hx
    · exact hh x hx
    · subst hx; rfl
  | crash => exact absurd rfl hcr

theorem plain_of_not (c : Cmd) (h : ¬ plainCmd c = true) (hne : c.isExit = false) :
    ∃ p, c = .publish p ∧ isTerminalPub p = true := by
  cases c <;> simp_all [plainCmd, Cmd.isExit]

/-- processing a well-paired command list either keeps the run live or ends it well -/
theorem execCmds_spec : ∀ (cmds : List Cmd) (r : Runner), Live r → termOk cmds = true →
    Cmd.crash ∉ cmds → Live (execCmds r cmds) ∨ EndedWell (execCmds r cmds)
  | [], r, h, _, _ => Or.inl (by simpa [execCmds] using h)
  | [c], r, h, ht, hcr => by
    have hc : plainCmd c = true := by cases c <;> simp_all [termOk, plainCmd, Cmd.isExit]
    have hl := execCmd_plain r c hc (by intro hh; apply hcr; simp [hh]) h
    left
    simp only [execCmds, hl.1, Option.isSome_none, Bool.false_eq_true, ↓reduceIte]
    exact hl
  | c :: d :: cs, r, h, ht, hcr => by
    by_cases hc : plainCmd c = true
    · have hl := execCmd_plain r c hc (by intro hh; apply hcr; simp [hh]) h
      rw [termOk_cons_plain c _ hc] at ht
      simp only [execCmds, hl.1, Option.isSome_none, Bool.false_eq_true, ↓reduceIte]
      exact execCmds_spec (d :: cs) _ hl ht (by intro hh; apply hcr; simp [hh])
    · have hne : c.isExit = false := by
        cases c <;> simp_all [termOk, plainCmd, Cmd.isExit]
      obtain ⟨p, hp, hterm⟩ := plain_of_not c hc hne
      subst hp
      simp only [termOk, hterm, ↓reduceIte, Bool.and_eq_true] at ht
      obtain ⟨⟨hdexit, hmatch⟩, _⟩ := ht
      right
      obtain ⟨ho, hs, _⟩ := h
      -- publish p, then the exit command d
      have h1 : (execCmd r (.publish p)).outcome = none := ho
      simp only [execCmds, h1, Option.isSome_none, Bool.false_eq_true, ↓reduceIte]
      cases d with
      | halt k =>
        cases k with
        | cancelledByUser =>
          refine ⟨.halted .cancelledByUser, p, r.stream, ?_, rfl, hs, hterm, ?_⟩
          · simp [execCmd, Runner.finish]
          · simpa [pubMatches, outcomeMatches] using hmatch
        | timeout =>
          refine ⟨.halted .timeout, p, r.stream, ?_, rfl, hs, hterm, ?_⟩
          · simp [execCmd, Runner.finish]
          · cases p <;> simp_all [pubMatches, outcomeMatches]
      | completeRun q =>
        refine ⟨.completed q, p, r.stream, ?_, rfl, hs, hterm, ?_⟩
        · simp [execCmd, Runner.finish]
        · simp only [pubMatches, Bool.and_eq_true] at hmatch
          simpa [outcomeMatches] using hmatch.1
      | failWorkflow s x =>
        refine ⟨.failed s x, p, r.stream, ?_, rfl, hs, hterm, ?_⟩
        · simp [execCmd, Runner.finish]
        · cases p <;> simp_all [pubMatches, outcomeMatches]
      | _ => simp [Cmd.isExit] at hdexit

/-- actions whose user-supplied content publishes no `StopEvent` behind the engine's back -/
def Act.ok : Act → Bool
  | .workerDone _ _ res => res.all Res.ok
  | .external t => t.ok
  | .stepWrite p => !isTerminalPub p
  | _ => true

theorem mem_sortTimers {t : Timer} : ∀ {l : List Timer}, t ∈ sortTimers l → t ∈ l := by
  have ins : ∀ (a : Timer) (l : List Timer) (x : Timer), x ∈ insertTimer a l → x = a ∨ x ∈ l := by
    intro a l
    induction l with
    | nil => intro x hx; simp [insertTimer] at hx; exact Or.inl hx
    | cons u us ih =>
      intro x hx
      unfold insertTimer at hx
      split at hx
      · simpa using hx
      · rcases List.mem_cons.mp hx with hx | hx
        · exact Or.inr (by simp [hx])
        · rcases ih x hx with h | h
          · exact Or.inl h
          · exact Or.inr (by simp [h])
  intro l
  induction l with
  | nil => intro h; simp [sortTimers] at h
  | cons a as ih =>
    intro h
    simp only [sortTimers, List.foldr_cons] at h
    rcases ins a _ t h with h | h
    · simp [h]
    · simp [ih h]

/-- one action keeps a live run live, ends it well, or — only through the explicit `crash`
command, i.e. a reducer exception — crashes it -/
theorem step_spec (cfg : Cfg) (pol : Policy) (r : Runner) (a : Act) (ha : a.ok = true) (h : Live r) :
    Live (r.step cfg pol a) ∨ EndedWell (r.step cfg pol a) ∨ (r.step cfg pol a).outcome = some .crashed := by
  obtain ⟨ho, hs, hb, hm, hh⟩ := h
  unfold Runner.step
  rw [if_neg (by simp [ho])]
  cases a with
  | drain =>
    simp only
    cases hbuf : r.buf with
    | nil => simp only; exact Or.inl ⟨ho, hs, by simpa [hbuf] using hb, hm, hh⟩
    | cons t rest =>
      simp only
      split
      · right; right; simp [Runner.finish]
      · rename_i hnc
        have htok : t.ok = true := hb t (by simp [hbuf])
        rcases execCmds_spec (reduce cfg pol t r.st r.now).2
          { r with
            buf := rest
            idlePending := (if t = Tick.idleCheck then false else r.idlePending)
            st := (reduce cfg pol t r.st r.now).1
            log := r.log ++ [(t, r.now)] }
          ⟨ho, hs, fun x hx => hb x (by simp [hbuf, hx]), hm, hh⟩
          (reduce_termOk cfg pol t r.st r.now htok) (by simpa using hnc) with h | h
        · exact Or.inl h
        · exact Or.inr (Or.inl h)
  | workerDone s w res =>
    simp only
    split
    · exact Or.inl ⟨ho, hs, hb, hm, hh⟩
    · split
      · exact Or.inl ⟨ho, hs, hb, hm, hh⟩
      · refine Or.inl ⟨ho, hs, ?_, hm, hh⟩
        intro t ht
        simp only [List.mem_singleton] at ht
        subst ht
        simpa [Tick.ok, Act.ok] using ha
  | pull =>
    simp only
    split
    · exact Or.inl ⟨ho, hs, hb, hm, hh⟩
    · split
      · exact Or.inl ⟨ho, hs, hb, hm, hh⟩
      · rename_i t m hmb
        refine Or.inl ⟨ho, hs, ?_, fun x hx => hm x (by simp [hmb, hx]), hh⟩
        intro x hx
        simp only [List.mem_singleton] at hx
        subst hx
        exact hm x (by simp [hmb])
  | timer =>
    simp only
    split
    · exact Or.inl ⟨ho, hs, hb, hm, hh⟩
    · refine Or.inl ⟨ho, hs, ?_, hm, ?_⟩
      · intro x hx
        simp only [List.mem_map] at hx
        obtain ⟨tm, htm, rfl⟩ := hx
        exact hh tm (List.mem_filter.mp (mem_sortTimers htm)).1
      · intro x hx
        exact hh x (List.mem_filter.mp hx).1
  | advance dt => exact Or.inl ⟨ho, hs, hb, hm, hh⟩
  | external t =>
    simp only
    split
    · refine Or.inl ⟨ho, hs, hb, ?_, hh⟩
      intro x hx
      rcases List.mem_append.mp hx with hx | hx
      · exact hm x hx
      · simp only [List.mem_singleton] at hx; subst hx; simpa [Act.ok] using ha
    · exact Or.inl ⟨ho, hs, hb, hm, hh⟩
  | stepWrite p =>
    refine Or.inl ⟨ho, ?_, hb, hm, hh⟩
    intro q hq
    simp only [List.mem_append, List.mem_singleton] at hq
    rcases hq with hq | hq
    · exact hs q hq
    · subst hq; simpa [Act.ok] using ha

theorem step_ended (cfg : Cfg) (pol : Policy) (r : Runner) (a : Act) (h : r.outcome.isSome = true) :
    r.step cfg pol a = r := by
  unfold Runner.step; simp [h]

theorem run_ended (cfg : Cfg) (pol : Policy) : ∀ (acts : List Act) (r : Runner), r.outcome.isSome = true →
    Runner.run cfg pol r acts = r
  | [], r, _ => rfl
  | a :: as, r, h => by
    simp only [Runner.run, List.foldl_cons]
    rw [step_ended cfg pol r a h]
    exact run_ended cfg pol as r h

theorem run_spec (cfg : Cfg) (pol : Policy) : ∀ (acts : List Act) (r : Runner), (∀ a ∈ acts, a.ok = true) →
    Live r →
    Live (Runner.run cfg pol r acts) ∨ EndedWell (Runner.run cfg pol r acts) ∨
      (Runner.run cfg pol r acts).outcome = some .crashed
  | [], r, _, h => Or.inl h
  | a :: as, r, hok, h => by
    simp only [Runner.run, List.foldl_cons]
    rcases step_spec cfg pol r a (hok a (by simp)) h with h1 | h1 | h1
    · exact run_spec cfg pol as _ (fun x hx => hok x (by simp [hx])) h1
    · have hsome : (r.step cfg pol a).outcome.isSome = true := by
        obtain ⟨o, _, _, ho, _⟩ := h1; simp [ho]
      have := run_ended cfg pol as _ hsome
      simp only [Runner.run] at this
      rw [this]; exact Or.inr (Or.inl h1)
    · have hsome : (r.step cfg pol a).outcome.isSome = true := by simp [h1]
      have := run_ended cfg pol as _ hsome
      simp only [Runner.run] at this
      rw [this]; exact Or.inr (Or.inr h1)

end Engine
