"""C32 — generated deployment ids are valid DNS-1035 labels."""
from __future__ import annotations

import ast
import asyncio
import re
from typing import Any

from ..boot import repo_path
from ..runner import Divergence, Driver, Env, Outcome, Violation, diff_streams

THEOREMS = [
    "C32_source_shape",
    "C32_valid_label",
    "C32_length_le",
    "C32_derived_or_suffixed",
    "C32_short_name_suffixed",
    "C32_base_from_name",
    "C32_first_try",
]
EXPLANATION = (
    "Lean model of find_deployment_id/_append_random_suffix over List Char; theorems hold for every name, "
    "every availability answer sequence and every draw. Tie: constants/regexes regenerated from source "
    "(C32_source_shape) and op-by-op correspondence of the AST-extracted real functions against the model "
    "with scripted randomness; implementation-side monitor checks the real DNS-1035 regex and the "
    "derived/suffixed clause directly."
)
ASSUMPTIONS = [
    "Python str.lower() (Unicode case mapping) is taken from the runtime; the model starts from name.lower()",
    "validate_deployment_id (Kubernetes lookup) is an adversarial oracle: any sequence of answers",
    "random.choices/choice draw from the alphabets named in the source (regenerated constants)",
]
TRUSTED_EXTRA = ["AST extraction of find_deployment_id and _append_random_suffix (exec'd with re, scripted random, stub validate_deployment_id)"]

K8S = "packages/llama-agents-control-plane/src/llama_agents/control_plane/k8s_client.py"
SCHEMA = "packages/llama-agents-core/src/llama_agents/core/schema/deployments.py"
HEX = "0123456789abcdef"
ALT = "abcdef"


class ScriptedRandom:
    """random.choices / random.choice driven by pre-drawn indices."""

    def __init__(self, draws: list[tuple[list[int], int]]):
        self.draws = draws
        self.i = -1

    def choices(self, population: Any, k: int = 1, **_kw: Any) -> list:
        self.i += 1
        idx = self.draws[self.i % len(self.draws)][0]
        return [population[idx[j % len(idx)] % len(population)] for j in range(k)]

    def choice(self, seq: Any) -> Any:
        alt = self.draws[max(self.i, 0) % len(self.draws)][1]
        return seq[alt % len(seq)]


def load_impl() -> dict[str, Any]:
    src = open(repo_path(K8S)).read()
    tree = ast.parse(src)
    wanted = [n for n in tree.body if isinstance(n, (ast.FunctionDef, ast.AsyncFunctionDef))
              and n.name in ("find_deployment_id", "_append_random_suffix")]
    if len(wanted) != 2:
        raise RuntimeError("find_deployment_id/_append_random_suffix not found in k8s_client.py")
    mod = ast.Module(body=wanted, type_ignores=[])
    ns: dict[str, Any] = {"re": re, "random": None, "validate_deployment_id": None}
    exec(compile(mod, repo_path(K8S), "exec"), ns)
    return ns


def real_dns_regex() -> re.Pattern:
    tree = ast.parse(open(repo_path(SCHEMA)).read())
    for n in ast.walk(tree):
        if isinstance(n, ast.Assign) and isinstance(n.targets[0], ast.Name) and n.targets[0].id == "_DNS_1035_RE":
            return re.compile(n.value.args[0].value)  # type: ignore[attr-defined]
    raise RuntimeError("_DNS_1035_RE not found")


def call_impl(ns: dict[str, Any], name: str, force: bool, answers: list[bool], draws: list[tuple[list[int], int]]) -> tuple[str | None, int]:
    it = iter(answers)
    calls = [0]

    async def validate(_id: str) -> bool:
        calls[0] += 1
        try:
            return next(it)
        except StopIteration:
            return False

    ns["random"] = ScriptedRandom(draws)
    ns["validate_deployment_id"] = validate
    try:
        r = asyncio.run(ns["find_deployment_id"](name, force_suffix=force))
    except ValueError:
        return None, calls[0]
    return r, calls[0]


WORDS = ["my", "service", "api", "a", "b", "x1", "42", "prod", "llama", "index", "version", "list-projects",
         "Über", "naïve", "İstanbul", "ǅ", "K", "ß", "日本", "١٢٣", "🚀", "ＡＢＣ"]
SEPS = [" ", "-", "_", "--", ".", "/", "\n", "\t", " - ", "", "__", "!"]


def gen_name(rng) -> str:
    mode = rng.random()
    if mode < 0.08:
        return rng.choice(["", "-", "--", "1", "12", "a", "ab", "a b", "a-b", "1 2", "-a-", "_", "é", "٣", "A", "A B"])
    if mode < 0.16:
        return rng.choice(["validate-repository", "list-projects", "organizations", "version", "Version"])
    if mode < 0.28:
        # long names around the truncation boundary
        n = rng.choice([55, 56, 57, 58, 61, 62, 63, 64, 65, 70, 120])
        chars = [rng.choice("abcxyz019-_ ") for _ in range(n)]
        return "".join(chars)
    if mode < 0.40:
        n = rng.randint(1, 12)
        return "".join(chr(rng.choice([rng.randint(32, 126), rng.randint(0xA0, 0x24F), rng.randint(0x370, 0x3FF),
                                       rng.randint(0x2100, 0x214F), rng.randint(0xFF10, 0xFF5A)])) for _ in range(n))
    k = rng.randint(1, 5)
    parts = []
    for i in range(k):
        w = rng.choice(WORDS)
        if rng.random() < 0.3:
            w = w.upper()
        parts.append(w)
        if i < k - 1:
            parts.append(rng.choice(SEPS))
    s = "".join(parts)
    if rng.random() < 0.2:
        s = rng.choice(SEPS) + s
    if rng.random() < 0.2:
        s = s + rng.choice(SEPS)
    return s


def gen_case(rng) -> dict:
    name = gen_name(rng)
    force = rng.random() < 0.15
    m = rng.random()
    if m < 0.55:
        answers = [True]
    elif m < 0.9:
        k = rng.randint(1, 5)
        answers = [False] * k + [True]
    elif m < 0.95:
        answers = [False] * 98 + [True]
    else:
        answers = [False] * 99 + [True]  # exhausts the loop -> ValueError
    ndraws = len(answers) + 1
    draws = [([rng.randrange(16) for _ in range(5)], rng.randrange(6)) for _ in range(ndraws)]
    if rng.random() < 0.4:
        draws[0][0][0] = rng.randrange(10)  # force a leading digit in the first suffix
    return {"name": name, "force": force, "answers": answers, "draws": draws}


def cps(s: str) -> str:
    return ",".join(str(ord(c)) for c in s)


def op_line(case: dict) -> str:
    lowered = case["name"].lower()
    ds = ";".join(cps("".join(HEX[i] for i in hexidx)) + ":" + str(ord(ALT[alt])) for hexidx, alt in case["draws"])
    return "|".join(["find", "1" if case["force"] else "0", cps(lowered),
                     "".join("1" if a else "0" for a in case["answers"]), ds])


def monitor(case: dict, result: str | None, dns: re.Pattern) -> Violation | None:
    """Property C32 stated directly on the implementation's answer."""
    if result is None:
        return None  # ValueError: no id derived (all candidates taken)
    name = case["name"]
    if not dns.match(result) or len(result) > 63 or result.endswith("\n"):
        return Violation("C32/invalid_label", f"id {result!r} for name {name!r} is not a DNS-1035 label <= 63 chars", case)
    alnums = re.findall(r"[a-z0-9]", name.lower())
    suffixed = bool(re.search(r"(^|-)[0-9a-f]{5}$", result)) and (
        any(result.endswith("".join(HEX[i] for i in d[0])) or (result[1:] == "".join(HEX[i] for i in d[0])[1:] and len(result) == 5)
            for d in case["draws"]))
    if len(alnums) < 3 or case["force"] or not case["answers"][0]:
        if not suffixed:
            return Violation("C32/missing_suffix", f"id {result!r} for name {name!r} (alnums={len(alnums)}, force={case['force']}, "
                             f"first id taken={not case['answers'][0]}) carries no drawn random suffix", case)
    else:
        got = re.findall(r"[a-z0-9]", result)
        want = (["d"] if alnums[0].isdigit() else []) + alnums
        if got != want[: len(got)] or (len(got) < len(want) and len(result) < 57):
            return Violation("C32/not_derived", f"id {result!r} is not derived from the lowercase alphanumerics of {name!r}", case)
    return None


def run(env: Env) -> Outcome:
    out = Outcome()
    out.rule = ("names drawn from words/separators/Unicode/boundary-length generators x force flag x availability answers x "
                "scripted draws; non-trivial = returned an id; distinct by (name.lower(), force, answers, draws)")
    ns = load_impl()
    dns = real_dns_regex()
    cases: list[dict] = []
    if env.replay is not None:
        cases.append(env.replay["payload"]["case"])
    corpus = [
        {"name": "a b", "force": False, "answers": [True], "draws": [([1, 2, 3, 4, 5], 0)]},
        {"name": "1", "force": False, "answers": [True], "draws": [([1, 2, 3, 4, 5], 0)]},
        {"name": "12", "force": False, "answers": [True], "draws": [([0, 11, 14, 14, 15], 2)]},
        {"name": "", "force": False, "answers": [False, True], "draws": [([0, 1, 2, 3, 4], 5), ([10, 1, 2, 3, 4], 0)]},
        {"name": "x" * 63 + "-tail", "force": False, "answers": [False, True], "draws": [([0] * 5, 0), ([15] * 5, 0)]},
        {"name": "ab" + "-" * 60 + "cd", "force": False, "answers": [True], "draws": [([0] * 5, 0)]},
        {"name": "version", "force": True, "answers": [True], "draws": [([3] * 5, 0)]},
    ]
    cases += corpus
    n = env.budget(1500, 40000)
    cases += [gen_case(env.rng) for _ in range(n)]
    ops = [op_line(c) for c in cases]
    impl_out: list[str] = []
    for c in cases:
        r, ncalls = call_impl(ns, c["name"], c["force"], c["answers"], c["draws"])
        out.evaluations += 1
        impl_out.append("none" if r is None else "some " + cps(r))
        out.count("result:none" if r is None else "result:id")
        out.count("force" if c["force"] else "noforce")
        out.count(f"validate_calls:{min(ncalls, 7)}{'+' if ncalls > 7 else ''}")
        if r is not None:
            out.nontrivial((c["name"].lower(), c["force"], tuple(c["answers"]), repr(c["draws"])))
            out.count("kind:" + ("suffixed" if re.search(r"(^|-)[0-9a-f]{5}$", r) else "plain"))
            if len(r) >= 57:
                out.count("long>=57")
        v = monitor(c, r, dns)
        if v is not None:
            out.violations.append(v)
        out.sample({"name": c["name"], "force": c["force"], "answers": c["answers"][:4], "id": r})
    # also tie isDns1035 to the real regex on the produced ids and on random strings
    dns_inputs = [o[5:] for o in impl_out if o.startswith("some ")][:500]
    alphabet = "abz09-A_. \n"
    for _ in range(env.budget(400, 5000)):
        k = env.rng.randint(0, 66)
        dns_inputs.append(cps("".join(env.rng.choice(alphabet if env.rng.random() < 0.2 else "abz09-") for _ in range(k))))
    ops2 = ["dns|" + s for s in dns_inputs]
    impl2 = []
    for s in dns_inputs:
        text = "".join(chr(int(x)) for x in s.split(",")) if s else ""
        impl2.append("true" if (dns.match(text) and not text.endswith("\n")) else "false")
    try:
        model_out = Driver("deployid").run(ops + ops2)
    except Exception as e:  # model unavailable: correspondence cannot be established
        out.divergences.append(Divergence("deployid", 0, "<driver>", repr(e), ""))
        return out
    out.traces_validated = len(ops) + len(ops2)
    d = diff_streams("deployid", ops + ops2, model_out, impl_out + impl2)
    out.disagreements_checked = len(ops) + len(ops2)
    if d is not None:
        if d.index < len(cases):
            d.context = cases[d.index]
        out.divergences.append(d)
    return out
