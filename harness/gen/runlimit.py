"""Generator for lean/WfModel/GenRunLimit.lean (property C30).

Re-extracted from /repo's *current* ``workflows/plugins/basic.py`` on every run:

* the constructor of the semaphore registry (``self._max_concurrent_runs = ...``),
* the body of ``BasicRuntime._maybe_acquire_max_concurrent_runs`` in a canonical
  spelling (parameters ``$p1..``, locals ``$v1..`` in order of first assignment, no
  comments / docstrings): the ``None`` test, the registry key, the semaphore's
  initial value, the ``async with`` that spans the ``yield``,
* the statement of ``run_with_concurrency_limit`` that wraps the workflow run
  function, the number of ``await``s of that task function outside the wrapper,
  and how ``run_workflow`` turns it into a task.

Renaming a local or a parameter leaves the text unchanged; changing the key
(``id(workflow)``), the initial value, dropping the ``async with`` or moving the
run function out of it changes it and breaks ``C30_source_shape``.
"""
from __future__ import annotations

import ast
import copy

from ..boot import repo_path

LEAN_MODULE = "GenRunLimit"
BASIC = "packages/llama-index-workflows/src/workflows/plugins/basic.py"
MISSING = "<missing>"


def lean_str(s: str) -> str:
    out = ['"']
    for ch in s:
        if ch == '"':
            out.append('\\"')
        elif ch == "\\":
            out.append("\\\\")
        elif ch == "\n":
            out.append("\\n")
        elif ch == "\t":
            out.append("\\t")
        elif 32 <= ord(ch) < 127:
            out.append(ch)
        else:
            out.append("\\u{%x}" % ord(ch))
    out.append('"')
    return "".join(out)


class _Canon(ast.NodeTransformer):
    """rename names by `mapping`; replace single-assignment locals by their definition"""

    def __init__(self, mapping: dict[str, str], defs: dict[str, ast.expr] | None = None, depth: int = 0):
        self.mapping = mapping
        self.defs = defs or {}
        self.depth = depth

    def visit_Name(self, node: ast.Name) -> ast.AST:
        if node.id in self.mapping:
            return ast.copy_location(ast.Name(id=self.mapping[node.id], ctx=node.ctx), node)
        if isinstance(node.ctx, ast.Load) and node.id in self.defs and self.depth < 6:
            return _Canon(self.mapping, self.defs, self.depth + 1).visit(copy.deepcopy(self.defs[node.id]))
        return node


def _single_defs(fn: ast.AST) -> dict[str, ast.expr]:
    """locals of `fn` (not of nested functions) assigned exactly once by `name = expr`"""
    count: dict[str, int] = {}
    val: dict[str, ast.expr] = {}

    def walk(node: ast.AST) -> None:
        for ch in ast.iter_child_nodes(node):
            if isinstance(ch, (ast.FunctionDef, ast.AsyncFunctionDef, ast.Lambda, ast.ClassDef)):
                continue
            if isinstance(ch, ast.Name) and isinstance(ch.ctx, ast.Store):
                count[ch.id] = count.get(ch.id, 0) + 1
            if isinstance(ch, ast.Assign) and len(ch.targets) == 1 and isinstance(ch.targets[0], ast.Name):
                val[ch.targets[0].id] = ch.value
            walk(ch)

    walk(fn)
    return {k: v for k, v in val.items() if count.get(k) == 1}


def _strip_doc(body: list[ast.stmt]) -> list[ast.stmt]:
    if body and isinstance(body[0], ast.Expr) and isinstance(body[0].value, ast.Constant) and isinstance(body[0].value.value, str):
        return body[1:]
    return body


def _canon_body(fn: ast.AST, extra: dict[str, str] | None = None) -> tuple[str, dict[str, str]]:
    """canonical text of a function body: parameters -> $p1.., assigned locals -> $v1.."""
    mapping: dict[str, str] = dict(extra or {})
    params = [a.arg for a in fn.args.posonlyargs + fn.args.args + fn.args.kwonlyargs if a.arg != "self"]  # type: ignore[attr-defined]
    for n, p in enumerate(params, 1):
        mapping.setdefault(p, f"$p{n}")
    k = 0
    for node in ast.walk(ast.Module(body=list(fn.body), type_ignores=[])):  # type: ignore[attr-defined]
        if isinstance(node, ast.Name) and isinstance(node.ctx, ast.Store) and node.id not in mapping:
            k += 1
            mapping[node.id] = f"$v{k}"
    body = [_Canon(mapping).visit(copy.deepcopy(s)) for s in _strip_doc(list(fn.body))]  # type: ignore[attr-defined]
    return ast.unparse(ast.Module(body=body, type_ignores=[])), mapping


def _find_class(tree: ast.Module, name: str) -> ast.ClassDef | None:
    for n in tree.body:
        if isinstance(n, ast.ClassDef) and n.name == name:
            return n
    return None


def _find_fn(body: list[ast.stmt], name: str) -> ast.AST | None:
    for n in body:
        if isinstance(n, (ast.FunctionDef, ast.AsyncFunctionDef)) and n.name == name:
            return n
    return None


def extract(notes: list[str]) -> dict:
    res = {"registryCtor": MISSING, "acquireBody": MISSING, "limitedRun": MISSING, "awaitsOutsideLimit": 999,
           "taskExpr": MISSING, "acquireIsAsyncCm": False}
    try:
        tree = ast.parse(open(repo_path(BASIC)).read())
    except (OSError, SyntaxError) as e:
        notes.append(f"translate: gen/runlimit: cannot parse {BASIC}: {e!r}")
        return res
    cls = _find_class(tree, "BasicRuntime")
    if cls is None:
        notes.append("translate: gen/runlimit: class BasicRuntime not found")
        return res
    init = _find_fn(cls.body, "__init__")
    if init is not None:
        for node in ast.walk(init):
            tgt = None
            if isinstance(node, ast.Assign) and len(node.targets) == 1:
                tgt, val = node.targets[0], node.value
            elif isinstance(node, ast.AnnAssign) and node.value is not None:
                tgt, val = node.target, node.value
            if tgt is not None and isinstance(tgt, ast.Attribute) and tgt.attr == "_max_concurrent_runs" \
                    and isinstance(tgt.value, ast.Name) and tgt.value.id == "self":
                res["registryCtor"] = ast.unparse(val)
    if res["registryCtor"] == MISSING:
        notes.append("translate: gen/runlimit: self._max_concurrent_runs is not assigned in BasicRuntime.__init__")
    acq = _find_fn(cls.body, "_maybe_acquire_max_concurrent_runs")
    if acq is None:
        notes.append("translate: gen/runlimit: _maybe_acquire_max_concurrent_runs not found")
    else:
        res["acquireBody"], _ = _canon_body(acq)
        res["acquireIsAsyncCm"] = isinstance(acq, ast.AsyncFunctionDef) and any(
            ast.unparse(d) == "asynccontextmanager" for d in acq.decorator_list)
    rw = _find_fn(cls.body, "run_workflow")
    if rw is None:
        notes.append("translate: gen/runlimit: run_workflow not found")
        return res
    params = [a.arg for a in rw.args.args if a.arg != "self"]  # type: ignore[attr-defined]
    outer = {p: f"$p{n}" for n, p in enumerate(params, 1)}
    inner = None
    for node in ast.walk(rw):
        if isinstance(node, ast.AsyncFunctionDef) and node is not rw:
            for sub in ast.walk(node):
                if isinstance(sub, ast.AsyncWith) and "_maybe_acquire_max_concurrent_runs" in ast.unparse(sub.items[0].context_expr):
                    inner = (node, sub)
    if inner is None:
        notes.append("translate: gen/runlimit: no task function wrapping the run in _maybe_acquire_max_concurrent_runs")
        return res
    fn, aw = inner
    mapping = dict(outer)
    mapping[fn.name] = "$f"
    defs = _single_defs(rw)
    res["limitedRun"] = ast.unparse(_Canon(mapping, defs).visit(copy.deepcopy(aw)))
    inside = {id(n) for n in ast.walk(aw)}
    res["awaitsOutsideLimit"] = sum(1 for n in ast.walk(fn) if isinstance(n, (ast.Await, ast.AsyncFor, ast.AsyncWith))
                                    and id(n) not in inside)
    for node in ast.walk(rw):
        if isinstance(node, ast.Call) and any(isinstance(a, ast.Call) and isinstance(a.func, ast.Name) and a.func.id == fn.name
                                              for a in node.args):
            res["taskExpr"] = ast.unparse(_Canon(mapping).visit(copy.deepcopy(node)))
    if res["taskExpr"] == MISSING:
        notes.append("translate: gen/runlimit: the task function is never turned into a task")
    return res


def generate(notes: list[str]) -> list[str]:
    r = extract(notes)
    L = ["namespace Gen.RunLimit", "",
         f"/-! from /repo: {BASIC} -/",
         f"def registryCtor : String := {lean_str(r['registryCtor'])}",
         f"def acquireIsAsyncCm : Bool := {'true' if r['acquireIsAsyncCm'] else 'false'}",
         f"def acquireBody : String := {lean_str(r['acquireBody'])}",
         f"def limitedRun : String := {lean_str(r['limitedRun'])}",
         f"def awaitsOutsideLimit : Nat := {int(r['awaitsOutsideLimit'])}",
         f"def taskExpr : String := {lean_str(r['taskExpr'])}",
         "", "end Gen.RunLimit"]
    return L
