import WfProofs.ReplayResume
/-!
`rewind_in_progress` on a state with work pending: the step's pending invocations (in progress
before, or only queued) are started as workers at once — the rewound state has a non-empty
in-progress table for every step that had anything pending and has a worker to give.  In
particular the rewind is **not** the identity on a state whose in-progress tables are all empty
but whose queues are not (every deserialised context with pending work is such a state).
-/
set_option linter.unusedVariables false
set_option linter.unusedSimpArgs false

namespace Engine

theorem addOrEnqueue_inProg_ne (att : Attempt) (step : Nat) (ss : StepState) (nw : Nat) (now : Int)
    (h : ss.inProg ≠ []) : (addOrEnqueue att step ss nw now).1.inProg ≠ [] := by
  unfold addOrEnqueue
  split
  · split
    · simp
    · exact h
  · exact h

theorem addOrEnqueue_starts (att : Attempt) (step : Nat) (ss : StepState) (nw : Nat) (now : Int)
    (hip : ss.inProg = []) (hnw : 0 < nw) : (addOrEnqueue att step ss nw now).1.inProg ≠ [] := by
  unfold addOrEnqueue
  have hlen : ss.inProg.length < nw := by simp [hip, hnw]
  simp only [hlen, if_true]
  have hf : freeIds ss nw ≠ [] := by
    have h0 : 0 ∈ freeIds ss nw := by
      simp [freeIds, usedIds, hip, hnw]
    intro hn
    rw [hn] at h0
    cases h0
  cases hfi : freeIds ss nw with
  | nil => exact absurd hfi hf
  | cons id rest => simp

theorem drain_inProg_ne (step nw : Nat) (now : Int) : ∀ (fuel : Nat) (ss : StepState),
    ss.inProg ≠ [] → (drain step nw now fuel ss).1.inProg ≠ []
  | 0, ss, h => by simpa [drain] using h
  | fuel + 1, ss, h => by
    unfold drain
    split
    · exact h
    · split
      · exact drain_inProg_ne step nw now fuel _ (addOrEnqueue_inProg_ne _ step _ nw now h)
      · exact h

/-- a step with at least one worker and anything pending has an invocation in progress after the rewind -/
theorem rewindStep_starts (c : StepCfg) (ss : StepState) (now : Int) (hnw : 0 < c.numWorkers)
    (hp : ss.queue ≠ [] ∨ ss.inProg ≠ []) : (rewindStep c ss now).1.inProg ≠ [] := by
  unfold rewindStep
  have hq : (ss.inProg.map inProgToAttempt).reverse ++ ss.queue ≠ [] := by
    rcases hp with hp | hp
    · simp [hp]
    · simp [hp]
  cases hqe : (ss.inProg.map inProgToAttempt).reverse ++ ss.queue with
  | nil => exact absurd hqe hq
  | cons a q =>
    simp only [List.length_cons]
    unfold drain
    simp only [List.length_nil, hnw, if_true]
    exact drain_inProg_ne c.name c.numWorkers now q.length _
      (addOrEnqueue_starts a c.name _ c.numWorkers now rfl hnw)

theorem rewind_starts_pending (cfg : Cfg) (hwf : cfg.WF) (st : State) (now : Int) (c : StepCfg)
    (hc : c ∈ cfg.steps) (hnw : 0 < c.numWorkers)
    (hp : (st.workers c.name).queue ≠ [] ∨ (st.workers c.name).inProg ≠ []) :
    ((rewind cfg st now).1.workers c.name).inProg ≠ [] := by
  unfold rewind
  rw [rewindLoop_at now (sortedSteps cfg) st [] ((sortedSteps_names_perm cfg).nodup_iff.mpr hwf) c
    (mem_sortedSteps_iff.mpr hc)]
  exact rewindStep_starts c _ now hnw hp

end Engine
