import WfModel.MigrateShipped
import WfModel.MigrateConn
import Driver.Engine
open Migrate Drv.Engine
/-! Line protocol for M11 (`wfdriver migrate`).  The driver keeps one database state.

    fresh                      start from an empty database
    setuv <int>                PRAGMA user_version = n
    ddl <STMTS>                run statements outside run_migrations, all or nothing ("ok"/"err" + state)
    run <SOURCES>              run_migrations(conn, sources)
    runshipped                 run_migrations(conn) with the regenerated shipped directory
    shipped                    the regenerated table after loading: name:version:<stmts>
    parse <STR>                parse_target_version
    load <FILES>               iter_migration_files + versions: name:version ...
    classes                    the Unicode tables the header parser uses
    session <SOURCES>          one process start: connect, run_migrations, close WITHOUT commit; answers the
                               re-opened file and whether a transaction was still open at close
    sessionshipped             the same with the shipped directory
    durables <SOURCES>         the successive distinct file contents while a run proceeds (what a kill at
                               any point leaves), ' ## ' separated; state unchanged
    durablesshipped
    pick <n>                   the file becomes the n-th state of the last `durables` answer
    c28prodrun                 run_migrations(conn, sources=_SQLITE_SOURCES): the regenerated production list
                               (server directory, then the dbos package's directory)
    c28prodsession             the same as one process start (connect / run / close without commit)
    c28prodtable               the regenerated production sources after loading: pkg=name:version:<stmts> ...

  STR = 's' + comma separated code points;  SOURCES = n (STR FILES)*;  FILES = n (STR STR STMTS)*;
  STMTS = n STMT*;  STMT = ct b STR n (STR STR)* | ac STR STR STR | ci b b STR STR n STR* | inv -/
namespace Drv.Migrate

def chars : P (List Char) := fun ts =>
  match ts with
  | t :: r =>
    if t.startsWith "s" then
      let body := (t.drop 1).toString
      if body.isEmpty then some ([], r)
      else ((body.splitOn ",").mapM String.toNat?).map fun ns => (ns.map Char.ofNat, r)
    else none
  | [] => none

def str : P String := do let cs ← chars; pure (String.ofList cs)

def col : P Col := do let n ← str; let d ← str; pure { name := n, decl := d }

def stmt : P Stmt := do
  match ← tok with
  | "ct" => do let i ← bool; let n ← str; let cs ← counted col; pure (.createTable i n cs)
  | "ac" => do let t ← str; let c ← col; pure (.addColumn t c)
  | "ci" => do let i ← bool; let u ← bool; let n ← str; let t ← str; let cs ← counted str; pure (.createIndex i u n t cs)
  | "inv" => pure .invalid
  | _ => fun _ => none

def file : P File := do let n ← str; let t ← chars; let ss ← counted stmt; pure { name := n, text := t, stmts := ss }

def source : P (String × List File) := do let p ← str; let fs ← counted file; pure (p, fs)

def showCol (c : Col) : String := s!"{c.name}/{c.decl}"

def showObj : Obj → String
  | .table n cs => s!"T {n}({",".intercalate (cs.map showCol)})"
  | .index n t u cs => s!"I {n} on {t} u={if u then 1 else 0} ({",".intercalate cs})"

def showDb (db : Db) : String :=
  s!"sm={if db.hasSM then 1 else 0} uv={db.userVersion} rows=[{",".intercalate (db.rows.map fun r => s!"{r.1}:{r.2}")}] schema=[{";".intercalate (db.schema.map showObj)}]"

def showStmt : Stmt → String
  | .createTable i n cs => s!"ct {if i then 1 else 0} {n}({",".intercalate (cs.map showCol)})"
  | .addColumn t c => s!"ac {t} {showCol c}"
  | .createIndex i u n t cs => s!"ci {if i then 1 else 0} {if u then 1 else 0} {n} on {t} ({",".intercalate cs})"
  | .invalid => "inv"

def showResult : Result → Db × String
  | .ok db => (db, "ok " ++ showDb db)
  | .failed f db => (db, s!"failed {f} " ++ showDb db)

def showSession (r : Result × Bool) : Db × String :=
  let (db, s) := showResult r.1
  (db, s ++ s!" pending={if r.2 then 1 else 0}")

def showDurables (ds : List Db) : String := " ## ".intercalate (ds.map showDb)

def stepDb (db : Db) (line : String) : Db × String :=
  match tokens line with
  | ["fresh"] => (fresh, showDb fresh)
  | ["setuv", n] =>
    match n.toInt? with
    | some v => let db' := { db with userVersion := v }; (db', showDb db')
    | none => (db, "bad-op")
  | "ddl" :: ts =>
    match counted stmt ts with
    | some (ss, []) =>
      match applyStmts db.schema ss with
      | some s => let db' := { db with schema := s }; (db', "ok " ++ showDb db')
      | none => (db, "err " ++ showDb db)
    | _ => (db, "bad-op")
  | "run" :: ts =>
    match counted source ts with
    | some (srcs, []) => showResult (runMigrations srcs db)
    | _ => (db, "bad-op")
  | ["runshipped"] => showResult (runMigrations shippedSources db)
  | ["c28prodrun"] => showResult (runMigrations productionSources db)
  | ["c28prodtable"] =>
    (db, " | ".intercalate (productionSources.map fun src =>
      src.1 ++ "=" ++ " ".intercalate ((loadMigrations src.2).map fun m =>
        s!"{m.name}:{m.version}:<{";".intercalate (m.stmts.map showStmt)}>")))
  | ["shipped"] =>
    (db, " ".intercalate ((loadMigrations shippedFiles).map fun m =>
      s!"{m.name}:{m.version}:<{";".intercalate (m.stmts.map showStmt)}>"))
  | "parse" :: ts =>
    match chars ts with
    | some (cs, []) =>
      match parseTargetVersion cs with
      | some v => (db, s!"some {v}")
      | none => (db, "none")
    | _ => (db, "bad-op")
  | "load" :: ts =>
    match counted file ts with
    | some (fs, []) => (db, " ".intercalate ((loadMigrations fs).map fun m => s!"{m.name}:{m.version}"))
    | _ => (db, "bad-op")
  | ["classes"] =>
    (db, s!"breaks={lineBreaks} spaces={spaces} zeros={digitZeros}")
  | _ => (db, "bad-op")

/-- driver state: the database file and the answer of the last `durables` -/
def step (st : Db × List Db) (line : String) : (Db × List Db) × String :=
  let db := st.1
  match tokens line with
  | "session" :: ts =>
    match counted source ts with
    | some (srcs, []) => let (db', s) := showSession (session srcs db); ((db', st.2), s)
    | _ => (st, "bad-op")
  | ["c28prodsession"] => let (db', s) := showSession (session productionSources db); ((db', st.2), s)
  | ["sessionshipped"] => let (db', s) := showSession (session shippedSources db); ((db', st.2), s)
  | "durables" :: ts =>
    match counted source ts with
    | some (srcs, []) => let ds := durables srcs db; ((db, ds), showDurables ds)
    | _ => (st, "bad-op")
  | ["durablesshipped"] => let ds := durables shippedSources db; ((db, ds), showDurables ds)
  | ["pick", n] =>
    match n.toNat? with
    | some i =>
      match st.2[i]? with
      | some d => ((d, st.2), showDb d)
      | none => (st, "bad-op")
    | none => (st, "bad-op")
  | _ => let (db', s) := stepDb db line; ((db', st.2), s)

end Drv.Migrate
